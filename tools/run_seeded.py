#!/usr/bin/env python3
"""Apply a seeded change (seeded/<id>/patch.diff) to /repo, run the property's check(s), undo it, record the outcome.

usage: tools/run_seeded.py <seeded-id> [--tier quick] [--props C05,C04]"""
import argparse, json, os, subprocess, sys, time
HERE = os.path.dirname(os.path.dirname(os.path.abspath(__file__)))
ap = argparse.ArgumentParser(); ap.add_argument('sid'); ap.add_argument('--tier', default='quick'); ap.add_argument('--props', default=''); ap.add_argument('--inplace', action='store_true', help='apply to /repo itself (final protocol); default: scratch worktree + VERIF_REPO')
a = ap.parse_args()
d = os.path.join(HERE, 'seeded', a.sid)
meta = json.load(open(os.path.join(d, 'meta.json')))
props = a.props.split(',') if a.props else [meta['property']]
env = dict(os.environ)
if a.inplace:
    st = subprocess.run(['git', '-C', '/repo', 'status', '--porcelain', '--untracked-files=no'], capture_output=True, text=True).stdout.strip()
    if st:
        sys.exit('refusing: /repo has uncommitted changes:\n' + st)
    subprocess.check_call(['git', '-C', '/repo', 'apply', os.path.join(d, 'patch.diff')])
else:
    wt = '/tmp/seedrun/' + a.sid
    subprocess.run(['git', '-C', '/repo', 'worktree', 'remove', '--force', wt], capture_output=True)
    os.makedirs('/tmp/seedrun', exist_ok=True)
    subprocess.check_call(['git', '-C', '/repo', 'worktree', 'add', '-q', wt, 'HEAD'])
    subprocess.check_call(['git', '-C', wt, 'apply', os.path.join(d, 'patch.diff')])
    env.update(VERIF_REPO=wt, VERIF_WORK_TAG='_seed_' + a.sid, VERIF_EVIDENCE_DIR='/tmp/seedrun/evidence_' + a.sid, VERIF_NCPU='6')
results = {}
try:
    for pid in props:
        t0 = time.time()
        p = subprocess.run([sys.executable, os.path.join(HERE, 'run.py'), 'check', pid, '--tier', a.tier], cwd=HERE, capture_output=True, text=True, env=env)
        lines = [l for l in p.stdout.splitlines() if l.startswith(('VIOLATION', 'KNOWN-FINDING', '['))]
        results[pid] = {'exit': p.returncode, 'lines': lines[-4:], 'wall_s': round(time.time() - t0, 1)}
        print(pid, p.returncode, lines[-3:])
        for l in lines:
            if l.startswith('VIOLATION') and 'replay=' in l:
                rp = l.split('replay=')[1].split()[0]
                try:
                    rep = json.load(open(rp))
                    results[pid]['replay_excerpt'] = json.dumps({k: rep.get(k) for k in ('kind', 'signature', 'message', 'case', 'no_longer_checks')})[:1500]
                except OSError:
                    pass
finally:
    if a.inplace:
        subprocess.check_call(['git', '-C', '/repo', 'checkout', '--', '.'])
    else:
        subprocess.run(['git', '-C', '/repo', 'worktree', 'remove', '--force', wt])
        import shutil; shutil.rmtree(env['VERIF_EVIDENCE_DIR'], ignore_errors=True)
meta.setdefault('check_results', {})[a.tier] = results
meta['detected'] = any(r['exit'] == 1 and any(l.startswith('VIOLATION') for l in r['lines']) for r in results.values())
json.dump(meta, open(os.path.join(d, 'meta.json'), 'w'), indent=1)
print('detected' if meta['detected'] else 'MISSED')
