#!/usr/bin/env python3
"""Lead's confirmation that a seeded change passes the existing tests it touches and that its demo behaves:
scratch worktree of /repo HEAD, demo clean -> rc 0, apply patch, demo -> rc != 0, run the test files named in meta.json.
usage: tools/confirm_tests.py <seeded-id> ..."""
import json, os, subprocess, sys
for sid in sys.argv[1:]:
    d = '/verif/seeded/' + sid
    meta = json.load(open(d + '/meta.json'))
    wt = '/tmp/confirm/' + sid
    subprocess.run(['git', '-C', '/repo', 'worktree', 'remove', '--force', wt], capture_output=True)
    os.makedirs('/tmp/confirm', exist_ok=True)
    subprocess.check_call(['git', '-C', '/repo', 'worktree', 'add', '-q', wt, 'HEAD'])
    env = dict(os.environ, PYTHONPATH=wt, OPENMDAO_REPORTS='0', PYTHONHASHSEED='0')
    rc0 = subprocess.run(['/venv/bin/python', d + '/demo.py'], cwd=wt, env=env, capture_output=True).returncode
    ap = subprocess.run(['git', '-C', wt, 'apply', d + '/patch.diff'], capture_output=True, text=True)
    if ap.returncode:
        print(sid, 'PATCH DOES NOT APPLY to HEAD:', ap.stderr[:200]); meta['lead_confirmation'] = {'applies_to_head': False}
    else:
        rc1 = subprocess.run(['/venv/bin/python', d + '/demo.py'], cwd=wt, env=env, capture_output=True).returncode
        tests = [t for t in meta.get('tests_run', []) if t.split('::')[0].endswith('.py') and os.path.exists(os.path.join(wt, t.split('::')[0]))]
        if not tests:
            # the agent named directories / descriptions: use directories it named, else the tests next to the touched files
            import re
            tests = [t.rstrip('/') for t in meta.get('tests_run', []) if isinstance(t, str) and os.path.isdir(os.path.join(wt, t.split(' ')[0].rstrip('/')))]
            tests = [t.split(' ')[0] for t in tests]
            if not tests:
                for f in re.findall(r'^\+\+\+ b/(\S+)', open(d + '/patch.diff').read(), re.M):
                    td = os.path.join(os.path.dirname(f), 'tests')
                    if os.path.isdir(os.path.join(wt, td)) and td not in tests:
                        tests.append(td)
        p = subprocess.run(['/venv/bin/python', '-m', 'pytest', '-q', '-p', 'no:cacheprovider', '-n', '4', '--timeout=900'] + tests[:15], cwd=wt, env=env, capture_output=True, text=True) if tests else None
        tail = p.stdout.strip().splitlines()[-1] if p and p.stdout.strip() else 'no test files listed'
        meta['lead_confirmation'] = {'applies_to_head': True, 'demo_clean_rc': rc0, 'demo_patched_rc': rc1, 'tests_rerun': tests[:15], 'tests_ok': (p.returncode == 0) if p else None, 'tests_tail': tail,
                                     'head': subprocess.check_output(['git', '-C', '/repo', 'log', '--format=%h', '-1'], text=True).strip()}
        print(sid, 'demo clean', rc0, 'patched', rc1, '|', tail)
    json.dump(meta, open(d + '/meta.json', 'w'), indent=1)
    subprocess.run(['git', '-C', '/repo', 'worktree', 'remove', '--force', wt])
