#!/usr/bin/env python3
"""Print the prompt given to an independent fault-seeding agent for one property (property text only)."""
import json, sys
pid = sys.argv[1]
n = int(sys.argv[2]) if len(sys.argv) > 2 else 2
p = [json.loads(l) for l in open('/verif/properties.jsonl') if json.loads(l)['id'] == pid][0]
print(f"""You are testing how well a software project's safeguards detect regressions. You have your own scratch git worktree of the OpenMDAO repository at /tmp/mut/{pid} (a Python project; run it with /venv/bin/python and PYTHONPATH=/tmp/mut/{pid}; set OPENMDAO_REPORTS=0; no network). Work ONLY inside /tmp/mut/{pid} — never touch /repo or /verif and do not read anything under /verif.

Here is a semantic property the library is supposed to satisfy:

  Title: {p['title']}
  Statement: {p['statement']}
  Quantified over: {p['quantifier']['text']}
  Relevant files: {', '.join(p['anchors']['files'])}

Produce {n} DIFFERENT, independent source changes to the library (each one small, realistic — the kind of slip a maintainer could make in a refactor: an off-by-one, a wrong sign or operand, a dropped or mis-ordered branch, a stale cache, a missing copy, a boundary condition, two sites that each look fine alone) such that each change, applied alone to a clean tree:
  (a) BREAKS the property above on some input / configuration / sequence of operations,
  (b) still imports fine and still PASSES the existing tests: run at least the test files that exercise the touched code (find them with grep; e.g. `cd /tmp/mut/{pid} && OPENMDAO_REPORTS=0 /venv/bin/python -m pytest -q -p no:cacheprovider -x -n 4 <test files>`), and say exactly which test files you ran,
  (c) needs something specific to manifest — an unusual input, a particular option combination, a multi-step sequence, a boundary case — NOT something ordinary use would expose at once.
Prefer changes in different functions/mechanisms for the different patches.

For each change i = 1..{n} write into /tmp/mut/{pid}/_seeded/{pid}_<i>/ :
  patch.diff   — `git diff` of the change against the clean tree (make sure `git apply` works from the repository root),
  demo.py      — a small standalone program (run as: PYTHONPATH=<repo root> /venv/bin/python demo.py) that exits 0 on the clean tree and exits non-zero (assertion failure showing the property violated) with the patch applied,
  meta.json    — {{"property": "{pid}", "summary": "...", "needs": "what it takes to manifest", "tests_run": ["..."], "tests_passed": true}}.
After writing each patch, restore the worktree to clean (`git checkout -- .`) and verify demo.py passes on the clean tree and fails with the patch re-applied. NEVER use `git stash` (the stash is shared between worktrees and other people use it); to go back to a clean tree use `git diff > file` then `git checkout -- .`. Leave the worktree clean at the end (the _seeded directory is untracked; that is fine). In your final message list the patches with one line each.""")
