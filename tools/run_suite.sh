#!/bin/bash
# Run the repository's test suite on a scratch worktree of /repo HEAD and compare with the baseline.
# usage: tools/run_suite.sh <tag> [nworkers]
tag=${1:-s}; n=${2:-8}
wt=/tmp/suite_$tag
git -C /repo worktree remove --force $wt 2>/dev/null
git -C /repo worktree add -q $wt HEAD || exit 2
cd $wt && PYTHONPATH=$wt timeout 5400 /venv/bin/python -m pytest -q -p no:cacheprovider --timeout=900 --continue-on-collection-errors -n $n --junitxml=/tmp/suite_$tag.xml > /tmp/suite_$tag.log 2>&1
python3 /verif/tools/compare_baseline.py /tmp/suite_$tag.xml > /tmp/suite_$tag.cmp 2>&1
git -C /repo log --oneline -1 >> /tmp/suite_$tag.cmp
git -C /repo worktree remove --force $wt
cat /tmp/suite_$tag.cmp
