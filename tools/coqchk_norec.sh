#!/bin/bash
# usage: tools/coqchk_norec.sh <logdir> C14 C25 ...
# Independent re-check (coqchk) of OUR modules only for the properties whose full coqchk run (which also
# re-checks Reals, Coquelicot, Flocq and Interval) does not finish in the time available: every OMV module used by
# the property is given with -norec, so it is re-checked by coqchk while the libraries it depends on are loaded
# and admitted.  -o still prints the axioms of everything loaded.
d=$1; shift
cd /verif
for p in "$@"; do
  mods=""
  for f in coq/Base/*.v coq/Expr/*.v coq/$p/*.v; do
    [ -f "${f%.v}.vo" ] || continue
    m=$(echo "${f%.v}" | sed 's#^coq/#OMV.#; s#/#.#g')
    mods="$mods -norec $m"
  done
  ( timeout 3000 coqchk -silent -o -Q coq OMV $mods > $d/$p.norec.log 2>&1; echo "rc=$?" >> $d/$p.norec.log ) &
done
wait
