#!/usr/bin/env python3
"""Confirm and import the seeded changes an independent agent left in /tmp/mut/<pid>/_seeded/.

For each change: (1) demo passes on the clean scratch worktree, (2) fails with the patch, (3) the test
files the agent named still pass with the patch, then copy to /verif/seeded/<id>/ and record what was run.
usage: tools/import_seeded.py <pid> [--no-tests]"""
import json, os, shutil, subprocess, sys
pid = sys.argv[1]
root = sys.argv[sys.argv.index('--root') + 1] if '--root' in sys.argv else '/tmp/mut'
wt = root + '/' + pid
src = os.path.join(wt, '_seeded')
env = dict(os.environ, PYTHONPATH=wt, OPENMDAO_REPORTS='0', PYTHONHASHSEED='0')


def run(cmd, **kw):
    return subprocess.run(cmd, cwd=wt, env=env, capture_output=True, text=True, **kw)


def demo(d):
    try:
        return run(['/venv/bin/python', os.path.join(d, 'demo.py')], timeout=900).returncode
    except subprocess.TimeoutExpired:
        return 124


run(['git', 'checkout', '--', '.'])
for name in sorted(os.listdir(src)):
    d = os.path.join(src, name)
    if not os.path.exists(os.path.join(d, 'patch.diff')):
        continue
    meta = json.load(open(os.path.join(d, 'meta.json')))
    rc_clean = demo(d)
    ap = run(['git', 'apply', os.path.join(d, 'patch.diff')])
    if ap.returncode != 0:
        print(name, 'patch does not apply:', ap.stderr[:300]); continue
    rc_patched = demo(d)
    tests = [t for t in meta.get('tests_run', []) if t.endswith('.py') and os.path.exists(os.path.join(wt, t))]
    tests_ok = None
    if tests and '--no-tests' not in sys.argv:
        p = run(['/venv/bin/python', '-m', 'pytest', '-q', '-p', 'no:cacheprovider', '-n', '4', '--timeout=900'] + tests[:12], timeout=3000)
        tail = p.stdout.strip().splitlines()[-1] if p.stdout.strip() else ''
        tests_ok = (p.returncode == 0)
        meta['lead_tests_tail'] = tail
    run(['git', 'checkout', '--', '.'])
    subprocess.run(['git', '-C', wt, 'clean', '-fdq', '-e', '_seeded'])
    confirmed = rc_clean == 0 and rc_patched != 0 and tests_ok is not False
    meta['lead_confirmation'] = {'demo_clean_rc': rc_clean, 'demo_patched_rc': rc_patched, 'tests_rerun': tests[:12], 'tests_ok': tests_ok}
    print(name, 'clean rc', rc_clean, 'patched rc', rc_patched, 'tests', tests_ok, meta.get('lead_tests_tail', ''), '->', 'CONFIRMED' if confirmed else 'REJECTED')
    if confirmed:
        dst = os.path.join('/verif/seeded', name)
        os.makedirs(dst, exist_ok=True)
        for f in ('patch.diff', 'demo.py'):
            shutil.copy(os.path.join(d, f), dst)
        json.dump(meta, open(os.path.join(dst, 'meta.json'), 'w'), indent=1)
