#!/usr/bin/env python3
"""Rebuild the "fixed" list of known_findings.json from the fix: commits of /repo (hashes change when history is tidied).
Each entry: "fixed: property=<id> <commit> <what failed>"; a fixed entry suppresses nothing."""
import json, subprocess
PROP = {  # subject keyword -> (property, failing input)
 'shape a slice with no start': ('C05', "indexer(slice(None, k, -s), src_shape=(n,)) with k >= 0 returned [] or raised 'array is too big'"),
 'check a slice against the extent': ('C05', 'indexer(slice(-1, -3, -1), src_shape=(2, 2)): a slice on a non-flat N-D source was bounds-checked against the total size and selected nothing'),
 'check an index array against the extent': ('C05', 'indexer([-3], src_shape=(2, 2)) was accepted and wrapped to the last row while NumPy raises IndexError'),
 'a stalled iterate that meets a tolerance': ('C09', "norms 1.0, 1e-11; atol=1e-10; stall_limit=1; stall_tol=10 abs; err_on_non_converge -> AnalysisError 'stalled' although norm <= atol"),
 'get_src_index_array returns flat source positions': ('C04', 'connect(..., src_indices=[1]) (non-flat) on a (2,3) source: get_src_index_array returned [1] instead of [3,4,5]; chains with N-D result un-ravelled'),
 'simplify_unit keeps the original string': ('C06', "simplify_unit('1000*s/s') -> '1000' (not a unit); 'm/(1/degC)' and '(m**4)**0.5' simplify to strings that raise when looked up"),
 'idx_list_to_index_array resolves negative indices': ('C01', 'connect(..., src_indices=[-1]) under an assembled csc/csr/dense jacobian: totals [0,0,0] instead of [0,0,5]'),
 'relevance keeps all states of an implicit component': ('C24', 'implicit component state feeding no response dropped from the linear solve: LinearRunOnce +1/3, ScipyKrylov +0.5, relevance off / DirectSolver -2/3'),
 'compute the sparsity of a declared dynamic coloring': ('C12', "declare_coloring(method='cs', step=1e-20): first dynamic sparsity computed by fd with the cs step -> all-zero coloured jacobian"),
 'bounds of outputs with ref < ref0': ('C10', 'lower=.5, upper=3, ref=.5, ref0=2, x=1, Newton step towards 10 -> x = 0.5 (moves against the step); upper=2, ref=-1 -> leaves the bounds'),
 'constraint violations honour per-element bounds': ('C22', 'get_constraint_values(viol=True) with array lower/upper raised ValueError (reported as zero violation); driver_scaling=True returned unscaled violations'),
 "DenseMatrix applies a sub-jacobian's unit factor": ('C11', 'two inputs of one component reading disjoint src_indices of one source with different units: dense assembled totals 100x off in the sibling columns'),
 'COOSubjac.set_dtype handles scipy COO': ('C11', "partial declared as scipy coo_matrix, complex step on -> TypeError 'must be real number, not coo_matrix'"),
 'SplitJacobian reverse apply tolerates': ('C11', "assembled group of implicit components without dr/do partials: run_apply_linear('rev') -> AttributeError '_prod'"),
 'InterpND bounds tolerance is non-negative': ('C15', "grid [-3,-2,-1], query -3 or -1 -> KeyError('pop from an empty set') (eps = 1e-14*grid[-1] negative)"),
 'akima end-slope extrapolation on four-point grids': ('C15', '1D-akima on grid [-4,-2,0,2], x=-1 -> UnboundLocalError m5; general akima silently used m5=0'),
 'BalanceComp constructor forwards rhs_kwargs': ('C26', "BalanceComp('y', rhs_kwargs={'val':3.0}, normalize=False), lhs=1 -> residual 1.0 instead of -2.0"),
 'dot and cross products of an input with itself': ('C26', "DotProductComp(a_name='a', b_name='a'): declared partial a instead of 2a; CrossProductComp likewise non-zero for a x a"),
 'array ref/ref0 of a source are gathered with the flat positions': ('C04', 'y shape (4,2), ref=5, array ref0, connect(src_indices=[3]) (non-flat): input [[10.5, 8.]] instead of [[7., 8.]] after every transfer'),
 'mixed scalar/array ref and ref0 on a source': ('C08', "array ref0 + scalar ref on a source read through src_indices -> 'could not broadcast' at setup"),
 'explicit components copy linear vectors in physical units': ('C08', "ExecComp('y = 5*a', y={'ref0': -2}) under LinearRunOnce: dy/da = 15 (fwd) / 1.667 (rev) instead of 5"),
 'matrix-free explicit components see physical d_outputs': ('C08', 'compute_jacvec_product component with ref on its output: 20 instead of 5 under DirectSolver / ScipyKrylov'),
 'non-assembled DirectSolver reverse solve with scaled vectors': ('C08', 'DirectSolver(assemble_jac=False), rev mode, ref/res_ref set: totals 5/16 instead of 5'),
 'Lagrange multiplier unscaling with per-element scalers': ('C20', 'compute_lagrange_multipliers(driver_scaling=False) with an array scaler -> ValueError (truth value of an array)'),
 "driver-scaled totals of a subset of the driver's responses": ('C20', "compute_totals(of=['y','z'], wrt=['x'], driver_scaling=True): z row [-2,0,-4] instead of [-2048,0,-4096] (unit factor skipped)"),
 'decides two-sidedness of each constraint element separately': ('C21', 'lower=[0,0,-1], upper=[1e30,1,2], SLSQP -> success with g[1] = 5 > 1'),
 'new-style SciPy constraints cover every element': ('C21', 'trust-constr: only the last element of an array constraint reached SciPy (success with g=[-2, 4.99, ...] for bounds [0,1]); LinearConstraint single row / no offset'),
 'evaluates constraints at the point SciPy asks for': ('C21', 'trust-constr received constraint values of the previous design point; model not left at result.x (COBYLA ~6e-9, trust-constr up to 0.15)'),
 'a negative scaler exchanges the scaled lower and upper bounds': ('C21', 'upper=1, scaler=-2, SLSQP -> success with g = 5'),
 'apply coloring subtractions before unit and driver scaling': ('C03', '6x6 arrow-head jacobian, declare_coloring(direct=False), constraint scaler [1,2,3,4,5]: coloured J[4,0] = 360, uncoloured 200'),
 'set_val with an int index on a connected input': ('C07', "set_val('c.x', 5.0, indices=1) on a connected absolute input raises after final_setup, works before"),
 'set_val with units on a unitless connected input': ('C07', "set_val(unitless input connected to a source with units, units='s') raises after final_setup only"),
 'indexed_val_set writes through non-contiguous views': ('C07', 'set_val through connect(src_indices=slice(-1,None,-1)) + promotes(src_indices=[-1,-3], flat) silently lost'),
 'OptionsDictionary.temporary restores options': ('C27', 'with o.temporary(a=5): raise -> a == 5 afterwards and a stale cache entry; o.temporary(b=7, a=<invalid>) leaves b == 7'),
 'an option declared with types=list and values requires a list': ('C27', "declare('d', types=list, values=['x','y']); o['d'] = 'xy' accepted"),
 'file wrapping round-trips infinities and nan': ('C29', "transfer_var(inf) -> OverflowError, nan -> ValueError; '-inf' read back as a string / '-Inf' as +inf"),
 'a stretched array line keeps its newline': ('C29', "template ['a 1 2\\n','b 3\\n'], transfer_array([1,2.5,3,4.0],0,2,3) -> 'a 1 2.5 3 4.0b 3\\n'"),
 'forward-mode jax tangents of a single-input function': ('C34', "ExplicitFuncComp, declare_partials(method='jax'), one input of size 1: TypeError in jax.jvp"),
 'linear nearest-neighbor interpolation with collinear neighbors': ('C28', "NearestNeighbor(interpolant_type='linear') at a training input with collinear neighbours returned 4.4068 instead of 4.0; linearize ValueError for 1 input x 2 outputs"),
 'full transfers move discrete variables in serial runs': ('C04', 'discrete source incremented every iteration under NonlinearBlockJac: the downstream discrete input stayed 0 on all 5 iterations'),
 'src_indices are shaped against the current source on every setup': ('C04', 'connect(src_indices=[-1,-2]); setup; resize the source from 4 to 6; setup again: input reads [13,12] instead of [15,14]'),
 'a value set before final_setup survives the second resolution pass': ('C07', 'set_input_defaults + shape_by_conn sibling: set_val before final_setup overwritten by the defaults value at final_setup'),
 'set_val with units on an input connected to a unitless source': ('C07', "set_val(input with units 'cm' connected to a unitless IndepVarComp output) raised \"Can't express value with units of 'None'\" at final_setup"),
 'subgroups forget their cached system graph on setup': ('C32', 'subgroup with auto_order=True: setup, add sub.connect(...), setup again: order stays C2, C1 and C2.y = 3 instead of 12'),
 'approximated groups rebuild their approximations when the relevance changes': ('C24', 'approx_totals group fed by desvars x and y: compute_totals(of=f, wrt=x) then (of=f, wrt=y) on one Problem gives df/dy = 0 instead of 60 (correct with relevance off)'),
 'approximated groups copy linear vectors in physical units': ('C08', 'approx_totals group with a ref0-only output under LinearRunOnce: dh/dx = 108 (fwd) / 12 (rev) instead of 36'),
 'ExecComp partials leave the outputs untouched under force_alloc_complex': ('C31', 'setup(force_alloc_complex=True); run_model; set_val(c1.x); compute_totals: ExecComp output c1.y changes from [1.3325, 0.2125] to [0.4325, 0.7325]'),
 'a seeded sampling UniformGenerator draws from its own random stream': ('C23', 'two sampling.UniformGenerator objects with the same seed built before either is consumed (or np.random used in between) yield different cases'),
 'the file parser reads negative one-digit exponent floats': ('C29', "transfer_var(-2e-05) is written as '-2e-05' and read back as int -2 followed by the word 'e-05'"),
 'sign of the one-input Wendland RBF derivative': ('C28', "NearestNeighbor(interpolant_type='rbf', rbf_family=1), one input: linearize = +3.9553 where the difference quotient of predict is -3.9553"),
 'derivative of the sqrt(T^2 + 1) radial basis': ('C28', 'rbf_family=-3: linearize 700.25 instead of 54.70 (every dimension)'),
 'colored partials of JaxImplicitComponent': ('C34', "JaxImplicitComponent + declare_coloring(): 'coo_matrix' object is not subscriptable; coloured jacobian with input/state column blocks exchanged"),
 'ImplicitFuncComp computes jax partials in the direction its coloring': ('C34', "ImplicitFuncComp, jax coloring, setup(mode='rev') with a forward partial coloring: 'NoneType' object is not subscriptable"),
 'ImplicitFuncComp passes each state to the argument of the same name': ('C34', 'ImplicitFuncComp f(a, s1, s0): residuals -1, 46 instead of 1, 22 (states swapped)'),
 'jax components with an identically zero colored jacobian': ('C34', "jax component with identically zero jacobian and coloring: 'cannot reshape array of size 0 into shape (0)'"),
 'spline gradient of bsplines when the number of interpolation points equals vec_size': ('C26', "SplineComp(method='bsplines', num_cp=5, vec_size=3, x_interp_val=[0.115,0.5,0.575]): ValueError 'setting an array element with a sequence' in compute_partials"),
 "check_totals restores an approximated model's own approximation settings": ('C31', "model with approx_totals('cs'): after check_totals(method='fd') every later compute_totals is a forward difference (1.1500000000000001 -> 1.1500002497341484)"),
 'nested run_linearize keeps the total jacobian of an approximated model': ('C31', 'approx_totals + dynamic declare_coloring(): the first compute_totals returns {0, 0}, later ones {-2, -3}'),
 'check_partials keeps the out-of-pattern nonzeros found by every step': ('C13', 'check_partials(step=[0.125, 1.0]): an out-of-pattern entry that is nonzero only with step 1.0 is not reported when another entry is found with the last step'),
 'vector bounds enforcement never backtracks further than the full step': ('C10', 'BoundsEnforceLS vector, entry on its bound with a 4e-16 Newton step: d_alpha/alpha = 1.026 > 1 reverses the whole step (output moves -0.51 against a +19.5 step)'),
 'matrix-free components do not leak reverse-mode contributions': ('C24', 'd.a, d.b -> g{e1: y=2a, e2: z=3b} -> matrix-free c: f=5y+7z, desvar d.b only, rev mode: ScipyKrylov totals 4.3547 instead of 21 with relevance on (21 with relevance off / fwd / DirectSolver)'),
 "an approximated group's jacobian holds only its semi-total blocks": ('C01', 'approx_totals group containing implicit / sparse / matrix-free components: wrong totals under non-assembled DirectSolver / ScipyKrylov, LinearBlockGS non-convergence, 0 instead of -0.5 for entries outside a declared dR/dx pattern (props/C01/repro_2.py)'),
 'check_partials approximation of a coo partial with repeated positions': ('C13', 'y = 3x with a scipy coo partial repeating a position ([0,0,1],[0,0,1]): J_fd = [[6,0],[0,3]], abs error 3 for a correct component'),
 'ImplicitFuncComp orders reverse-mode jacobian blocks of states by output': ('C34', 'ImplicitFuncComp, jax partials in reverse direction, states s0, s1 given in the signature as (s1, s0): the two state column blocks are exchanged (partial[1,3] = 1.0428, exact 0.0)'),
 'fixed-grid interpolators accept a single-point call after a vectorized call': ('C15', "2D-slinear, g=arange(6): interpolate([[1.3,2.6],[2.2,3.1]]) then interpolate([[1.3,2.6]]) on the same InterpND: TypeError 'set' object is not subscriptable (1D-* classes: ValueError truth value of an array)"),
 'akima smoothed-abs derivative broadcast for tables of three or more dimensions': ('C16', "akima, delta_x=0.1, 6x6x6 table, interpolate([[1.3,2.6,0.7]], compute_derivative=True): TypeError 'numpy.float64' object does not support item assignment"),
 'colored approx_totals seed variables with indexed design variables': ('C24', "model.approx_totals('fd') + declare_coloring, ya=3x (x size 4, desvar indices=[1,3]), yb=5z, f=w*w: d yb/dz = 0 and df/dw = 0 with relevance on (5*I and 6 with OPENMDAO_NO_RELEVANCE=1)"),
 'approx_totals with negative design variable indices': ('C01', "model.approx_totals('fd'), d.z size 2 with desvar indices=[-1], yb = diag(-3,2) z: d yb[1]/dz[-1] = 0 instead of 2"),
 'load_case sets automatic sources, sub-group cases and cases with discrete variables': ('C19', "c: y = 2*x, x in cm promoted, set_input_defaults('x', units='m'), x = 5 m: after load_case get_val('x', units='m') = 0.05 (recorded 5), rerun y = 10 (recorded 1000); src_indices=[0,2] into a size-4 source: ValueError shape (4,) does not match (2,); sub-group-only recorder: top-level y overwritten from g.c.y; discrete variables: promoted inputs not loaded"),
 'system and solver cases record physical values': ('C19', "add_output('y', ref=100), x = 5: a system / solver case holds c.y = 0.1 (problem / driver case: 10); load_case restores 0.1, rerun gives 10"),
 'BalanceComp partials use elementwise normalization for multi-dimensional balances': ('C26', "BalanceComp.add_balance('y', val=ones((2,3)), normalize=True), rhs=[[0.5,3,1],[4,0.25,5]]: declared d resid/d lhs = [[0.941,0.308,0.8],[0.2,0.985,0.138]], exact [[0.941,0.333,0.8],[0.25,0.985,0.2]] (row-wise instead of elementwise |rhs| < 2 branch)"),
 'func components with a single scalar output and a forward jax coloring': ('C34', "ExplicitFuncComp / ImplicitFuncComp with one output of shape () and a forward jax coloring: IndexError 'tuple index out of range'"),
 'check_partials works on private copies': ('C13', "check_partials(method='fd', step=[0.5, 0.25]) on a dense partial: J_fd[0] is J_fd[1] (last step's values); constant val= partials overwritten by the approximation (second check reports zero error, compute_totals returns 2 instead of 5)"),
 'InterpND.gradient returns the derivative at the point': ('C16', 'akima 2-D table: interpolate(x); gradient(x) returns np.empty garbage for sub-dimensions ([[-2.127, 0.]] instead of [[-2.127, -2.983]]); gradient(x) after an in-place change of x returns the old gradient'),
 'check_partials reports every approximated nonzero': ('C13', 'diagonal-declared 4x4 with 8 off-diagonal nonzeros: rows/cols, coo, csc reported 2, csr none, diagonal=True raised KeyError'),
 'output solver options set from a distant ancestor': ('C08', "model.set_output_solver_options('g.d.x', ref0=0.5) two levels above the component -> TypeError in DefaultVector._set_scaling"),
 'CaseReader.get_case(int) resolves problem cases': ('C17', "record('first'); run_driver(); record('final'); get_case(<int>) returned the wrong case / IndexError"),
 'solver case source of a system whose name repeats': ('C17', "solver recorder in group 'g1.g1': CaseReader(file) raised \"Can't parse solver iteration coordinate\""),
 'check_partials leaves the outputs exactly as they were': ('C31', 'run_model; set_val; check_partials moved an output by one ulp (0.2125 -> 0.21250000000000002)'),
}
log = subprocess.check_output(['git', '-C', '/repo', 'log', '--format=%h|%s', '--reverse'], text=True).strip().splitlines()
fixed, unmapped = [], []
for line in log:
    h, s = line.split('|', 1)
    if not s.startswith('fix:'):
        continue
    hit = [v for k, v in PROP.items() if k in s]
    if len(hit) != 1:
        unmapped.append(line); continue
    fixed.append('fixed: property=%s %s %s' % (hit[0][0], h, hit[0][1]))
p = '/verif/known_findings.json'
k = json.load(open(p)); k['fixed'] = fixed
json.dump(k, open(p, 'w'), indent=1)
print(len(fixed), 'fixed entries;', 'UNMAPPED: %s' % unmapped if unmapped else 'all fix commits mapped')
