#!/bin/bash
# The repository's baseline command (sequential, no xdist) on a scratch worktree of /repo HEAD.
tag=${1:-seq}
wt=/tmp/suite_$tag
git -C /repo worktree remove --force $wt 2>/dev/null
git -C /repo worktree add -q $wt HEAD || exit 2
cd $wt && PYTHONPATH=$wt timeout 7200 /venv/bin/python -m pytest -ra -q -p no:cacheprovider --timeout=900 --continue-on-collection-errors --junitxml=/tmp/suite_$tag.xml > /tmp/suite_$tag.log 2>&1
python3 /verif/tools/compare_baseline.py /tmp/suite_$tag.xml > /tmp/suite_$tag.cmp 2>&1
git -C /repo log --oneline -1 >> /tmp/suite_$tag.cmp
git -C /repo worktree remove --force $wt
