#!/bin/bash
# usage: tools/run_seeded_batch.sh <jobs> id1 id2 ...   (each id run with tools/run_seeded.py; results to /tmp/p/seedbatch.log)
j=$1; shift
printf "%s\n" "$@" | xargs -P $j -I{} sh -c 'r=$(python3 /verif/tools/run_seeded.py {} 2>&1 | tail -1); echo "{}: $r"' >> /tmp/p/seedbatch.log
echo BATCH-DONE >> /tmp/p/seedbatch.log
