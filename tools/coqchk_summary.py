#!/usr/bin/env python3
"""Summarise the per-property `coqchk -silent -o -Q coq OMV OMV.CXX.Props` logs (tools run by the lead once the
development is stable) into evidence/coqchk_summary.json and keep the axiom lists in evidence/coqchk/CXX.txt."""
import glob, json, os, re, sys
src = sys.argv[1] if len(sys.argv) > 1 else '/tmp/p/coqchk3'
dst = '/verif/evidence/coqchk'
os.makedirs(dst, exist_ok=True)
res = {}
for f in sorted([g for g in glob.glob(src + '/C*.log') if '.norec' not in g]):
    pid = os.path.basename(f)[:-4]
    txt = open(f).read()
    m = re.search(r'rc=(\d+)', txt)
    rc = int(m.group(1)) if m else None
    ax = []
    mm = re.search(r'\* Axioms:(.*?)\n\s*\n\* Constants', txt, re.S)
    if mm:
        ax = [a.strip() for a in mm.group(1).strip().splitlines() if a.strip() and a.strip() != '<none>']
    unsafe = 'type-in-type: <none>' in txt and 'unsafe (co)fixpoints: <none>' in txt and 'positivity is assumed: <none>' in txt
    mode = 'full (the property and every library it depends on re-checked)'
    # a later full run (coqchk4) supersedes a timed-out one
    f4 = f.replace('coqchk3', 'coqchk4')
    if rc != 0 and f4 != f and os.path.exists(f4) and 'rc=0' in open(f4).read():
        txt = open(f4).read(); rc = 0
        mm = re.search(r'\* Axioms:(.*?)\n\s*\n\* Constants', txt, re.S)
        ax = [a.strip() for a in mm.group(1).strip().splitlines() if a.strip() and a.strip() != '<none>'] if mm else []
        unsafe = 'type-in-type: <none>' in txt and 'unsafe (co)fixpoints: <none>' in txt and 'positivity is assumed: <none>' in txt
    fn = f[:-4] + '.norec.log'
    if rc != 0 and os.path.exists(fn) and 'rc=0' in open(fn).read():
        txt = open(fn).read(); rc = 0
        mode = ('own-modules (full run over Reals+Coquelicot+Flocq+Interval did not finish within 4 h: every OMV module of the '
                'property re-checked with -norec, the Debian-packaged libraries loaded and admitted; tools/coqchk_norec.sh)')
        mm = re.search(r'\* Axioms:(.*?)\n\s*\n\* Constants', txt, re.S)
        ax = [a.strip() for a in mm.group(1).strip().splitlines() if a.strip() and a.strip() != '<none>'] if mm else []
        unsafe = 'type-in-type: <none>' in txt and 'unsafe (co)fixpoints: <none>' in txt and 'positivity is assumed: <none>' in txt
    res[pid] = {'rc': rc, 'mode': mode, 'axioms': ax, 'no_type_in_type_no_unsafe_fix_no_assumed_positivity': unsafe}
    open(os.path.join(dst, pid + '.txt'), 'w').write(txt[-6000:])
done = {k: v for k, v in res.items() if v['rc'] is not None}
ok = [k for k, v in done.items() if v['rc'] == 0]
closed = [k for k in ok if not res[k]['axioms']]
prim = [k for k in ok if res[k]['axioms'] and all(re.search(r'PrimFloat|PrimInt63|Uint63|Sint63', a) for a in res[k]['axioms'])]
other = [k for k in ok if k not in closed and k not in prim]
summary = ('%d of %d properties re-checked (rc 0) ; no axioms at all: %s ; only primitive float/int63 objects and their '
           'library specification axioms: %s ; standard-library real-number / classical axioms declared by libraries that get loaded (Reals, Coquelicot, Interval, Lra) - coqchk -o lists the axioms of every loaded library, Print Assumptions in the evidence files lists what each theorem actually uses: %s ; '
           'no type-in-type, no unsafe fixpoints, no assumed positivity anywhere ; own modules only (libraries admitted, full run timed out): %s ; not finished / failed: %s' % (
               len(ok), len(res), ', '.join(closed), ', '.join(prim), ', '.join(other),
               ', '.join(k for k, v in res.items() if v['mode'].startswith('own')) or 'none',
               ', '.join(k for k, v in res.items() if v['rc'] != 0) or 'none'))
json.dump({'summary': summary, 'per_property': res, 'command': 'coqchk -silent -o -Q coq OMV OMV.CXX.Props (one run per property)'},
          open('/verif/evidence/coqchk_summary.json', 'w'), indent=1)
print(summary)
