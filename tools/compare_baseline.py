#!/usr/bin/env python3
"""Compare a junit xml of the repository's test suite with /root/.vp/BASELINE.json stable_pass."""
import json, sys
import xml.etree.ElementTree as ET
base = json.load(open('/root/.vp/BASELINE.json'))
stable = set(base['stable_pass'])
root = ET.parse(sys.argv[1]).getroot()
status = {}
for tc in root.iter('testcase'):
    name = tc.get('classname') + '::' + tc.get('name')
    bad = any(ch.tag in ('failure', 'error') for ch in tc)
    skipped = any(ch.tag == 'skipped' for ch in tc)
    st = 'fail' if bad else ('skip' if skipped else 'pass')
    if status.get(name) != 'fail':
        status[name] = st
missing = sorted(n for n in stable if status.get(n) != 'pass')
print('stable_pass: %d, passing now: %d, not passing: %d' % (len(stable), len(stable) - len(missing), len(missing)))
for n in missing:
    print('  ', status.get(n, 'absent'), n)
