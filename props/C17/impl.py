"""C17 implementation side: real recorders on generated models, read back with the real CaseReader.

For one scenario: one SqliteRecorder (subclassed here only to take a LIVE SNAPSHOT of the model's root
nonlinear vectors at the instant record_iteration is called) is attached to the problem, the driver,
systems and solvers with random recording options; the run sequence is executed; then CaseReader is asked
for everything the property talks about and compared with
  * the independent statement of the selection rules (python fnmatch)            -> oracle
  * the live snapshots (bitwise)                                                 -> oracle
  * execution order and component-prefix descendants                            -> oracle
and the variable sets / coordinates are returned for the comparison with the Coq model.
"""
import os
import re
import sys
import warnings
from fnmatch import fnmatchcase

warnings.simplefilter('ignore')
sys.path.insert(0, os.path.dirname(os.path.abspath(__file__)))
import numpy as np  # noqa: E402
import openmdao.api as om  # noqa: E402
from implutil import main  # noqa: E402
import kmodels  # noqa: E402


class SnapRecorder(om.SqliteRecorder):
    """SqliteRecorder + a live snapshot of the whole model at the recording instant"""

    def __init__(self, *a, **k):
        super().__init__(*a, **k)
        self.snaps = []
        self.problem = None

    def record_iteration(self, requester, data, metadata, **kwargs):
        model = self.problem.model
        # System and solver recorders are called from inside a solve, where the vectors are in their scaled
        # (dimensionless) state; problem and driver recorders from outside.  The snapshot is of the PHYSICAL
        # values (what get_val means): raw * scaler + adder with the vector's own factors when it is scaled.
        scaled = isinstance(requester, (om.Group, om.ExplicitComponent, om.ImplicitComponent)) or \
            hasattr(requester, '_system')
        scaled = scaled and bool(requester._recording_iter.stack)
        snap = {}
        # (the input vector is kept physical: it is scaled only around a transfer)
        for kind, vec, has in (('input', model._inputs, False),
                               ('output', model._outputs, model._has_output_scaling),
                               ('residual', model._residuals, model._has_resid_scaling)):
            raw = np.array(vec.asarray(), dtype=float)
            if scaled and has and vec._scaling:
                scaler, adder = vec._scaling
                raw = raw * scaler
                if adder is not None:
                    raw = raw + adder
            snap[kind] = {n: raw[slice(*vec.get_range(n))].copy().tobytes() for n in vec._abs_iter()}
        coord = requester._recording_iter.get_formatted_iteration_coordinate()
        self.snaps.append({'coord': coord, 'req': requester, 'snap': snap,
                           'name': metadata.get('name') if isinstance(requester, om.Problem) else None})
        super().record_iteration(requester, data, metadata, **kwargs)


def make_driver(d):
    if d['type'] == 'doe':
        return om.DOEDriver(om.ListGenerator([[(n, np.array(v, dtype=float)) for n, v in pt] for pt in d['points']]))
    if d['type'] == 'slsqp':
        return om.ScipyOptimizeDriver(optimizer='SLSQP', disp=False, maxiter=d.get('maxiter', 4))
    return None


def included(name, incl, excl):
    """the documented rule: some include pattern matches and no exclude pattern does"""
    return any(fnmatchcase(name, i) for i in incl) and not any(fnmatchcase(name, e) for e in excl)


DEFAULTS = {
    'system': {'record_inputs': True, 'record_outputs': True, 'record_residuals': True, 'includes': ['*'],
               'excludes': []},
    'solver': {'record_inputs': True, 'record_outputs': True, 'record_solver_residuals': False,
               'includes': ['*'], 'excludes': []},
    'driver': {'record_inputs': True, 'record_outputs': True, 'record_residuals': False, 'record_desvars': True,
               'record_objectives': True, 'record_constraints': True, 'record_responses': False,
               'includes': [], 'excludes': []},
    'problem': {'record_inputs': False, 'record_outputs': True, 'record_residuals': False, 'record_desvars': True,
                'record_objectives': True, 'record_constraints': True, 'record_responses': False,
                'includes': ['*'], 'excludes': []},
}


def io_meta(system):
    """(absolute name, promoted name in the system's own scope) of the continuous variables"""
    ins = system.get_io_metadata(iotypes=('input',), return_rel_names=False)
    outs = system.get_io_metadata(iotypes=('output',), return_rel_names=False)
    return (sorted((n, m['prom_name']) for n, m in ins.items()),
            sorted((n, m['prom_name']) for n, m in outs.items()))


def expected_sets(kind, opts, names):
    """variable sets a requester's cases must contain: the selection rules stated independently"""
    o = dict(DEFAULTS[kind])
    o.update(opts)
    incl, excl = o['includes'], o['excludes']
    if kind == 'system':
        ins = [n for n, _ in names['ins'] if included(n, incl, excl)] if o['record_inputs'] else []
        outs = [n for n, p in names['outs'] if included(p, incl, excl)] if o['record_outputs'] else []
        res = [n for n, p in names['outs'] if included(p, incl, excl)] if o['record_residuals'] else []
        return ins, outs, res
    if kind == 'solver':
        path = names['path']
        rel = (lambda q: path + '.' + q) if path else (lambda q: q)
        incl, excl = [rel(i) for i in incl], [rel(e) for e in excl]
        ins = [n for n, _ in names['ins'] if included(n, incl, excl)] if o['record_inputs'] else []
        outs = [n for n, _ in names['outs'] if included(n, incl, excl)] if o['record_outputs'] else []
        res = [n for n, _ in names['outs'] if included(n, incl, excl)] if o['record_solver_residuals'] else []
        return ins, outs, res
    # driver / problem
    ins = [n for n, _ in names['ins'] if included(n, incl, excl)] if o['record_inputs'] else []
    sel = set()
    for n, p in names['outs']:
        if included(p, incl, excl):
            sel.add(n)
    if o['record_desvars']:
        sel.update(names['dvs'])
    if o['record_objectives'] or o['record_responses']:
        sel.update(names['objs'])
    if o['record_constraints'] or o['record_responses']:
        sel.update(names['cons'])
    if o['record_inputs']:
        for p, src in names['prom_ins']:
            if included(p, incl, excl):
                sel.add(src)
    outs = sorted(sel) if o['record_outputs'] else []
    res = [n for n, p in names['outs'] if included(p, incl, excl)] if o['record_residuals'] else []
    return ins, outs, res


def parse_coord(coord):
    """'rank0:a|1|b|2' -> ('rank0:', [['a',1],['b',2]]);  prefixes from case_prefix are kept in the head"""
    m = re.match(r'^(.*rank\d+:)(.*)$', coord)
    if not m:
        return None
    parts = m.group(2).split('|')
    if len(parts) % 2:
        return None
    return m.group(1), [[parts[i], int(parts[i + 1])] for i in range(0, len(parts), 2)]


def comp_prefix(c, d):
    return len(c) <= len(d) and d[:len(c)] == c


def sig_of(m):
    if m.startswith('get_case('):
        return 'C17:get_case-by-index' if ('is not the' in m or 'get_case(%' not in m) else 'C17:get_case'
    if 'selected by the options' in m:
        return 'C17:selection'
    if 'at the recording instant' in m:
        return 'C17:values'
    if 'execution order' in m:
        return 'C17:order'
    if 'list_cases(' in m or 'list_sources' in m or 'hierarchy' in m:
        return 'C17:hierarchy'
    return 'C17:other'


def names_of(pad):
    return sorted(pad.absolute_names()) if pad is not None else []


def handle(c):
    spec = c['spec']
    p = kmodels.build(spec, make_driver(c['driver']))
    rec = SnapRecorder('./rec_%d.sql' % os.getpid())
    rec.problem = p
    rc = c['rec']
    if rc.get('problem') is not None:
        p.add_recorder(rec)
        for k, v in rc['problem'].items():
            p.recording_options[k] = v
    if rc.get('driver') is not None:
        p.driver.add_recorder(rec)
        for k, v in rc['driver'].items():
            p.driver.recording_options[k] = v
    try:
        p.setup()
        reqs = {}
        for path, opts in rc.get('systems', {}).items():
            s = p.model if path == '' else p.model._get_subsystem(path)
            s.add_recorder(rec)
            for k, v in opts.items():
                s.recording_options[k] = v
            reqs[id(s)] = ('system', path, opts, s)
        for path, opts in rc.get('solvers', {}).items():
            s = p.model if path == '' else p.model._get_subsystem(path)
            s.nonlinear_solver.add_recorder(rec)
            for k, v in opts.items():
                s.nonlinear_solver.recording_options[k] = v
            reqs[id(s.nonlinear_solver)] = ('solver', path, opts, s)
        if rc.get('driver') is not None:
            reqs[id(p.driver)] = ('driver', '', rc['driver'], p.model)
        if rc.get('problem') is not None:
            reqs[id(p)] = ('problem', '', rc['problem'], p.model)
        kmodels.set_init(p, spec)
        p.final_setup()
        for j, r in enumerate(c['runs']):
            if r == 'model':
                p.run_model(case_prefix='m%d' % j)
            elif r == 'model_cont':
                p.run_model(reset_iter_counts=False)
            elif r == 'driver':
                p.run_driver(case_prefix='d%d' % j)
            elif r == 'driver_cont':
                p.run_driver(reset_iter_counts=False)
            elif r.startswith('record:'):
                p.record(r[7:])
    except Exception as e:   # noqa
        return {'res': '__none__', 'ok': True, 'msg': 'scenario does not run: %r' % (e,), 'kind': 'skipped', 'sig': ''}
    snaps = rec.snaps
    # names (before cleanup)
    root_ins, root_outs = io_meta(p.model)
    prom_ins = sorted({(pn, p.model.get_source(n)) for n, pn in root_ins})
    drv = p.driver
    dvs = sorted({m['source'] for m in drv._designvars.values()})
    objs = sorted({m['source'] for m in drv._objs.values()})
    cons = sorted({m['source'] for m in drv._cons.values()})
    req_names = {}
    for rid, (kind, path, opts, s) in reqs.items():
        ins, outs = io_meta(s)
        req_names[rid] = {'ins': ins, 'outs': outs, 'path': path, 'dvs': dvs, 'objs': objs, 'cons': cons,
                          'prom_ins': prom_ins}
    fname = rec._filepath
    p.cleanup()

    msgs = []

    def bad(m):
        if len(msgs) < 6:
            msgs.append(m)

    try:
        cr = om.CaseReader(fname)
        coords = list(cr.list_cases(out_stream=None))
    except Exception as e:   # noqa
        return {'res': '__none__', 'ok': False, 'sig': 'C17:reader-cannot-read', 'kind': c['driver']['type'],
                'msg': 'CaseReader cannot read the recording (%d cases, e.g. %r): %s: %s' % (
                    len(snaps), [s['coord'] for s in snaps][-1:], type(e).__name__, str(e)[:300])}
    want_coords = [s['name'] if s['name'] is not None else s['coord'] for s in snaps]
    if coords != want_coords:
        bad('list_cases() is not the execution order: %r vs recorded %r' % (coords[:6], want_coords[:6]))
    sel_res = {}       # requester id -> actual variable sets of its first case
    nvals = 0
    for i, snap in enumerate(snaps):
        if i >= len(coords):
            break
        rid = id(snap['req'])
        kind, path, opts, s = reqs[rid]
        try:
            case = cr.get_case(coords[i])
            ci = cr.get_case(i)
        except Exception as e:   # noqa
            bad('get_case(%r) / get_case(%d) failed: %s: %s' % (coords[i], i, type(e).__name__, str(e)[:120]))
            continue
        if ci is None or ci.name != coords[i] or ci.counter != i + 1:
            bad('get_case(%d) is not the %d-th case of list_cases(): got %r (counter %r), expected %r' % (
                i, i, getattr(ci, 'name', None), getattr(ci, 'counter', None), coords[i]))
        if case.counter != i + 1:
            bad('case %r has counter %r, it is number %d in execution order' % (coords[i], case.counter, i + 1))
        got = (names_of(case.inputs), names_of(case.outputs), names_of(case.residuals))
        exp = expected_sets(kind, opts, req_names[rid])
        exp = tuple(sorted(x) for x in exp)
        if got != exp:
            for lab, g, e in zip(('inputs', 'outputs', 'residuals'), got, exp):
                if g != e:
                    bad('case %r of %s %r with options %r: recorded %s %r, selected by the options %r' % (
                        coords[i], kind, path, opts, lab, g, e))
                    break
        sel_res.setdefault(rid, got)
        for lab, pad in (('input', case.inputs), ('output', case.outputs), ('residual', case.residuals)):
            if pad is None:
                continue
            for n in pad.absolute_names():
                live = snap['snap'][lab].get(n)
                val = np.asarray(pad[n], dtype=float).ravel().tobytes()
                nvals += 1
                if live is None or live != val:
                    bad('case %r: recorded %s %s = %r, model held %r at the recording instant' % (
                        coords[i], lab, n, np.asarray(pad[n]).ravel().tolist(),
                        None if live is None else np.frombuffer(live).tolist()))
    # hierarchy and order queries
    parsed = [parse_coord(x) if s['name'] is None else None for x, s in zip(want_coords, snaps)]
    src_of = []
    for s in snaps:
        kind, path, opts, sysm = reqs[id(s['req'])]
        if kind == 'driver':
            src_of.append('driver')
        elif kind == 'problem':
            src_of.append('problem')
        elif kind == 'system':
            src_of.append('root' if path == '' else 'root.' + path)
        else:
            src_of.append(('root' if path == '' else 'root.' + path) + '.nonlinear_solver')

    def descendants(i):
        """cases recorded up to and including case i whose coordinate extends case i's by whole components"""
        if parsed[i] is None:
            return [i]
        pre, comps = parsed[i]
        return [j for j in range(i + 1) if parsed[j] is not None and parsed[j][0] == pre and
                comp_prefix(comps, parsed[j][1])]

    nq = 0
    try:
        sources = sorted(cr.list_sources(out_stream=None))
        if sources != sorted(set(src_of)):
            bad('list_sources() = %r, recording requesters were %r' % (sources, sorted(set(src_of))))
        for src in sources:
            mine = [i for i, s in enumerate(src_of) if s == src]
            flat = list(cr.list_cases(src, recurse=False, out_stream=None))
            nq += 1
            if flat != [want_coords[i] for i in mine]:
                bad('list_cases(%r, recurse=False) = %r, cases of that source in execution order are %r' % (
                    src, flat[:5], [want_coords[i] for i in mine][:5]))
            if src == 'problem':
                continue
            rec_ = list(cr.list_cases(src, recurse=True, flat=True, out_stream=None))
            nq += 1
            exp = [want_coords[j] for i in mine for j in descendants(i)]
            if rec_ != exp:
                bad('list_cases(%r, recurse=True) lists %d cases %r..., the descendants of its cases are %d: %r...' % (
                    src, len(rec_), [x for x in rec_ if x not in exp][:3] or rec_[:3], len(exp),
                    [x for x in exp if x not in rec_][:3] or exp[:3]))
        for i in range(len(snaps)):
            if parsed[i] is None:
                continue
            rec_ = list(cr.list_cases(want_coords[i], recurse=True, flat=True, out_stream=None))
            nq += 1
            exp = [want_coords[j] for j in descendants(i)]
            if rec_ != exp:
                bad('list_cases(%r, recurse=True) = %r, its descendants are %r' % (want_coords[i], rec_[:6], exp[:6]))
    except Exception as e:   # noqa
        bad('hierarchy query failed: %s: %s' % (type(e).__name__, str(e)[:200]))
    # for the Coq model: per requester the names, the options and the variable sets read back
    sel = []
    for rid, got in sel_res.items():
        kind, path, opts, s = reqs[rid]
        o = dict(DEFAULTS[kind])
        o.update(opts)
        nm = req_names[rid]
        sel.append({'kind': kind, 'path': path, 'opts': o, 'ins': nm['ins'], 'outs': nm['outs'], 'dvs': dvs,
                    'objs': objs, 'cons': cons, 'prom_ins': prom_ins if kind in ('driver', 'problem') else [],
                    'got': [list(got[0]), list(got[1]), list(got[2])]})
    # coordinates of one prefix family for the hierarchy model
    fam = {}
    for i, pc in enumerate(parsed):
        if pc is not None:
            fam.setdefault(pc[0], []).append((i, pc[1]))
    hier = []
    for pre, lst in fam.items():
        idx = [i for i, _ in lst]
        want = []
        for k, (i, _) in enumerate(lst):
            r = list(cr.list_cases(want_coords[i], recurse=True, flat=True, out_stream=None)) if len(hier) < 3 else None
            if r is None:
                break
            want.append([idx.index(want_coords.index(x)) if x in want_coords and want_coords.index(x) in idx else -1
                         for x in r])
        if len(want) == len(lst):
            hier.append({'pre': pre, 'coords': [cc for _, cc in lst], 'desc': want})
    try:
        os.remove(fname)
    except OSError:
        pass
    ok = not msgs
    maxit = max([it for pc in parsed if pc for _, it in pc[1]] or [0])
    return {'res': {'sel': sel, 'hier': hier}, 'ok': ok, 'msg': ' ;; '.join(msgs[:3]),
            'sig': sig_of(msgs[0]) if msgs else '', 'kind': c['driver']['type'],
            'stats': {'cases': len(snaps), 'values': nvals, 'queries': nq, 'max_iter_count': maxit,
                      'requesters': len(sel)}}


if __name__ == '__main__':
    main(handle)
