"""C17 -- recorded cases are faithful, filtered and ordered."""
import json
import os
import random
import sys

sys.path.insert(0, os.path.dirname(os.path.abspath(__file__)))
import core  # noqa: E402
from core import Verdict, proof_gate, run_impl, coq_mismatches, coq_show, to_val, workdir, seed_from_env  # noqa: E402
import kmodels  # noqa: E402

PID = 'C17'
IMPL = 'props/C17/impl.py'


# --------------------------------------------------------------------------- generation

def rnd_patterns(rng, names, k):
    out = []
    for _ in range(k):
        if rng.random() < 0.15 or not names:
            out.append(rng.choice(['*', '*', 'zz*', '?']))
            continue
        n = rng.choice(names)
        m = rng.random()
        if m < 0.2:
            pat = n
        elif m < 0.4:
            i = rng.randrange(len(n) + 1)
            pat = n[:i] + '*'
        elif m < 0.55:
            i = rng.randrange(len(n) + 1)
            pat = '*' + n[i:]
        elif m < 0.7:
            i = rng.randrange(len(n))
            pat = n[:i] + '?' + n[i + 1:]
        elif m < 0.85:
            i, j = sorted(rng.sample(range(len(n) + 1), 2))
            pat = n[:i] + '*' + n[j:]
        else:
            pat = n + rng.choice(['?', 'x', '*'])
        out.append(pat)
    return out


def rnd_opts(rng, kind, names):
    o = {}
    bools = {'system': ['record_inputs', 'record_outputs', 'record_residuals'],
             'solver': ['record_inputs', 'record_outputs', 'record_solver_residuals'],
             'driver': ['record_inputs', 'record_outputs', 'record_residuals', 'record_desvars', 'record_objectives',
                        'record_constraints', 'record_responses'],
             'problem': ['record_inputs', 'record_outputs', 'record_residuals', 'record_desvars',
                         'record_objectives', 'record_constraints', 'record_responses']}[kind]
    for b in bools:
        if rng.random() < 0.6:
            o[b] = rng.random() < (0.3 if b == 'record_responses' else 0.7)
    if rng.random() < 0.7:
        o['includes'] = rnd_patterns(rng, names, rng.randint(0, 3))
    if rng.random() < 0.5:
        o['excludes'] = rnd_patterns(rng, names, rng.randint(0, 2))
    return o


def gen_case(rng, tier, flavour):
    spec = kmodels.gen_spec(rng, ncomp=(3, 4) if flavour == 'subsolver' else (2, 4), sizes=(1, 2),
                            coupled=True if flavour == 'solver' else None,
                            groups=True if flavour == 'subsolver' else None,
                            nl_iters=rng.choice([11, 12]) if flavour == 'solver' else rng.choice([2, 3]),
                            sub_solvers=True, sub_solver_prob=1.0 if flavour == 'subsolver' else 0.35)
    if rng.random() < 0.5:
        # solver scaling (ref / ref0 / res_ref) and driver scaling: every kind of case of one state must hold
        # the same physical values
        for comp in spec['comps']:
            for o in comp['outs']:
                if rng.random() < 0.6:
                    rr = rng.choice([[100.0, 0.0], [0.5, 0.0], [10.0, 1.0], [3.0, -2.0], [7.0, 0.5]])
                    comp.setdefault('ref', {})[o] = rr + ([rng.choice([10.0, 0.25, 3.0])] if rng.random() < 0.5 else [])
        for lst in (spec['dvs'], spec['objs'], spec['cons']):
            for d in lst:
                if rng.random() < 0.5:
                    d['scaler'] = rng.choice([2.0, 0.1, 7.0])
                    if rng.random() < 0.5:
                        d['adder'] = rng.choice([1.0, -3.0])
    dvs = spec['dvs']
    n = spec['comps'][0]['n']
    dtype = 'none'
    if dvs:
        dtype = {'doe': 'doe', 'solver': rng.choice(['none', 'doe']), 'runs': 'none'}.get(
            flavour, rng.choice(['none', 'doe', 'doe', 'slsqp']))
    driver = {'type': dtype}
    if dtype == 'doe':
        npts = rng.randint(11, 13) if flavour == 'doe' else rng.randint(2, 4)
        driver['points'] = [[[d['name'], [rng.choice([-1, 0.5, 2, 3])] * n] for d in dvs] for _ in range(npts)]
    if dtype == 'slsqp':
        driver['maxiter'] = rng.randint(2, 4)
    runs = []
    if flavour == 'runs':
        runs = ['model'] + ['model_cont'] * rng.randint(10, 12)
        if rng.random() < 0.5:
            runs.append('record:end')
    elif dtype == 'none':
        for _ in range(rng.randint(1, 3)):
            runs.append('model')
            if rng.random() < 0.5:
                runs.append('record:p%d' % len(runs))
    else:
        if rng.random() < 0.3:
            runs.append('record:first')
        if rng.random() < 0.3:
            runs.append('model')
        runs.append('driver')
        if rng.random() < 0.6:
            runs.append('record:final')
        if rng.random() < 0.4:
            # a second run of the driver into the same recorder (new prefix, or continuing iteration counts)
            runs.append(rng.choice(['driver', 'driver_cont']))
    ins, outs = kmodels.all_abs_names(spec)
    prom = [kmodels.prom_name(c, v, 'in') for c in spec['comps'] for v in c['ins']] + \
           [kmodels.prom_name(c, v, 'out') for c in spec['comps'] for v in c['outs']]
    allnames = sorted(set(ins + outs + prom))
    rec = {'problem': None, 'driver': None, 'systems': {}, 'solvers': {}}
    if any(r.startswith('record:') for r in runs):
        rec['problem'] = rnd_opts(rng, 'problem', allnames)
    if dtype != 'none' or rng.random() < 0.4:
        rec['driver'] = rnd_opts(rng, 'driver', allnames)
    if rng.random() < 0.6:
        rec['systems'][''] = rnd_opts(rng, 'system', allnames)
    for c in spec['comps']:
        if rng.random() < 0.4:
            rec['systems'][c['path']] = rnd_opts(rng, 'system', c['ins'] + c['outs'] + [c['path'] + '.' + v
                                                                                        for v in c['ins']])
        g = c['path'].rpartition('.')[0]
        if g and rng.random() < 0.3 and g not in rec['systems']:
            rel = [nm[len(g) + 1:] for nm in ins + outs if nm.startswith(g + '.')]
            rec['systems'][g] = rnd_opts(rng, 'system', rel + [nm for nm in ins if nm.startswith(g + '.')])
    for path in spec['solvers']:
        if rng.random() < 0.8 or flavour == 'subsolver':
            rel = [nm[len(path) + 1:] if path else nm for nm in ins + outs if nm.startswith(path + '.') or not path]
            o = rnd_opts(rng, 'solver', rel)
            if flavour == 'subsolver' and rel:
                # patterns relative to the solver's group that do not start with a wildcard
                o['excludes'] = rng.sample(rel, min(len(rel), rng.randint(1, 2)))
                if rng.random() < 0.5:
                    o['includes'] = rng.sample(rel, min(len(rel), rng.randint(1, 3))) + ['*']
                o.setdefault('record_outputs', True)
                o['record_inputs'] = True
            rec['solvers'][path] = o
    if rec['problem'] is None and rec['driver'] is None and not rec['systems'] and not rec['solvers']:
        rec['systems'][''] = rnd_opts(rng, 'system', allnames)
    return {'spec': spec, 'driver': driver, 'runs': runs, 'rec': rec, 'flavour': flavour,
            'seed': rng.randrange(10 ** 6)}


def gen(tier, rng):
    n = 48 if tier == 'quick' else 150
    out = []
    for i in range(n):
        out.append(gen_case(rng, tier, ['mix', 'mix', 'doe', 'solver', 'runs', 'subsolver'][i % 6]))
    return out


# --------------------------------------------------------------------------- Gallina emitters

def s_(x):
    return '"%s"' % x.replace('"', '""')


def strs(xs):
    return '[%s]' % '; '.join(s_(x) for x in xs)


def pairs(xs):
    return '[%s]' % '; '.join('(%s, %s)' % (s_(a), s_(b)) for a, b in xs)


def b_(x):
    return 'true' if x else 'false'


def sel_term(e):
    o = e['opts']
    incl, excl = strs(o['includes']), strs(o['excludes'])
    ins = strs([n for n, _ in e['ins']])
    outs = pairs(e['outs'])
    if e['kind'] == 'system':
        return ('(VL [vstrs (sys_inputs %s %s %s %s); vstrs (sys_outputs %s %s %s %s); '
                'vstrs (sys_residuals %s %s %s %s %s)])' % (
                    b_(o['record_inputs']), incl, excl, ins, b_(o['record_outputs']), incl, excl, outs,
                    b_(o['record_outputs']), b_(o['record_residuals']), incl, excl, outs))
    if e['kind'] == 'solver':
        on = strs([n for n, _ in e['outs']])
        path = s_(e['path'])
        return ('(VL [vstrs (solver_vars %s %s %s %s %s); vstrs (solver_vars %s %s %s %s %s); '
                'vstrs (solver_vars %s %s %s %s %s)])' % (
                    b_(o['record_inputs']), path, incl, excl, ins, b_(o['record_outputs']), path, incl, excl, on,
                    b_(o['record_solver_residuals']), path, incl, excl, on))
    od = '(mkdrv %s %s %s %s %s %s %s %s %s)' % (
        b_(o['record_inputs']), b_(o['record_outputs']), b_(o['record_residuals']), b_(o['record_desvars']),
        b_(o['record_objectives']), b_(o['record_constraints']), b_(o['record_responses']), incl, excl)
    return '(VL [vstrs (drv_inputs %s %s); vstrs (drv_outputs %s %s %s %s %s %s); vstrs (drv_residuals %s %s)])' % (
        od, ins, od, strs(e['dvs']), strs(e['objs']), strs(e['cons']), pairs(e['prom_ins']), outs, od, outs)


def hier_term(h):
    coords = '[%s]' % '; '.join('[%s]' % '; '.join('(%s, %d%%nat)' % (s_(n), i) for n, i in c) for c in h['coords'])
    n = len(h['coords'])
    return ('(let cs : list coord := %s in VL [VB (hier_ok %s cs); '
            'VL (map (fun i => vnats (descendants_code %s cs i)) (seq 0 %d)); '
            'VL (map (fun i => vnats (descendants_spec cs i)) (seq 0 %d))])' % (coords, s_(h['pre']), s_(h['pre']), n, n))


def got_want(res):
    got, want = [], []
    for e in res['sel']:
        got.append(sel_term(e))
        want.append(to_val(e['got']))
    for h in res['hier']:
        got.append(hier_term(h))
        want.append(to_val([True, h['desc'], h['desc']]))
    return '(VL [%s])' % '; '.join(got), '(VL [%s])' % '; '.join(want)


RULE = ('generated models (2-4 components in nested groups, promotion, optional coupling with block Gauss-Seidel / '
        'Newton up to 12 iterations, sub-group solvers; ref/ref0/res_ref solver scaling and driver scaler/adder in half '
        'of the models) x one recorder attached to problem / driver / systems / '
        'solvers with random record_* flags and include/exclude globs derived from the real names x run sequences '
        '(run_model with case prefixes, run_model continuing the iteration counts 11-13 times, DOE with up to 13 '
        'points, SLSQP, Problem.record); an evaluation is one recorded case read back (names, every value bitwise '
        'against the live snapshot) or one hierarchy/order query')

ASSUMPTIONS = [
    'patterns use the wildcards * and ? only (no [seq] classes); names contain no wildcard characters',
    'single process; no solver scaling (ref/res_ref), no discrete variables, no aliases, linear vectors not recorded',
    'run sequences keep coordinates unique (case_prefix / reset_iter_counts=False), as the documentation asks; '
    'repeated runs with default arguments reuse coordinates and get_case(coordinate) is then ambiguous '
    '(see props/C17/FINDINGS.md, observation 2)',
]


def run_parallel(cases, wd, tag):
    import concurrent.futures as cf
    jobs = max(1, min(core.NCPU, 8, len(cases)))
    chunks = [cases[j::jobs] for j in range(jobs)]
    with cf.ThreadPoolExecutor(max_workers=jobs) as ex:
        futs = [ex.submit(run_impl, IMPL, ch, wd, '%s%d' % (tag, j), 1100, 1) for j, ch in enumerate(chunks)]
        outs = [f.result() for f in futs]
    if any(o[0] is None for o in outs):
        return None, '\n'.join(o[1] for o in outs)
    res = [None] * len(cases)
    for j, o in enumerate(outs):
        res[j::jobs] = o[0]
    return res, ''


def run_cases(v, wd, cases, tag, compare=True):
    results, log = run_parallel(cases, wd, tag)
    if results is None:
        v.broke('correspondence:implementation-run-failed')
        v.cov['broken_detail'] = log[-3000:]
        return False
    got, want, idx = [], [], []
    tot = {'cases': 0, 'values': 0, 'queries': 0, 'requesters': 0, 'max_iter_count': 0, 'skipped': 0}
    for i, (c, r) in enumerate(zip(cases, results)):
        st = r.get('stats', {})
        for k in ('cases', 'values', 'queries', 'requesters'):
            tot[k] += st.get(k, 0)
        tot['max_iter_count'] = max(tot['max_iter_count'], st.get('max_iter_count', 0))
        if r.get('kind') == 'skipped':
            tot['skipped'] += 1
        nev = max(1, st.get('cases', 0) + st.get('queries', 0))
        for j in range(nev):
            v.count_case({'scenario': i, 'item': j, 'case': c} if j == 0 else
                         {'scenario': i, 'item': j, 'seed': c.get('seed'), 'tag': tag}, True,
                         '%s/%s' % (c.get('flavour'), r.get('kind')))
        if not r.get('ok', True):
            v.failing(r.get('sig') or 'C17', c, r.get('msg', ''))
        if r.get('res', '__none__') != '__none__':
            g, w = got_want(r['res'])
            idx.append(i)
            got.append(g)
            want.append(w)
    v.cov.setdefault('stats', {})[tag] = tot
    if compare and idx:
        bad, errors, cmd = coq_mismatches(wd, ['C17.Model'], got, want, shard=6, tag='cases_' + tag,
                                          prelude='Open Scope list_scope.')
        v.add_correspondence('selected variable sets (model select_* = names in the cases read back) and hierarchy '
                             '(hier_ok = true, descendants_code = descendants_spec = CaseReader.list_cases(coord))',
                             tot['requesters'] + tot['queries'], len(bad), 'E1 (names and case indices exact)', cmd)
        if errors:
            v.broke('correspondence:model-evaluation-failed')
            v.cov['broken_detail'] = json.dumps(errors[:2])[-3000:]
        if bad:
            v.broke('correspondence:model-vs-implementation (%d of %d scenarios differ)' % (len(bad), len(idx)))
            b = idx[bad[0]]
            v.cov['broken_detail'] = json.dumps({
                'scenario': cases[b], 'implementation': results[b]['res'],
                'model': coq_show(wd, ['C17.Model'], [got[bad[0]]], prelude='Open Scope list_scope.')[-3000:]})[-9000:]
    return True


def main(tier):
    seed = seed_from_env()
    rng = random.Random(seed * 1000003 + sum(map(ord, PID)))
    wd = workdir(PID, tier)
    v = Verdict(PID, tier, seed)
    v.cov['rule'] = RULE
    v.assumptions = list(ASSUMPTIONS)
    gate = proof_gate(PID, wd)
    v.add_proof(gate)
    cases = core.load_corpus(PID) + gen(tier, rng)
    ok = run_cases(v, wd, cases, 'impl')
    if ok and v.broken and not v.violations:
        rng2 = random.Random(seed + 77)
        run_cases(v, wd, gen('thorough' if tier == 'quick' else tier, rng2)[:150], 'search', compare=False)
    return v.finish()


def replay(rep):
    c = rep.get('case')
    if not c:
        print(json.dumps(rep, indent=1)[:3000])
        return 0
    wd = workdir(PID, 'replay')
    res, log = run_impl(IMPL, [c], wd, tag='replay', jobs=1)
    print(json.dumps({'ok': res[0].get('ok'), 'msg': res[0].get('msg')} if res else {'log': log[-2000:]}, indent=1))
    return 0 if res and res[0].get('ok') else 1
