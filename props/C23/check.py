"""C23 — DOE generators stay within bounds and cover their designs."""
from fractions import Fraction

import core
from core import Spec, standard_check

NAMES = ['x', 'y', 'z', 'w']


def qt(x):
    f = Fraction(x[0], x[1])
    return '(Qmake (%d) %d%%positive)' % (f.numerator, f.denominator)


def Q(fr):
    fr = Fraction(fr)
    return [fr.numerator, fr.denominator]


def dv_levels(c, name):
    lv = c['levels']
    if isinstance(lv, dict):
        return int(lv.get(name, lv.get('default', 2)))
    return int(lv)


def factors_term(c):
    fs = []
    for dv in c['dvs']:
        for lo, hi in zip(dv['lo'], dv['hi']):
            fs.append('(mkf %s %s %d%%nat)' % (qt(lo), qt(hi), dv_levels(c, dv['name'])))
    return '[%s]' % '; '.join(fs)


def rnd_dvs(rng, lev_of, exact=True, nmax=3, total_max=4):
    """design variables with dyadic bounds; the span of a factor with L levels is (L-1) x a dyadic number,
    so that np.linspace is exact in binary64"""
    dvs, total = [], 0
    for name in rng.sample(NAMES, rng.randrange(1, nmax + 1)):
        size = rng.choice([1, 1, 1, 2, 3])
        if total + size > total_max:
            size = 1
        if total + size > total_max:
            break
        total += size
        L = lev_of(name)
        scalar = rng.random() < 0.35
        lo, hi = [], []
        for k in range(size):
            if scalar and k:
                lo.append(lo[0])
                hi.append(hi[0])
                continue
            a = Fraction(rng.randrange(-40, 41), rng.choice([1, 2, 4, 8]))
            step = Fraction(rng.randrange(0, 25), rng.choice([1, 2, 4, 8, 16]))
            if rng.random() < 0.08:
                step = Fraction(0)
            lo.append(Q(a))
            hi.append(Q(a + step * max(L - 1, 1)))
        dvs.append({'name': name, 'lo': lo, 'hi': hi, 'scalar': scalar})
    return dvs


def levels_case(rng, gen):
    api = rng.choice(['doe', 'doe', 'sampling'])
    c = {'kind': 'levels', 'api': api, 'gen': gen}
    if gen == 'fullfact':
        if rng.random() < 0.5:
            c['levels'] = rng.choice([1, 2, 2, 3, 3, 4, 5])
        else:
            c['levels'] = {n: rng.choice([1, 2, 3, 4]) for n in rng.sample(NAMES, rng.randrange(0, 4))}
            if rng.random() < 0.5:
                c['levels']['default'] = rng.choice([2, 3])
            if not c['levels']:
                c['levels'] = {'default': rng.choice([2, 3])}
        c['dvs'] = rnd_dvs(rng, lambda n: dv_levels(c, n), total_max=4)
    elif gen == 'gsd':
        if rng.random() < 0.5:
            c['levels'] = rng.choice([2, 3, 4])
        else:
            c['levels'] = {n: rng.choice([2, 3, 4]) for n in NAMES}
        c['reduction'] = rng.choice([2, 2, 3])
        c['n'] = 1      # n > 1: pyDOE returns a list of designs, which the generator cannot take (see FINDINGS.md)
        c['dvs'] = rnd_dvs(rng, lambda n: dv_levels(c, n), nmax=3, total_max=4)
        while sum(len(d['lo']) for d in c['dvs']) < 2:
            c['dvs'] = rnd_dvs(rng, lambda n: dv_levels(c, n), nmax=3, total_max=4)
    elif gen == 'pb':
        c['levels'] = 2
        c['dvs'] = rnd_dvs(rng, lambda n: 2, nmax=4, total_max=7)
    elif gen == 'bb':
        c['levels'] = 3
        c['center'] = rng.choice([None, 1, 2])
        c['dvs'] = rnd_dvs(rng, lambda n: 3, nmax=3, total_max=4)
        while sum(len(d['lo']) for d in c['dvs']) < 3:
            c['dvs'] = rnd_dvs(rng, lambda n: 3, nmax=4, total_max=4)
    return c


def lhs_case(rng, exact):
    api = rng.choice(['doe', 'doe', 'sampling'])
    dvs, total = [], 0
    for name in rng.sample(NAMES, rng.randrange(1, 4)):
        size = rng.choice([1, 1, 2, 3])
        if total + size > 5:
            break
        total += size
        scalar = rng.random() < 0.3
        lo, hi = [], []
        for k in range(size):
            if scalar and k:
                lo.append(lo[0]); hi.append(hi[0])
                continue
            if exact:
                lo.append(Q(0))
                hi.append(Q(Fraction(2) ** rng.randrange(-3, 6)))
            else:
                a = Fraction(rng.randrange(-400, 401), rng.choice([1, 2, 4, 8, 10, 3]))
                w = Fraction(rng.randrange(0 if rng.random() < 0.05 else 1, 500), rng.choice([1, 2, 4, 7, 10]))
                lo.append(Q(a)); hi.append(Q(a + w))
        dvs.append({'name': name, 'lo': lo, 'hi': hi, 'scalar': scalar})
    if not dvs:
        dvs = [{'name': 'x', 'lo': [Q(0)], 'hi': [Q(1)], 'scalar': True}]
    total = sum(len(d['lo']) for d in dvs)
    samples = rng.choice([None, 1, 2, 3, 4, 5, 7, 10, 16])
    crit = rng.choice([None, None, 'center', 'c', 'maximin', 'm', 'centermaximin', 'cm', 'correlation', 'corr'])
    nres = total if samples is None else samples
    # pyDOE's own domain: the distance / correlation criteria need at least two samples (and two factors)
    if crit in ('maximin', 'm', 'centermaximin', 'cm') and nres < 2:
        crit = 'center'
    if crit in ('correlation', 'corr') and (nres < 3 or total < 2):
        crit = None
    return {'kind': 'lhs', 'api': api, 'gen': 'lhs', 'dvs': dvs, 'exact': exact, 'samples': samples,
            'criterion': crit, 'iterations': rng.choice([2, 5]), 'seed': rng.choice([None, 0, 1, 7, 12345, 42])}


def uniform_case(rng):
    c = lhs_case(rng, False)
    c.update({'kind': 'uniform', 'gen': 'uniform', 'samples': rng.randrange(0, 12), 'seed': rng.choice([None, 0, 3, 99, 7])})
    return c


def driver_case(rng):
    g = rng.choice(['fullfact', 'fullfact', 'lhs', 'uniform', 'pb', 'bb', 'list'])
    c = {'kind': 'driver', 'gen': g, 'levels': rng.choice([2, 3]), 'samples': rng.choice([2, 3, 5]),
         'criterion': rng.choice([None, 'center', 'maximin']), 'seed': rng.choice([0, 5, 11])}
    vs = rnd_vars(rng)
    c['vars'] = vs
    total = sum(len(v['lo']) for v in vs)
    if g == 'bb' and total < 3:
        c['gen'] = 'fullfact'
    if g == 'list':
        cases = []
        for _ in range(rng.randrange(0, 4)):
            cs = []
            for v in rng.sample(vs, rng.randrange(1, len(vs) + 1)):
                val = [Q(Fraction(l[0], l[1]) + (Fraction(h[0], h[1]) - Fraction(l[0], l[1])) * Fraction(rng.randrange(0, 5), 4))
                       for l, h in zip(v['lo'], v['hi'])]
                cs.append([v['name'], val])
            cases.append(cs)
        c['cases'] = cases
    return c


def rnd_vars(rng, kmax=2):
    vs = []
    for name in rng.sample(NAMES, rng.randrange(1, kmax + 1)):
        n = rng.choice([1, 2, 3])
        idx = None
        if n > 1 and rng.random() < 0.4:
            idx = sorted(rng.sample(range(n), rng.randrange(1, n)))
            if rng.random() < 0.3:
                idx = [i - n for i in idx]
        m = n if idx is None else len(idx)
        units, dvu = None, None
        if rng.random() < 0.4:
            units, dvu = rng.choice([('m', 'cm'), ('m', 'km'), ('degC', 'degF'), ('s', 'min'), ('m', 'm'), ('kg', None)])
        scalar = rng.random() < 0.4
        lo, hi = [], []
        for k in range(m):
            if scalar and k:
                lo.append(lo[0]); hi.append(hi[0]); continue
            a = Fraction(rng.randrange(-40, 41), rng.choice([1, 2, 4]))
            lo.append(Q(a)); hi.append(Q(a + Fraction(rng.randrange(0, 40), rng.choice([1, 2, 4]))))
        v = {'name': name, 'init': [float(rng.randrange(-5, 6)) + 0.5 for _ in range(n)], 'units': units, 'dv_units': dvu,
             'indices': idx, 'lo': lo, 'hi': hi, 'scalar_bounds': scalar}
        r = rng.random()
        if r < 0.2:
            v['scaler'] = Q(rng.choice([2, Fraction(1, 4), -3, 10]))
        elif r < 0.35:
            v['ref'] = Q(rng.choice([2, 5, Fraction(1, 2)])); v['ref0'] = Q(rng.choice([0, 1, -1]))
        elif r < 0.45:
            v['adder'] = Q(rng.choice([1, -2, Fraction(1, 2)]))
        vs.append(v)
    return vs


def driver_reuse_case(rng):
    """ONE generator object drives two or three Problems with different design-variable sets"""
    g = rng.choice(['fullfact', 'fullfact', 'fullfact', 'pb', 'bb', 'lhs', 'uniform'])
    c = {'kind': 'driver', 'gen': g, 'samples': rng.choice([2, 3, 5]),
         'criterion': rng.choice([None, 'center', 'maximin']), 'seed': rng.choice([0, 5, 11])}
    if rng.random() < 0.5:
        c['levels'] = rng.choice([2, 2, 3])
    else:
        c['levels'] = {n: rng.choice([1, 2, 3]) for n in rng.sample(NAMES, rng.randrange(1, 4))}
        c['levels']['default'] = 2
    sets = [rnd_vars(rng, 3) for _ in range(rng.choice([2, 2, 3]))]
    for vs in sets:
        total = sum(len(v['lo']) for v in vs)
        if g == 'bb' and total < 3:
            c['gen'] = 'fullfact'
    if c['gen'] == 'fullfact':
        for vs in sets:
            prod = 1
            for v in vs:
                prod *= dv_levels(c, v['name']) ** len(v['lo'])
            if prod > 200:
                c['levels'] = 2
    c['vars'], c['more_vars'] = sets[0], sets[1:]
    return c


def reuse_case(rng):
    """ONE generator object (drivers.doe_generators) called for two or three different design-variable sets:
    other variables, other counts, other sizes, the same total size split differently under dict levels"""
    g = rng.choice(['fullfact', 'fullfact', 'fullfact', 'gsd', 'pb', 'bb', 'lhs', 'uniform'])
    c = {'kind': 'reuse', 'api': 'doe', 'gen': g}
    if g == 'fullfact':
        if rng.random() < 0.4:
            c['levels'] = rng.choice([1, 2, 3, 4])
        else:
            c['levels'] = {n: rng.choice([1, 2, 3, 4]) for n in rng.sample(NAMES, rng.randrange(1, 5))}
            if rng.random() < 0.6:
                c['levels']['default'] = rng.choice([2, 3])
    elif g == 'gsd':
        c['levels'] = rng.choice([2, 3]) if rng.random() < 0.5 else {n: rng.choice([2, 3, 4]) for n in NAMES}
        c['reduction'], c['n'] = rng.choice([2, 2, 3]), 1
    elif g == 'pb':
        c['levels'] = 2
    elif g == 'bb':
        c['levels'], c['center'] = 3, rng.choice([None, 1])
    else:
        c.update({'samples': rng.choice([1, 2, 3, 5, 8]), 'criterion': rng.choice([None, 'center', 'c']),
                  'iterations': 5, 'seed': rng.choice([None, 0, 7, 42]), 'levels': 2})
    need = {'gsd': 2, 'bb': 3}.get(g, 1)
    steps = []
    for _ in range(rng.choice([2, 2, 3])):
        dvs = rnd_dvs(rng, lambda n: dv_levels(c, n), nmax=3, total_max=4)
        while sum(len(d['lo']) for d in dvs) < need:
            dvs = rnd_dvs(rng, lambda n: dv_levels(c, n), nmax=4, total_max=4)
        steps.append(dvs)
    if rng.random() < 0.3 and len(steps[0]) >= 2:
        # the same total size, split differently between the same two variables
        a, b = steps[0][0], steps[0][1]
        if len(a['lo']) != len(b['lo']) and dv_levels(c, a['name']) != dv_levels(c, b['name']):
            def resized(d, n):
                L = dv_levels(c, d['name'])
                lo0 = Fraction(d['lo'][0][0], d['lo'][0][1])
                return dict(d, lo=[Q(lo0)] * n, hi=[Q(lo0 + max(L - 1, 1))] * n)
            steps[1] = [resized(a, len(b['lo'])), resized(b, len(a['lo']))] + steps[0][2:]
    c['steps'] = steps
    return c


class C23(Spec):
    pid = 'C23'
    imports = ['C23.Model']
    impl_script = 'props/C23/impl.py'
    exactness = ('E1 for index designs (own full-factorial enumeration vs pyDOE, row for row); E3 (dyadic-exact) for the '
                 'level tables and yielded values (bounds and level counts chosen so that np.linspace is exact in binary64) '
                 'and for the Latin-hypercube map with lower = 0, upper = 2^k; the real unit design matrix is converted '
                 'exactly and its stratification decided inside Coq')
    shard = 120
    impl_jobs = 4
    rule = ('random design-variable sets (1-4 variables, sizes 1-3, scalar or array bounds, degenerate ranges) x '
            '{full factorial (int / dict / default levels), generalized subset, Plackett-Burman, Box-Behnken} x both APIs '
            '(drivers.doe_generators, drivers.sampling); Latin hypercube x samples x criterion x seed (exact and general '
            'bounds); uniform; DOEDriver runs with indices, units and scaling on a recording component; HISTORIES: one generator '
            'object called for 2-3 different design-variable sets (other variables / counts / sizes, same total size split '
            'differently under dict levels) and one generator object driving 2-3 Problems - every call is compared with the '
            'model applied to that call\'s design variables alone and with a fresh generator')
    assumptions = ['pyDOE designs (gsd, pbdesign, bbdesign, lhs) are external: their index / unit matrices are captured '
                   'from the run and checked (bounds, stratification), not trusted',
                   'NumPy PRNG reproducibility is checked, not proved: for every seeded generator (uniform, Latin hypercube, both APIs) the '
                   'same cases must come from construct-and-run repeated, a second same-seed generator, two same-seed generators '
                   'built before either is consumed, the same object consumed twice - with other np.random traffic in between - '
                   'and from DOEDriver run twice',
                   'a Latin-hypercube value mapped by lower + s (upper - lower) in binary64 is compared with the exact '
                   'rational value within 4 ulp of the bound magnitude when the bounds are not exact-friendly',
                   'single process (no run_parallel), no discrete design variables']

    def gen(self, tier, rng):
        cases = []
        k = 1 if tier == 'quick' else 12
        for _ in range(260 * k):
            cases.append(levels_case(rng, 'fullfact'))
        for g, n in (('gsd', 60), ('pb', 60), ('bb', 50)):
            for _ in range(n * k):
                cases.append(levels_case(rng, g))
        for _ in range(200 * k):
            cases.append(lhs_case(rng, True))
        for _ in range(160 * k):
            cases.append(lhs_case(rng, False))
        for _ in range(100 * k):
            cases.append(uniform_case(rng))
        for _ in range(110 * k):
            cases.append(driver_case(rng))
        for _ in range(150 * k):
            cases.append(reuse_case(rng))
        for _ in range(40 * k):
            cases.append(driver_reuse_case(rng))
        return cases

    def search_gen(self, tier, rng):
        return self.gen('quick', rng)

    def compare_case(self, c, res):
        if res.get('res', '__none__') == '__none__':
            return False
        if c['kind'] == 'reuse':
            c['_designs'] = [st[0] for st in res['res']]
            return True
        c['_res0'] = res['res'][0]           # the captured design / unit matrix: input of the model term
        return True

    def got_term(self, c):
        if c['kind'] == 'reuse':
            # every call of the shared generator object: the model applied to THAT call's design variables alone
            terms = []
            for dvs, design in zip(c['steps'], c['_designs']):
                sub = dict(c, dvs=dvs)
                fs = factors_term(sub)
                dt = '[%s]' % '; '.join('[%s]' % '; '.join('%d%%nat' % i for i in row) for row in design)
                if c['gen'] == 'fullfact':
                    terms.append('(VL [v_fullfact %s; v_cases %s %s])' % (fs, fs, dt))
                else:
                    terms.append('(v_cases %s %s)' % (fs, dt))
            return '(VL [%s])' % '; '.join(terms)
        if c['kind'] == 'levels':
            fs = factors_term(c)
            design = '[%s]' % '; '.join('[%s]' % '; '.join('%d%%nat' % i for i in row) for row in c['_res0'])
            if c['gen'] == 'fullfact':
                return '(VL [v_fullfact %s; v_cases %s %s])' % (fs, fs, design)
            return '(v_cases %s %s)' % (fs, design)
        if c['kind'] == 'lhs':
            m = c['_res0']
            mt = '[%s]' % '; '.join('[%s]' % '; '.join(qt(x['q']) for x in row) for row in m)
            los = [lo for dv in c['dvs'] for lo in dv['lo']]
            his = [hi for dv in c['dvs'] for hi in dv['hi']]
            if not c.get('exact'):
                los, his = [[0, 1]] * len(los), [[1, 1]] * len(his)      # identity map: only the stratification
            return '(v_lhs %d%%nat [%s] [%s] %s)' % (len(m), '; '.join(qt(x) for x in los), '; '.join(qt(x) for x in his), mt)
        raise ValueError(c['kind'])

    def want_term(self, c, res):
        if c['kind'] == 'reuse':
            ws = []
            for design, cases in res['res']:
                cs = core.to_val(cases)
                ws.append('(VL [VL [%s; %s]; %s])' % (core.to_val(design), cs, cs) if c['gen'] == 'fullfact' else cs)
            return '(VL [%s])' % '; '.join(ws)
        design, cases = res['res']
        if c['kind'] == 'levels':
            cs = core.to_val(cases)
            if c['gen'] == 'fullfact':
                return '(VL [VL [%s; %s]; %s])' % (core.to_val(design), cs, cs)
            return cs
        return '(VL [VB true; %s])' % core.to_val(cases)

    def shrink(self, c):
        if 'steps' in c and len(c['steps']) > 2:
            for i in range(len(c['steps'])):
                yield dict(c, steps=c['steps'][:i] + c['steps'][i + 1:])
        if 'dvs' in c and len(c['dvs']) > 1:
            for i in range(len(c['dvs'])):
                yield dict(c, dvs=c['dvs'][:i] + c['dvs'][i + 1:])
        if 'vars' in c and len(c['vars']) > 1:
            for i in range(len(c['vars'])):
                yield dict(c, vars=c['vars'][:i] + c['vars'][i + 1:])


def main(tier):
    return standard_check(C23(), tier)
