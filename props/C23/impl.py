"""C23 implementation side: the real DOE generators (drivers/doe_generators.py and drivers/sampling/*) and the
real DOEDriver.

kinds of case
  levels : a level-table generator (full factorial, generalized subset, Plackett-Burman, Box-Behnken) called on a
           design-variable dictionary; the index design it used is captured; result = [design, cases]
  lhs    : LatinHypercubeGenerator; the unit design matrix pyDOE returned is captured; result = [matrix, cases]
  uniform: UniformGenerator (oracle only)
  driver : DOEDriver run on a model whose component records every evaluation (oracle only)
oracle (the property): every yielded value within its bounds; full factorial = exactly the product of the level
lists, no duplicates; Latin hypercube: one sample per stratum in every column; same seed -> same cases; the model
is evaluated at exactly the generated values, once per case, in order.
"""
import itertools
import math
import warnings
from collections import OrderedDict
from fractions import Fraction

import numpy as np
from implutil import main, q

warnings.simplefilter('ignore')
import openmdao.api as om  # noqa: E402
from openmdao.drivers import doe_generators as dg  # noqa: E402
from openmdao.drivers.sampling import pyDOE_generators as sg  # noqa: E402
from openmdao.drivers.sampling.uniform_generator import UniformGenerator as SUniform  # noqa: E402


def fr(x):
    return Fraction(x[0], x[1])


def bounds(dv):
    lo = [float(fr(x)) for x in dv['lo']]
    hi = [float(fr(x)) for x in dv['hi']]
    return lo, hi


def dv_dict(dvs, sampling):
    """the design-variable table a driver hands to a generator (doe api) / the factor dictionary (sampling api);
    dv['scalar']: the bounds are plain floats shared by all elements"""
    d = OrderedDict()
    for dv in dvs:
        lo, hi = bounds(dv)
        if dv.get('scalar') and (not sampling or len(lo) == 1):
            lower, upper = lo[0], hi[0]
        else:
            lower, upper = np.array(lo), np.array(hi)
        if sampling:
            d[dv['name']] = {'lower': lower, 'upper': upper}
        else:
            d[dv['name']] = {'size': len(lo), 'global_size': len(lo), 'distributed': False,
                             'lower': lower, 'upper': upper}
    return d


def flat_bounds(dvs):
    los, his = [], []
    for dv in dvs:
        lo, hi = bounds(dv)
        los += lo
        his += hi
    return los, his


def flat_case(case, sampling, names):
    if sampling:
        # dict name -> {'val': array}
        return [float(v) for n in names for v in np.atleast_1d(case[n]['val']).ravel()]
    assert [n for n, _ in case] == names, (case, names)
    return [float(v) for _, arr in case for v in np.atleast_1d(arr).ravel()]


def make_levels(c):
    lv = c['levels']
    if isinstance(lv, dict):
        return {k: int(v) for k, v in lv.items()}
    return int(lv)


def build_generator(c, sampling, design_vars):
    g = c['gen']
    mod = sg if sampling else dg
    args = (design_vars,) if sampling else ()
    if g == 'fullfact':
        return mod.FullFactorialGenerator(*args, levels=make_levels(c))
    if g == 'gsd':
        return mod.GeneralizedSubsetGenerator(*args, levels=make_levels(c), reduction=c['reduction'], n=c.get('n', 1))
    if g == 'pb':
        return mod.PlackettBurmanGenerator(*args)
    if g == 'bb':
        return mod.BoxBehnkenGenerator(*args, center=c.get('center'))
    if g == 'lhs':
        return mod.LatinHypercubeGenerator(*args, samples=c['samples'], criterion=c['criterion'],
                                           iterations=c.get('iterations', 5), seed=c['seed'])
    if g == 'uniform':
        if sampling:
            return SUniform(design_vars, num_samples=c['samples'], seed=c['seed'])
        return dg.UniformGenerator(num_samples=c['samples'], seed=c['seed'])
    raise ValueError(g)


def run_generator(c, capture=None):
    sampling = c['api'] == 'sampling'
    dvd = dv_dict(c['dvs'], sampling)
    gen = build_generator(c, sampling, dvd)
    names = [dv['name'] for dv in c['dvs']]
    captured = {}
    if capture == 'design':
        orig = gen._generate_design

        def wrapped(size):
            d = orig(size)
            captured['m'] = np.array(d).astype('int')
            return d
        gen._generate_design = wrapped
    elif capture == 'lhs':
        orig_lhs = gen._lhs

        def wrapped_lhs(*a, **k):
            m = orig_lhs(*a, **k)
            captured['m'] = np.array(m, dtype=float)
            return m
        gen._lhs = wrapped_lhs
    if sampling:
        gen._setup()
        cases = [flat_case(cs, True, names) for cs in gen]
    else:
        cases = [flat_case(cs, False, names) for cs in gen(dvd)]
    return cases, captured.get('m')


def plain_run(gen, c, dvd, resetup=False):
    """consume a generator the way its API is used: doe generators are called on the design-variable table,
    sampling generators are iterated (they were set up by their constructor; resetup: set up again first)"""
    sampling = c['api'] == 'sampling'
    names = [dv['name'] for dv in c['dvs']]
    if sampling:
        if resetup:
            gen._setup()
        return [flat_case(cs, True, names) for cs in gen]
    return [flat_case(cs, False, names) for cs in gen(dvd)]


def histories(c):
    """seeded generators are reproducible - over histories, not only construct-then-run-once:
    the same object consumed twice, two same-seed generators built before either is consumed, other users of
    np.random in between.  Returns '' or a description of the first history that gave different cases."""
    sampling = c['api'] == 'sampling'
    dvd = dv_dict(c['dvs'], sampling)

    def build():
        return build_generator(c, sampling, dvd)
    np.random.seed(987654321)
    ref = plain_run(build(), c, dvd)
    # other np.random traffic before construction
    np.random.rand(3)
    if plain_run(build(), c, dvd) != ref:
        return 'a second generator with the same seed (np.random used before it was built)'
    # two generators built before either is consumed, np.random used in between
    g1, g2 = build(), build()
    np.random.rand(5)
    a = plain_run(g1, c, dvd)
    np.random.rand(2)
    b = plain_run(g2, c, dvd)
    if a != ref:
        return 'the first of two same-seed generators built before either was consumed (np.random used after construction)'
    if b != ref:
        return 'the second of two same-seed generators built before either was consumed'
    # the same object consumed twice
    g = build()
    a = plain_run(g, c, dvd)
    np.random.rand(1)
    b = plain_run(g, c, dvd, resetup=True)
    if a != ref or b != ref:
        return 'the same generator object consumed twice'
    return ''


def dv_levels(c, name):
    lv = c['levels']
    if isinstance(lv, dict):
        return int(lv.get(name, lv.get('default', 2)))
    return int(lv)


def in_bounds(cases, los, his):
    for ci, cs in enumerate(cases):
        if len(cs) != len(los):
            return 'case %d has %d values for %d factors' % (ci, len(cs), len(los))
        for k, v in enumerate(cs):
            if not (los[k] <= v <= his[k]):      # also catches NaN
                return 'case %d: factor %d = %r outside [%r, %r]' % (ci, k, v, los[k], his[k])
    return ''


def fullfact_oracle(c, dvs, cases):
    """exactly the product of the level lists (np.linspace is the reference for "evenly spaced levels");
    returns (signature, message), ('', '') when fine"""
    lists = []
    for dv in dvs:
        lo, hi = bounds(dv)
        for k in range(len(lo)):
            lists.append([float(v) for v in np.linspace(lo[k], hi[k], num=dv_levels(c, dv['name']))])
    want = set(itertools.product(*lists))
    got = [tuple(cs) for cs in cases]
    nprod = 1
    for lst in lists:
        nprod *= len(lst)
    if len(got) != nprod:
        return 'fullfact-count', '%d cases for a product of %d level combinations' % (len(got), nprod)
    if len(set(got)) != len(got) and len(want) == nprod:
        return 'fullfact-duplicates', 'duplicate cases: %r' % (got[:6],)
    if set(got) != want:
        return 'fullfact-missing', 'cases differ from the product of the levels: %r' % (sorted(want - set(got))[:3],)
    return '', ''


def handle_reuse(c):
    """ONE generator object called for a sequence of different design-variable sets: every call must yield what a
    fresh generator yields for that call's design variables alone (bounds, factor count, full-factorial product)."""
    gen = build_generator(c, False, None)
    captured = {}
    if c['gen'] in ('fullfact', 'gsd', 'pb', 'bb'):
        orig = gen._generate_design

        def wrapped(size):
            d = orig(size)
            captured['m'] = np.array(d).astype('int')
            return d
        gen._generate_design = wrapped
    res, ok, sig, msg = [], True, '', ''
    for si, dvs in enumerate(c['steps']):
        names = [dv['name'] for dv in dvs]
        dvd = dv_dict(dvs, False)
        los, his = flat_bounds(dvs)
        where = 'call %d of the same %s object (design variables %s)' % (
            si + 1, c['gen'], ', '.join('%s[%d]' % (dv['name'], len(dv['lo'])) for dv in dvs))
        captured.pop('m', None)
        try:
            cases = [flat_case(cs, False, names) for cs in gen(dvd)]
        except Exception as e:   # noqa
            ok, sig, msg = False, 'reuse-raised:' + c['gen'], '%s raised %s: %s' % (where, type(e).__name__, str(e)[:150])
            break
        if 'm' in captured:
            res.append([[[int(v) for v in row] for row in captured['m']], [[q(v) for v in cs] for cs in cases]])
        m = in_bounds(cases, los, his)
        if m:
            ok, sig, msg = False, 'reuse-out-of-bounds:' + c['gen'], where + ': ' + m
            break
        if c['gen'] == 'fullfact':
            sg, m = fullfact_oracle(c, dvs, cases)
            if sg:
                ok, sig, msg = False, 'reuse-' + sg, where + ': ' + m
                break
        if c['gen'] in ('fullfact', 'gsd', 'pb', 'bb') or c.get('seed') is not None:
            fresh = [flat_case(cs, False, names) for cs in build_generator(c, False, None)(dvd)]
            if fresh != cases:
                ok, sig = False, 'reuse-differs-from-fresh:' + c['gen']
                msg = '%s yields %d cases %r..., a fresh generator with the same options yields %d cases %r...' % (
                    where, len(cases), cases[:2], len(fresh), fresh[:2])
                break
        elif c['gen'] in ('lhs', 'uniform') and len(cases) != c['samples']:
            ok, sig, msg = False, 'reuse-count:' + c['gen'], '%s: %d cases for %d samples' % (where, len(cases), c['samples'])
            break
    if not ok or c['gen'] in ('lhs', 'uniform'):
        res = '__none__'
    return {'res': res, 'ok': ok, 'msg': msg, 'sig': sig, 'kind': 'reuse:%s' % c['gen']}


def handle(c):
    kind = c['kind']
    if kind == 'driver':
        return handle_driver(c)
    if kind == 'reuse':
        return handle_reuse(c)
    los, his = flat_bounds(c['dvs'])
    ok, msg, sig = True, '', ''
    if kind == 'levels':
        cases, design = run_generator(c, 'design')
        res = [[[int(v) for v in row] for row in design], [[q(v) for v in cs] for cs in cases]]
        msg = in_bounds(cases, los, his)
        if msg:
            ok, sig = False, 'out-of-bounds:' + c['gen']
        elif c['gen'] == 'fullfact':
            sig, msg = fullfact_oracle(c, c['dvs'], cases)
            ok = not sig
    elif kind == 'lhs':
        cases, m = run_generator(c, 'lhs')
        n = len(cases)
        res = [[[q(v) for v in row] for row in m], [[q(v) for v in cs] for cs in cases] if c.get('exact') else
               [[q(v) for v in row] for row in m]]
        msg = in_bounds(cases, los, his)
        if msg:
            ok, sig = False, 'out-of-bounds:lhs'
        if ok and (m.shape != (n, len(los)) or (c['samples'] is not None and n != c['samples'])):
            ok, sig, msg = False, 'lhs-shape', 'design matrix %r for %d samples x %d factors' % (m.shape, n, len(los))
        if ok:
            # the yielded values are the affine image of the unit design (exact rational reference, 2 ulp)
            for i in range(n):
                for k in range(len(los)):
                    ref = Fraction(los[k]) + Fraction(m[i, k]) * (Fraction(his[k]) - Fraction(los[k]))
                    v = cases[i][k]
                    tol = 4 * max(abs(Fraction(los[k])), abs(Fraction(his[k])), 1) * Fraction(1, 2 ** 52)
                    if abs(Fraction(v) - ref) > tol:
                        ok, sig = False, 'lhs-map'
                        msg = 'sample %d factor %d: %r is not lower + s (upper - lower) = %s' % (i, k, v, float(ref))
        if ok:
            # one sample in each stratum of every dimension, on the values actually yielded
            for k in range(len(los)):
                if his[k] == los[k]:
                    continue
                span = Fraction(his[k]) - Fraction(los[k])
                strata = sorted(math.floor((Fraction(cases[i][k]) - Fraction(los[k])) / span * n) for i in range(n))
                ustr = sorted(math.floor(Fraction(m[i, k]) * n) for i in range(n))
                if ustr != list(range(n)):
                    ok, sig, msg = False, 'lhs-strata', 'factor %d: unit samples fall in strata %r' % (k, ustr)
                    break
                # (the mapped value may sit on a stratum edge by rounding: accept a neighbour swap of at most one ulp)
                if strata != list(range(n)) and not c.get('edge_ok'):
                    bad = [s for s in range(n) if strata.count(s) != 1]
                    ok, sig, msg = False, 'lhs-strata-mapped', 'factor %d: yielded values fall in strata %r (%r)' % (k, strata, bad)
                    break
        if ok and c['seed'] is not None:
            again, _ = run_generator(c, 'lhs')
            h = histories(c) if again == cases else 'construct-and-run repeated'
            if h:
                ok, sig, msg = False, 'not-reproducible:lhs:' + c['api'], 'seed %r: different cases from %s' % (c['seed'], h)
    elif kind == 'uniform':
        cases, _ = run_generator(c)
        res = '__none__'
        msg = in_bounds(cases, los, his)
        if msg:
            ok, sig = False, 'out-of-bounds:uniform'
        elif len(cases) != c['samples']:
            ok, sig, msg = False, 'uniform-count', '%d cases for %d samples' % (len(cases), c['samples'])
        elif c['seed'] is not None:
            again, _ = run_generator(c)
            h = histories(c) if again == cases else 'construct-and-run repeated'
            if h:
                ok, sig, msg = False, 'not-reproducible:uniform:' + c['api'], 'seed %r: different cases from %s' % (c['seed'], h)
    else:
        raise ValueError(kind)
    return {'res': res, 'ok': ok, 'msg': msg, 'sig': sig, 'kind': '%s:%s:%s' % (kind, c.get('api'), c.get('gen'))}


# ------------------------------------------------------------------ DOEDriver

class Recorder(om.ExplicitComponent):
    def initialize(self):
        self.options.declare('spec', types=list)
        self.seen = []

    def setup(self):
        for v in self.options['spec']:
            self.add_input(v['name'], np.array(v['init'], dtype=float), units=v.get('units'))
        self.add_output('f', 0.0)

    def compute(self, inputs, outputs):
        self.seen.append({v['name']: [float(x) for x in inputs[v['name']]] for v in self.options['spec']})
        outputs['f'] = sum(float(np.sum(inputs[v['name']])) for v in self.options['spec'])


def handle_driver(c):
    """DOEDriver on a recording model; with c['more_vars'] the SAME generator object then drives further Problems
    with other design-variable sets (each must be evaluated at what a fresh generator yields for it)"""
    g = c['gen']

    def mk():
        if g == 'fullfact':
            return om.FullFactorialGenerator(levels=make_levels(c))
        if g == 'lhs':
            return om.LatinHypercubeGenerator(samples=c['samples'], criterion=c['criterion'], seed=c['seed'])
        if g == 'uniform':
            return om.UniformGenerator(num_samples=c['samples'], seed=c['seed'])
        if g == 'pb':
            return om.PlackettBurmanGenerator()
        if g == 'bb':
            return om.BoxBehnkenGenerator()
        if g == 'list':
            return [[(n, np.array([float(fr(x)) for x in val])) for n, val in cs] for cs in c['cases']]
        raise ValueError(g)
    shared = mk()
    ok, msg, sig = True, '', ''
    for pi, vs in enumerate([c['vars']] + list(c.get('more_vars', []))):
        try:
            ok, sig, msg = drive_problem(c, vs, shared, mk)
        except Exception as e:   # noqa
            if pi == 0:
                raise
            ok, sig, msg = False, 'reuse-raised:driver:' + g, '%s: %s' % (type(e).__name__, str(e)[:150])
        if not ok:
            if pi:
                sig = 'reuse-' + sig if not sig.startswith('reuse-') else sig
                msg = 'problem %d driven by the same %s generator object: %s' % (pi + 1, g, msg)
            break
    return {'res': '__none__', 'ok': ok, 'msg': msg, 'sig': sig, 'kind': 'driver:%s%s' % (g, '+reuse' if c.get('more_vars') else '')}


def drive_problem(c, cvars, genobj, mk):
    from openmdao.utils.units import convert_units
    g = c['gen']
    p = om.Problem(reports=None)
    rec = p.model.add_subsystem('c', Recorder(spec=cvars), promotes=['*'])
    for v in cvars:
        kw = {}
        lo = [float(fr(x)) for x in v['lo']]
        hi = [float(fr(x)) for x in v['hi']]
        kw['lower'] = lo[0] if v.get('scalar_bounds') else np.array(lo)
        kw['upper'] = hi[0] if v.get('scalar_bounds') else np.array(hi)
        if v.get('indices') is not None:
            kw['indices'] = v['indices']
        if v.get('dv_units'):
            kw['units'] = v['dv_units']
        for k in ('scaler', 'adder', 'ref', 'ref0'):
            if v.get(k) is not None:
                kw[k] = float(fr(v[k]))
        p.model.add_design_var(v['name'], **kw)
    p.model.add_objective('f')
    p.driver = om.DOEDriver(genobj)
    p.setup()
    p.final_setup()
    rec.seen.clear()
    p.run_driver()
    seen = list(rec.seen)
    # the driver run a second time (np.random used in between): the same evaluations
    np.random.rand(3)
    rec.seen.clear()
    p.run_driver()
    seen_again = list(rec.seen)
    # the cases, generated once more from the driver's own design-variable table with the same seed
    gen2 = mk()
    if isinstance(gen2, list):
        gen2 = dg.ListGenerator(gen2)
    cases = [[(n, np.atleast_1d(np.array(val, dtype=float)).ravel()) for n, val in cs]
             for cs in gen2(p.driver._designvars, p.model)]
    ok, msg, sig = True, '', ''
    if g != 'list' and seen_again != seen:      # (a list case may leave variables at what the previous case set)
        ok, sig = False, 'not-reproducible:driver:' + g
        msg = 'DOEDriver run twice: the second run evaluated the model at different points (%r ... vs %r ...)' % (
            seen[:1], seen_again[:1])
    elif len(seen) != len(cases):
        ok, sig, msg = False, 'driver-count', 'the model was evaluated %d times for %d generated cases' % (len(seen), len(cases))
    spec = {v['name']: v for v in cvars}
    for i, (cs, sn) in enumerate(zip(cases, seen)):
        if not ok:
            break
        for n, val in cs:
            v = spec[n]
            want = list(v['init'])
            idx = v.get('indices')
            pos = list(range(len(want))) if idx is None else [k % len(want) for k in idx]
            vals = [float(x) for x in val]
            if v.get('dv_units'):
                vals = [float(convert_units(x, v['dv_units'], v.get('units'))) for x in vals]
            for k_, pk in enumerate(pos):
                want[pk] = vals[k_]
            lo = [float(fr(x)) for x in v['lo']]
            hi = [float(fr(x)) for x in v['hi']]
            for k_, x in enumerate(val):
                lo_k = lo[0] if v.get('scalar_bounds') else lo[k_]
                hi_k = hi[0] if v.get('scalar_bounds') else hi[k_]
                if not (lo_k <= float(x) <= hi_k):
                    ok, sig, msg = False, 'out-of-bounds:driver', 'case %d: %s[%d] = %r outside [%r, %r]' % (i, n, k_, float(x), lo_k, hi_k)
            if ok and [float(x) for x in want] != sn[n]:
                ok, sig = False, 'driver-values'
                msg = 'case %d: generated %s = %r (indices %r, units %r) but the model was evaluated at %r' % (
                    i, n, [float(x) for x in val], idx, v.get('dv_units'), sn[n])
                break
    return ok, sig, msg


if __name__ == '__main__':
    main(handle)
