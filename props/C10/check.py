"""C10 — bounds enforcement keeps Newton updates inside bounds and along the step."""
import itertools
from fractions import Fraction
import core
from core import Spec, standard_check, qlit, boollit

METHODS = ['vector', 'scalar', 'wall']
MCTOR = {'vector': 'Vector', 'scalar': 'Scalar', 'wall': 'Wall'}


def Q(x):
    x = Fraction(x)
    return [x.numerator, x.denominator]


def F(x):
    return Fraction(int(x[0]), int(x[1]))


def oq(x):
    return 'None' if x is None else '(Some %s)' % qlit(F(x))


def rnd_q(rng, dyadic, span=6):
    if dyadic:
        return Fraction(rng.randrange(-span * 8, span * 8 + 1), 8)
    return Fraction(rng.randrange(-span * 6, span * 6 + 1), rng.choice([1, 2, 3, 4, 5, 6, 7]))


def kernel_case(rng, n, method, dyadic, in_bounds=True, reversed_bounds=False):
    alpha = Fraction(1, rng.choice([1, 1, 2, 4])) if dyadic else rng.choice(
        [Fraction(1), Fraction(1, 2), Fraction(2, 3), Fraction(3, 4), Fraction(1, 10), Fraction(3, 2)])
    lo_none = rng.random() < 0.15
    hi_none = (not lo_none) and rng.random() < 0.15   # _enforce_bounds is never called with both arrays missing
    los, his, u0s, dus = [], [], [], []
    for _ in range(n):
        a, b = sorted([rnd_q(rng, dyadic), rnd_q(rng, dyadic)])
        if rng.random() < 0.1:
            b = a                       # degenerate interval
        if reversed_bounds and a != b:
            a, b = b, a
        lo = None if (lo_none or rng.random() < 0.2) else a
        hi = None if (hi_none or rng.random() < 0.2) else b
        if in_bounds and not reversed_bounds:
            base_lo = lo if lo is not None else (hi - 5 if hi is not None else Fraction(-3))
            base_hi = hi if hi is not None else base_lo + 5
            k = rng.random()
            if k < 0.2:
                u0 = base_lo
            elif k < 0.4:
                u0 = base_hi
            else:
                den = 8 if dyadic else rng.choice([2, 3, 5, 7])
                u0 = base_lo + (base_hi - base_lo) * Fraction(rng.randrange(0, den + 1), den)
                if dyadic:
                    u0 = Fraction(round(u0 * 64), 64)
                    u0 = min(max(u0, base_lo), base_hi)
        else:
            u0 = rnd_q(rng, dyadic, 8)
        k = rng.random()
        if k < 0.2:
            du = Fraction(0)
        elif k < 0.3 and lo is not None:
            du = (lo - u0) / alpha           # lands exactly on the lower bound
        elif k < 0.4 and hi is not None:
            du = (hi - u0) / alpha
        else:
            du = rnd_q(rng, dyadic, 12)
        los.append(lo)
        his.append(hi)
        u0s.append(u0)
        dus.append(du)
    return {'kind': 'kernel', 'method': method, 'alpha': Q(alpha), 'u0': [Q(v) for v in u0s], 'du': [Q(v) for v in dus],
            'lo': None if lo_none else [None if v is None else Q(v) for v in los],
            'hi': None if hi_none else [None if v is None else Q(v) for v in his]}


def perturbed_case(rng, n, method):
    """An in-bounds start with one entry ON a bound and a tiny outward step, where the value handed to the
    kernel for that entry is u0 + alpha*du*(1+delta) (what rounding of u0 + alpha*du can produce)."""
    for _ in range(50):
        c = kernel_case(rng, n, method, True)
        js = [j for j in range(n) if (c['lo'] and c['lo'][j] is not None) or (c['hi'] and c['hi'][j] is not None)]
        if js:
            break
    else:
        return c
    j = rng.choice(js)
    alpha = F(c['alpha'])
    use_hi = c['hi'] is not None and c['hi'][j] is not None and (c['lo'] is None or c['lo'][j] is None or rng.random() < 0.5)
    bound = F(c['hi'][j]) if use_hi else F(c['lo'][j])
    tiny = Fraction(1, 2 ** rng.choice([12, 20, 30]))
    du = tiny if use_hi else -tiny
    delta = rng.choice([Fraction(1, 2), Fraction(1, 32), Fraction(2), Fraction(64)])
    c['u0'][j] = Q(bound)
    c['du'][j] = Q(du)
    c['u'] = [Q(F(c['u0'][i]) + alpha * F(c['du'][i])) for i in range(n)]
    c['u'][j] = Q(bound + alpha * du * (1 + delta))
    return c


def bspec(rng, vals, allow_none=True):
    """None | scalar | array encoding of a per-entry list (entries may be None = infinite)"""
    if all(v is None for v in vals):
        return None
    if all(v == vals[0] for v in vals) and rng.random() < 0.6:
        return ['s', Q(vals[0])]
    return ['a', [None if v is None else Q(v) for v in vals]]


def comp_case(rng, kind, n, dyadic_scale, method, ls, neg_bias=0.5):
    lo, hi, x0, ref, ref0 = [], [], [], [], []
    same_bounds = rng.random() < 0.5
    same_scale = rng.random() < 0.6
    pattern = rng.choice(['both', 'both', 'lower', 'upper', 'mixed'])
    for i in range(n):
        if i > 0 and same_bounds:
            a, b = lo[0], hi[0]
        else:
            a, b = sorted([Fraction(rng.randrange(-24, 25), 4), Fraction(rng.randrange(-24, 25), 4)])
            if a == b:
                b = a + 1
            if pattern == 'lower' or (pattern == 'mixed' and rng.random() < 0.3):
                b = None
            elif pattern == 'upper' or (pattern == 'mixed' and rng.random() < 0.3):
                a = None
        lo.append(a)
        hi.append(b)
        bl = a if a is not None else (b - 4 if b is not None else Fraction(-2))
        bh = b if b is not None else bl + 4
        x0.append(bl + (bh - bl) * Fraction(rng.randrange(0, 9), 8))
        if i > 0 and same_scale:
            ref.append(ref[0])
            ref0.append(ref0[0])
        else:
            r0 = Fraction(rng.randrange(-16, 17), 4) if rng.random() < 0.7 else Fraction(0)
            if dyadic_scale:
                s = Fraction(2) ** rng.randrange(-2, 3)
            else:
                s = Fraction(rng.randrange(1, 25), rng.choice([2, 4, 8]))
            if rng.random() < neg_bias:
                s = -s
            ref.append(r0 + s)
            ref0.append(r0)
    if same_bounds and pattern == 'mixed':
        pass
    c = {'kind': kind, 'method': method, 'ls': ls, 'x0': [Q(v) for v in x0],
         'lower': bspec(rng, lo), 'upper': bspec(rng, hi),
         'ref': None if all(r == 1 for r in ref) and rng.random() < 0.5 else bspec(rng, ref),
         'ref0': None if all(r == 0 for r in ref0) and rng.random() < 0.5 else bspec(rng, ref0)}
    if c['ref'] is None and any(r != 1 for r in ref):
        c['ref'] = bspec(rng, ref)
    if c['ref0'] is None and any(r != 0 for r in ref0):
        c['ref0'] = bspec(rng, ref0)
    if c['lower'] is None and c['upper'] is None:
        c['lower'] = ['s', Q(min(x0) - 1)]
    return c, lo, hi, ref, ref0


def per_entry(v, n, default=None):
    if v is None:
        return [default] * n
    if v[0] == 's':
        return [F(v[1])] * n
    return [None if x is None else F(x) for x in v[1]]


class C10(Spec):
    pid = 'C10'
    imports = ['C10.Model']
    impl_script = 'props/C10/impl.py'
    exactness = ('E2 rational-exact (real kernels on Fraction object arrays); E3 dyadic-exact for _setup_solvers and the '
                 'lower_bounds/upper_bounds None paths; whole Newton runs: oracle with 1e-9 relative tolerance')
    shard = 2500
    impl_jobs = 4
    rule = ('kernel cases: random lengths 1..5, bound patterns (missing arrays, infinite entries, degenerate and reversed '
            'intervals), starts inside and on the bounds, steps landing on / crossing / away from the bounds, zero steps, '
            'rational alpha, x 3 methods; perturbed cases: an entry on its bound with a tiny outward step whose u is not exactly '
            'u0 + alpha*du (rounding); setup cases: scalar/array lower/upper/ref/ref0 with ref<ref0 and negative ref; '
            'exact first-Newton-iteration cases (dyadic data, +-2^j scaling, scalar/wall, BoundsEnforceLS and ArmijoGoldsteinLS with alpha in {1,1/2,1/4}); Newton cases: linear and cubic bounded implicit components x 2 line-search classes x 3 methods x random scalings; '
            'non-trivial = at least one entry changed by the enforcement')
    assumptions = ['kernels are run on Fraction object arrays through a duck-typed vector (add_scal_vec, *=, +=, asarray)',
                   'single process; print_bound_enforce off']

    def gen(self, tier, rng):
        cases = []
        quick = tier == 'quick'
        # exhaustive small kernel domain: 1 entry, values on a grid
        grid = [Fraction(k, 2) for k in range(-4, 5)]
        for method in METHODS:
            for lo, hi in [(None, None), (Fraction(-1), None), (None, Fraction(1)), (Fraction(-1), Fraction(1)), (Fraction(1, 2), Fraction(1, 2))]:
                for u0 in grid:
                    if (lo is not None and u0 < lo) or (hi is not None and u0 > hi):
                        continue
                    for du in grid:
                        for alpha in (Fraction(1), Fraction(1, 2)):
                            for wrap in ((True, True), (False, True), (True, False)):
                                # wrap: pass the lower / upper array (else None when it carries no bound)
                                if (not wrap[0] and lo is not None) or (not wrap[1] and hi is not None):
                                    continue
                                if not wrap[0] and not wrap[1]:
                                    continue
                                cases.append({'kind': 'kernel', 'method': method, 'alpha': Q(alpha), 'u0': [Q(u0)], 'du': [Q(du)],
                                              'lo': [None if lo is None else Q(lo)] if wrap[0] else None,
                                              'hi': [None if hi is None else Q(hi)] if wrap[1] else None})
        nk = 6000 if quick else 100000
        for i in range(nk):
            method = METHODS[i % 3]
            n = rng.choice([1, 2, 2, 3, 3, 4, 5])
            k = rng.random()
            dy = rng.random() < 0.5
            if k < 0.8:
                c = kernel_case(rng, n, method, dy)
            elif k < 0.9:
                c = kernel_case(rng, n, method, dy, in_bounds=False)
            else:
                c = kernel_case(rng, n, method, dy, reversed_bounds=True)
            if (c['lo'] is None or c['hi'] is None) and not dy:
                # the None paths put a float 0. into the arithmetic: keep those cases dyadic (E3)
                c = kernel_case(rng, n, method, True)
            cases.append(c)
        for i in range(600 if quick else 8000):
            cases.append(perturbed_case(rng, rng.choice([2, 3, 4]), METHODS[i % 3]))
        # _setup_solvers
        for i in range(250 if quick else 3000):
            c, *_ = comp_case(rng, 'setup', rng.choice([1, 2, 3]), True, 'scalar', 'BE')
            cases.append(c)
        # whole Newton iterations
        for i in range(360 if quick else 6000):
            method = METHODS[i % 3]
            ls = 'AG' if (i // 3) % 2 else 'BE'
            n = rng.choice([1, 1, 2, 3])
            c, lo, hi, ref, ref0 = comp_case(rng, 'newton', n, rng.random() < 0.5, method, ls)
            # residual A x - b + cub x^3 with a target well outside / inside the bounds
            tgt = [Fraction(rng.randrange(-40, 41), 2) for _ in range(n)]
            if rng.random() < 0.6:
                A = [[Fraction(1 if r == k else 0) for k in range(n)] for r in range(n)]
            else:
                A = [[Fraction(rng.randrange(-2, 3), 2) + (3 if r == k else 0) for k in range(n)] for r in range(n)]
            b = [sum(A[r][k] * tgt[k] for k in range(n)) for r in range(n)]
            c['A'] = [[Q(v) for v in row] for row in A]
            c['b'] = [Q(v) for v in b]
            c['cub'] = rng.choice([0.0, 0.0, 0.125])
            c['maxiter'] = 3
            if ls == 'AG':
                c['alpha'] = rng.choice([1.0, 1.0, 0.5])
                c['rho'] = rng.choice([0.5, 0.25])
                c['ls_maxiter'] = rng.choice([1, 3])
            cases.append(c)
        # first Newton iteration, exact: dyadic data, scaling by +-2^j, residual x - t (identity jacobian),
        # res_ref = 1: every float operation is exact, the physical outputs must equal the model's phys_update
        for i in range(400 if quick else 6000):
            method = ('scalar', 'wall')[i % 2]
            ls = 'AG' if (i // 2) % 2 else 'BE'
            n = rng.choice([1, 2, 3])
            c, lo, hi, ref, ref0 = comp_case(rng, 'newton', n, True, method, ls)
            tgt = [Fraction(rng.randrange(-40, 41), 2) for _ in range(n)]
            c['A'] = [[Q(1 if r == k else 0) for k in range(n)] for r in range(n)]
            c['b'] = [Q(v) for v in tgt]
            c['cub'] = 0.0
            c['maxiter'] = 1
            c['res_ref'] = 1.0
            c['exact'] = True
            if ls == 'AG':
                c['alpha'] = rng.choice([1.0, 0.5, 0.25])
                c['ls_maxiter'] = 0
            cases.append(c)
        return cases

    def search_gen(self, tier, rng):
        return self.gen(tier, rng)

    def compare_case(self, c, res):
        return (c['kind'] in ('kernel', 'setup') or c.get('exact')) and res.get('res', '__none__') != '__none__'

    def got_term(self, c):
        if c['kind'] == 'kernel':
            alpha = F(c['alpha'])
            n = len(c['u0'])
            lo = c['lo'] or [None] * n
            hi = c['hi'] or [None] * n
            ents = []
            for i in range(n):
                u = F(c['u'][i]) if 'u' in c else F(c['u0'][i]) + alpha * F(c['du'][i])
                ents.append('(mkent %s %s %s %s)' % (qlit(u), qlit(F(c['du'][i])), oq(lo[i]), oq(hi[i])))
            return '(run_kernel %s %s [%s])' % (MCTOR[c['method']], qlit(alpha), '; '.join(ents))
        if c['kind'] == 'setup':
            n = len(c['x0'])
            lo, hi = per_entry(c['lower'], n), per_entry(c['upper'], n)
            ref, ref0 = per_entry(c['ref'], n, Fraction(1)), per_entry(c['ref0'], n, Fraction(0))
            f = lambda v: 'None' if v is None else '(Some %s)' % qlit(v)
            return '(VL [%s])' % '; '.join('(run_setup true %s %s %s %s)' % (qlit(ref[i]), qlit(ref0[i]), f(lo[i]), f(hi[i]))
                                           for i in range(n))
        if c['kind'] == 'newton' and c.get('exact'):
            n = len(c['x0'])
            lo, hi = per_entry(c['lower'], n), per_entry(c['upper'], n)
            ref, ref0 = per_entry(c['ref'], n, Fraction(1)), per_entry(c['ref0'], n, Fraction(0))
            f = lambda v: 'None' if v is None else '(Some %s)' % qlit(v)
            alpha = Fraction(c.get('alpha', 1.0)) if c['ls'] == 'AG' else Fraction(1)
            ps = []
            for i in range(n):
                x0 = F(c['x0'][i])
                step = F(c['b'][i]) - x0          # Newton step of the residual x - t
                ps.append('(mkpent %s %s %s %s %s %s)' % (qlit(x0), qlit(step), f(lo[i]), f(hi[i]), qlit(ref[i]), qlit(ref0[i])))
            return '(vqs (phys_update %s %s [%s]))' % (MCTOR[c['method']], qlit(alpha), '; '.join(ps))
        raise ValueError(c['kind'])

    def nontrivial(self, c, res):
        return True

    def shrink(self, c):
        if c['kind'] == 'kernel':
            n = len(c['u0'])
            if n > 1:
                for i in range(n):
                    d = dict(c)
                    for k in ('u0', 'du', 'lo', 'hi', 'u'):
                        if d.get(k) is not None:
                            d[k] = d[k][:i] + d[k][i + 1:]
                    yield d
        elif c['kind'] == 'newton':
            if c.get('cub'):
                yield dict(c, cub=0.0)
            if c.get('maxiter', 3) > 1:
                yield dict(c, maxiter=1)
            if c['ls'] == 'AG':
                yield dict(c, ls='BE')


def main(tier):
    return standard_check(C10(), tier)
