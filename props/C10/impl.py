"""C10 implementation side.

kind 'kernel' : the three REAL kernels _enforce_bounds_vector/_scalar/_wall of /repo run exactly on
                dtype=object arrays of fractions.Fraction through a small duck-typed vector (E2).
kind 'setup'  : LinesearchSolver._setup_solvers of a real Newton + line search on a real bounded implicit
                component: the scaled bound arrays it stores (E3, dyadic data).
kind 'newton' : whole Newton iterations of the real solver on a real bounded implicit component with
                ref/ref0 scaling; outputs observed (physical units) after every Newton iteration.
"""
import warnings
from fractions import Fraction
import numpy as np

warnings.simplefilter('ignore')
import openmdao.api as om  # noqa: E402
from openmdao.solvers.linesearch import backtracking as bt  # noqa: E402
from implutil import main, q  # noqa: E402

np.seterr(all='ignore')
KERNELS = {'vector': bt._enforce_bounds_vector, 'scalar': bt._enforce_bounds_scalar, 'wall': bt._enforce_bounds_wall}
NINF, PINF = float('-inf'), float('inf')


def fr(x):
    return Fraction(int(x[0]), int(x[1]))


class FVec(object):
    """The part of the Vector interface the kernels use, over an object array of Fractions."""

    def __init__(self, vals):
        self.a = np.array(list(vals) + [None], dtype=object)[:-1]

    def asarray(self):
        return self.a

    def add_scal_vec(self, alpha, vec):
        self.a += alpha * vec.a

    def __imul__(self, s):
        self.a *= s
        return self

    def __iadd__(self, arr):
        self.a += arr
        return self


def barr(b, inf):
    if b is None:
        return None
    return np.array([inf if x is None else fr(x) for x in b] + [None], dtype=object)[:-1]


def inb(x, lo, hi):
    return (lo is None or lo <= x) and (hi is None or x <= hi)


def between(a, b, x):
    return (a <= x <= b) or (b <= x <= a)


def do_kernel(c):
    alpha = fr(c['alpha'])
    u0 = [fr(x) for x in c['u0']]
    du0 = [fr(x) for x in c['du']]
    n = len(u0)
    # 'u' (optional): the value the kernel is handed instead of the exact u0 + alpha*du - the situation after
    # rounding (u = fl(u0 + alpha du)); the property is still judged against the true start u0
    perturbed = 'u' in c
    ufull = [fr(x) for x in c['u']] if perturbed else [a + alpha * d for a, d in zip(u0, du0)]
    u = FVec(ufull)
    du = FVec(du0)
    lower, upper = barr(c['lo'], NINF), barr(c['hi'], PINF)
    KERNELS[c['method']](u, du, alpha, lower, upper)
    u1, du1 = list(u.a), list(du.a)
    res = [[q(v) for v in u1], [q(v) for v in du1]]
    # ---- oracle: from a start within the bounds, the enforced point (and every later backtracking point
    # u1 + (t - alpha) du1, 0 <= t <= alpha) is within the bounds and between the start and the full step
    los = [None if (c['lo'] is None or x is None) else fr(x) for x in (c['lo'] or [None] * n)]
    his = [None if (c['hi'] is None or x is None) else fr(x) for x in (c['hi'] or [None] * n)]
    ok, msg, sig = True, '', ''
    if all(inb(u0[i], los[i], his[i]) for i in range(n)):
        for t in [alpha] + [alpha * Fraction(k, 4) for k in (2, 1, 0)]:
            for i in range(n):
                w = Fraction(u1[i]) + (t - alpha) * Fraction(du1[i])
                full = ufull[i]
                if not inb(w, los[i], his[i]) and not perturbed:
                    ok, sig = False, 'kernel-out-of-bounds:' + c['method']
                    msg = '_enforce_bounds_%s: entry %d = %s (step length %s) outside [%s, %s]; start %s, step %s, alpha %s' % (
                        c['method'], i, w, t, los[i], his[i], u0[i], du0[i], alpha)
                elif not between(u0[i], full, w):
                    ok, sig = False, 'kernel-not-along-step:' + c['method']
                    msg = '_enforce_bounds_%s: entry %d = %s (step length %s) is not between start %s and full step %s' % (
                        c['method'], i, w, t, u0[i], full)
                if not ok:
                    break
            if not ok:
                break
    return {'res': res, 'ok': ok, 'msg': msg, 'sig': sig, 'kind': ('kernel-perturbed:' if perturbed else 'kernel:') + c['method']}


# ------------------------------------------------------------------ real components

class BoundedImplicit(om.ImplicitComponent):
    """R(x) = A x - b + c * x**3 (elementwise cube) with bounds and ref/ref0 scaling on x."""

    def initialize(self):
        self.options.declare('A')
        self.options.declare('b')
        self.options.declare('cub', default=0.0)
        self.options.declare('x0')
        self.options.declare('okw')

    def setup(self):
        o = self.options
        self.add_output('x', val=np.array(o['x0'], dtype=float), **o['okw'])
        self.declare_partials('x', 'x')

    def apply_nonlinear(self, inputs, outputs, residuals):
        o = self.options
        x = outputs['x']
        residuals['x'] = o['A'].dot(x) - o['b'] + o['cub'] * x ** 3

    def linearize(self, inputs, outputs, partials):
        o = self.options
        partials['x', 'x'] = o['A'] + np.diag(3.0 * o['cub'] * outputs['x'] ** 2)


def fl(x):
    return None if x is None else float(Fraction(int(x[0]), int(x[1])))


def bound_arg(b, n):
    """case encoding: None | ['s', q] scalar | ['a', [q or None ...]] array (None entry = infinite)"""
    if b is None:
        return None
    if b[0] == 's':
        return fl(b[1])
    return b[1]


def build(c):
    n = len(c['x0'])
    okw = {}
    for key, inf in (('lower', NINF), ('upper', PINF)):
        b = c[key]
        if b is None:
            continue
        if b[0] == 's':
            okw[key] = fl(b[1])
        else:
            okw[key] = np.array([inf if x is None else fl(x) for x in b[1]])
    for key in ('ref', 'ref0'):
        r = c[key]
        if r is None:
            continue
        okw[key] = fl(r[1]) if r[0] == 's' else np.array([fl(x) for x in r[1]])
    if c.get('res_ref') is not None:
        okw['res_ref'] = float(c['res_ref'])
    A = np.array([[fl(v) for v in row] for row in c['A']]) if 'A' in c else np.eye(n)
    b = np.array([fl(v) for v in c['b']]) if 'b' in c else np.zeros(n)
    p = om.Problem()
    comp = p.model.add_subsystem('c', BoundedImplicit(A=A, b=b, cub=float(c.get('cub', 0.0)),
                                                      x0=[fl(v) for v in c['x0']], okw=okw))
    nl = comp.nonlinear_solver = om.NewtonSolver(solve_subsystems=False, maxiter=int(c.get('maxiter', 3)),
                                                 atol=1e-300, rtol=1e-300, iprint=-1)
    comp.linear_solver = om.DirectSolver()
    if c['ls'] == 'AG':
        nl.linesearch = om.ArmijoGoldsteinLS(bound_enforcement=c['method'], alpha=float(c.get('alpha', 1.0)),
                                             rho=float(c.get('rho', 0.5)), c=float(c.get('c', 0.1)),
                                             maxiter=int(c.get('ls_maxiter', 3)), iprint=-1)
    else:
        nl.linesearch = om.BoundsEnforceLS(bound_enforcement=c['method'], iprint=-1)
    p.setup()
    p.set_solver_print(-1)
    p.final_setup()
    return p, comp, nl


def per_entry(v, n):
    if v is None:
        return [None] * n
    if v[0] == 's':
        return [fr(v[1])] * n
    return [None if x is None else fr(x) for x in v[1]]


def do_setup(c):
    n = len(c['x0'])
    p, comp, nl = build(c)
    ls = nl.linesearch
    lo, hi = ls._lower_bounds, ls._upper_bounds
    res = []
    for i in range(n):
        a = None if lo is None or lo[i] == NINF else q(lo[i])
        b = None if hi is None or hi[i] == PINF else q(hi[i])
        res.append([a, b])
    # ---- oracle: a physical value is within [lower, upper] iff its scaled image is within the stored arrays
    L, U = per_entry(c['lower'], n), per_entry(c['upper'], n)
    ref = per_entry(c['ref'], n) if c['ref'] is not None else [Fraction(1)] * n
    ref0 = per_entry(c['ref0'], n) if c['ref0'] is not None else [Fraction(0)] * n
    ok, msg, sig = True, '', ''
    for i in range(n):
        pts = set()
        for b in (L[i], U[i]):
            if b is not None:
                pts.update([b, b - 1, b + 1, b - Fraction(1, 8), b + Fraction(1, 8)])
        pts.add(Fraction(0))
        slo = NINF if lo is None else lo[i]
        shi = PINF if hi is None else hi[i]
        for x in sorted(pts):
            s = (x - ref0[i]) / (ref[i] - ref0[i])
            phys_in = inb(x, L[i], U[i])
            sc_in = (slo <= s) and (s <= shi)
            if phys_in != sc_in:
                ok, sig = False, 'scaled-bounds-reversed' if ref[i] - ref0[i] < 0 else 'scaled-bounds-wrong'
                msg = ('entry %d: lower=%s upper=%s ref=%s ref0=%s: stored scaled bounds [%s, %s]; physical x=%s is %s the '
                       'declared bounds but its scaled value %s is %s the stored ones' % (
                           i, L[i], U[i], ref[i], ref0[i], slo, shi, x, 'within' if phys_in else 'outside', s,
                           'within' if sc_in else 'outside'))
                break
        if not ok:
            break
    return {'res': res, 'ok': ok, 'msg': msg, 'sig': sig, 'kind': 'setup'}


def do_newton(c):
    n = len(c['x0'])
    p, comp, nl = build(c)
    ls = nl.linesearch
    L = [None if v is None else float(v) for v in per_entry(c['lower'], n)]
    U = [None if v is None else float(v) for v in per_entry(c['upper'], n)]
    ref = [float(v) for v in (per_entry(c['ref'], n) if c['ref'] is not None else [Fraction(1)] * n)]
    ref0 = [float(v) for v in (per_entry(c['ref0'], n) if c['ref0'] is not None else [Fraction(0)] * n)]
    scale = np.array(ref) - np.array(ref0)
    log = []          # per Newton iteration: (x_before, newton_step_phys, x_after)
    state = {}
    real_ls_solve = ls._solve
    real_single = nl._single_iteration

    def phys():
        # the root vectors are in scaled mode inside the solver
        return np.array(ref0) + comp._outputs.asarray().copy() * scale

    def ls_solve():
        state['step'] = comp._doutputs.asarray().copy() * scale
        return real_ls_solve()

    def single():
        x0 = phys()
        state.pop('step', None)
        real_single()
        log.append((x0, state.get('step'), phys()))

    ls._solve = ls_solve
    nl._single_iteration = single
    err = None
    try:
        p.run_model()
    except Exception as e:   # singular matrix etc.: not what this property is about
        err = e
    ok, msg, sig = True, '', ''
    tol = 1e-9
    desc = 'ls=%s method=%s lower=%s upper=%s ref=%s ref0=%s x0=%s' % (c['ls'], c['method'], L, U, ref, ref0, [fl(v) for v in c['x0']])
    for it, (x0, step, x1) in enumerate(log):
        if step is None or not np.all(np.isfinite(step)) or not np.all(np.isfinite(x1)):
            break
        for i in range(n):
            t = tol * max(1.0, abs(x1[i]), abs(x0[i]), abs(step[i]))
            if (L[i] is not None and x1[i] < L[i] - t) or (U[i] is not None and x1[i] > U[i] + t):
                ok, sig = False, 'newton-out-of-bounds:' + c['method']
                msg = 'after Newton iteration %d output[%d]=%r is outside [%s, %s] (before %r, Newton step %r): %s' % (
                    it + 1, i, float(x1[i]), L[i], U[i], float(x0[i]), float(step[i]), desc)
                break
            d = x1[i] - x0[i]
            if d * step[i] < -t * max(1.0, abs(step[i])) or (abs(step[i]) <= t and abs(d) > t) or abs(d) > abs(step[i]) + t:
                ok, sig = False, 'newton-not-along-step:' + c['method']
                msg = 'Newton iteration %d moved output[%d] by %r while its Newton step is %r (before %r, after %r): %s' % (
                    it + 1, i, float(d), float(step[i]), float(x0[i]), float(x1[i]), desc)
                break
        if not ok:
            break
    kind = 'newton:%s:%s:%s' % (c['ls'], c['method'], 'negscale' if np.any(scale < 0) else 'posscale')
    if err is not None and not log:
        kind += ':no-iteration'
    res = '__none__'
    if c.get('exact') and err is None:
        # dyadic data, power-of-two scaling, identity jacobian: every float operation of the iteration is exact;
        # the physical outputs (through the public API) are compared exactly with the model's phys_update
        res = [q(v) for v in np.asarray(p.get_val('c.x')).ravel()]
        kind += ':exact'
    return {'res': res, 'ok': ok, 'msg': msg, 'sig': sig, 'kind': kind}


def handle(c):
    if c['kind'] == 'kernel':
        return do_kernel(c)
    if c['kind'] == 'setup':
        return do_setup(c)
    return do_newton(c)


if __name__ == '__main__':
    main(handle)
