"""C02 implementation side: the real DefaultTransfer._transfer, Group._transfer, run_apply_linear (components,
group matrix-free and assembled, whole model), run_solve_linear and compute_jacvec_product, driven in fwd and rev
on integer data.

Oracle (the property's text): <w, J v> == <J^T w, v> exactly for every operator driven (dot products of small
integers / dyadics are exact in binary64)."""
import importlib.util
import os
import warnings
import numpy as np
from implutil import main, q

warnings.simplefilter('ignore')
_here = os.path.dirname(os.path.abspath(__file__))
_spec = importlib.util.spec_from_file_location('c11impl', os.path.join(_here, '..', 'C11', 'impl.py'))
c11 = importlib.util.module_from_spec(_spec)
_spec.loader.exec_module(c11)
import openmdao.api as om  # noqa: E402

warnings.filterwarnings('ignore')
Fail, qv, same = c11.Fail, c11.qv, c11.same


def set_vals(case, comps):
    up = case['updates'][0]
    for n in case['comps']:
        sz = {v['name']: v['size'] for v in n['inputs'] + n['outputs']}
        comps[n['name']].cur = {
            (pp['of'], pp['wrt']): c11.mk_val(pp, sz[pp['of']], sz[pp['wrt']],
                                              up['vals']['%s:%s:%s' % (n['name'], pp['of'], pp['wrt'])], False)
            for pp in n['partials']}


def dotx(a, b):
    return float(np.dot(np.asarray(a, dtype=float), np.asarray(b, dtype=float)))


def identity(name, lhs, rhs):
    if lhs != rhs:
        raise Fail('adjoint-' + name.split()[0], '%s: <w, J v> = %r but <J^T w, v> = %r' % (name, lhs, rhs))


def mk_solver(name):
    if name in ('direct', 'direct_asm'):
        return lambda: om.DirectSolver(assemble_jac=(name == 'direct_asm'))
    if name == 'lbgs':
        return lambda: om.LinearBlockGS(maxiter=60, atol=1e-15, rtol=1e-15, iprint=-1)
    if name in ('krylov', 'krylov_asm'):
        return lambda: om.ScipyKrylov(assemble_jac=(name == 'krylov_asm'), atol=1e-15, rtol=1e-15, maxiter=500, iprint=-1)
    return lambda: om.LinearRunOnce()


def close(a, b, tol):
    a, b = np.asarray(a, dtype=float), np.asarray(b, dtype=float)
    return a.shape == b.shape and bool(np.all(np.abs(a - b) <= tol * np.maximum(1.0, np.maximum(np.abs(a), np.abs(b)))))


def handle_solve(case):
    """run_solve_linear on the group in fwd and rev: M x = b, M^T y = c (M = physical d(residuals)/d(outputs) of
    the group, taken from an assembled twin), and <c, x> == <y, b>."""
    name = case['solver']
    asm = name.endswith('_asm')
    probs = {m: c11.build(case, 'csc' if asm else None, m, solver=mk_solver(name)) for m in ('fwd', 'rev')}
    twin = c11.build(case, 'csc', 'fwd')
    for p, g, comps in list(probs.values()) + [twin]:
        set_vals(case, comps)
        p.model.run_linearize()
    M = np.array(twin[1]._get_jacobian()._dr_do_mtx.todense())
    # LinearRunOnce only scales, copies and adds: exact in binary64 iff every scale factor is a power of two
    # (the default res_ref is ref, which need not be one); otherwise the scaled arithmetic rounds
    g0 = probs['fwd'][1]
    facs = np.concatenate([np.abs(np.asarray(a, dtype=float)).ravel()
                           for v in (g0._doutputs, g0._dresiduals, g0._dinputs, g0._outputs, g0._residuals, g0._inputs)
                           if v._scaling is not None for a in v._scaling if a is not None] or [np.ones(1)])
    nz = facs[facs != 0]
    pow2 = bool(np.all(np.frexp(nz)[0] == 0.5))
    tol = (0.0 if pow2 else 1e-12) if name == 'runonce' else 1e-9
    n = M.shape[0]
    rng = np.random.RandomState(n * 31 + len(case['v_in']))
    b, c = rng.randint(-4, 5, n).astype(float), rng.randint(-4, 5, n).astype(float)
    desc = 'run_solve_linear under %s' % name
    try:
        gf, gr = probs['fwd'][1], probs['rev'][1]
        gf._dresiduals.set_val(b)
        gf._doutputs.set_val(0.0)
        gf.run_solve_linear('fwd')
        x = gf._doutputs.asarray().copy()
        gr._doutputs.set_val(c)
        gr._dresiduals.set_val(0.0)
        gr.run_solve_linear('rev')
        y = gr._dresiduals.asarray().copy()
        if not close(M @ x, b, max(tol, 0.0)):
            raise Fail('solve-fwd', '%s (fwd): M x = %r for the right-hand side b = %r (x = %r)' % (
                desc, (M @ x).tolist(), b.tolist(), x.tolist()))
        if not close(M.T @ y, c, max(tol, 0.0)):
            raise Fail('solve-rev', '%s (rev): M^T y = %r for the right-hand side c = %r (y = %r)' % (
                desc, (M.T @ y).tolist(), c.tolist(), y.tolist()))
        lhs, rhs = dotx(c, x), dotx(y, b)
        if not close(lhs, rhs, tol):
            raise Fail('adjoint-solve', '%s: <c, M^-1 b> = %r but <M^-T c, b> = %r' % (desc, lhs, rhs))
    except Fail as f:
        return {'res': '__none__', 'ok': False, 'msg': f.msg, 'sig': 'C02:' + f.sig, 'kind': 'solve:' + name}
    res, aux = '__none__', None
    if name == 'direct' and pow2:
        # the matrix DirectSolver factorises (identity columns through _apply_linear in the scaled state):
        # compared exactly with the model's  Dr^-1 M Du  (all scale factors are powers of two here)
        Ms = np.array(probs['fwd'][1].linear_solver._build_mtx())
        res = [qv(row) for row in Ms]
        aux = {'drdo': [[k[0][2:], k[1][2:]] for k in twin[1]._get_jacobian()._dr_do_subjacs]}
    out = {'res': res, 'ok': True, 'msg': '', 'sig': '', 'kind': 'solve:' + name + (':pow2' if pow2 else '')}
    if aux is not None:
        out['aux'] = aux
    return out


class LinMap(om.ExplicitComponent):
    """y = A x with constant dense partials"""
    def __init__(self, A):
        super().__init__()
        self.A = np.atleast_2d(np.array(A, dtype=float))

    def setup(self):
        self.add_input('x', np.ones(self.A.shape[1]))
        self.add_output('y', np.ones(self.A.shape[0]))
        self.declare_partials('y', 'x', val=self.A)

    def compute(self, inputs, outputs):
        outputs['y'] = self.A @ inputs['x']


def build_rhs(case, mode, rhs):
    """ext -> g (solver with rhs_checking) -> rA: yA = A g_out -> rB: yB = k yA -> rC: yC = k2 yB, all responses"""
    name = case['solver']
    p = om.Problem()
    ivc = p.model.add_subsystem('ext', om.IndepVarComp())       # design variables must be IndepVarComp outputs
    for e in case['ext']:
        ivc.add_output(e['name'], np.ones(e['size']), units=e['units'])
    g = p.model.add_subsystem('g', om.Group())
    comps = {}
    for n in case['comps']:
        comps[n['name']] = g.add_subsystem(n['name'], (c11.IComp if n['implicit'] else c11.EComp)(n))
    for n in case['comps']:
        for i in n['inputs']:
            if i['src'] is None:
                continue
            src = i['src'] if i['src'].startswith('ext.') else 'g.' + i['src']
            p.model.connect(src, 'g.%s.%s' % (n['name'], i['name']), src_indices=i['src_indices'])
    kw = {} if rhs is None else {'rhs_checking': dict(rhs) if isinstance(rhs, dict) else bool(rhs)}
    if name.startswith('direct'):
        g.linear_solver = om.DirectSolver(assemble_jac=name.endswith('_asm'), **kw)
    else:
        g.linear_solver = om.ScipyKrylov(atol=1e-15, rtol=1e-15, maxiter=500, iprint=-1, **kw)
    r = case['resp']
    fq = lambda x: float(c11.Fraction(*x['q'])) if isinstance(x, dict) else float(x)
    m = len(r['A'])
    p.model.add_subsystem('rA', LinMap(r['A']))
    p.model.connect('g.' + r['src'], 'rA.x')
    p.model.add_subsystem('rB', LinMap(fq(r['k']) * np.eye(m)))
    p.model.connect('rA.y', 'rB.x')
    of = ['rA.y', 'rB.y']
    if r['k2'] is not None:
        p.model.add_subsystem('rC', LinMap(fq(r['k2']) * np.eye(m)))
        p.model.connect('rB.y', 'rC.x')
        of.append('rC.y')
    wrt = ['ext.' + e['name'] for e in case['ext']]
    for w in wrt:
        p.model.add_design_var(w)
    for o in of:
        p.model.add_constraint(o, upper=0.0)
    p.setup(mode=mode)
    set_vals(case, comps)
    p.run_model()
    return p, of, wrt


def handle_rhs(case):
    """rev totals with the linear-solution cache == fwd totals (each entry is <e_i, J e_j> = <J^T e_i, e_j>)"""
    from openmdao.solvers.linear.linear_rhs_checker import LinearRHSChecker
    hits = [0]
    orig = LinearRHSChecker.get_solution

    def counting(self, rhs_arr, system):
        sol, z = orig(self, rhs_arr, system)
        if sol is not None or z:
            hits[0] += 1
        return sol, z
    LinearRHSChecker.get_solution = counting
    try:
        pf, of, wrt = build_rhs(case, 'fwd', None)
        Jf = pf.compute_totals(of=of, wrt=wrt, return_format='array')
        pr, of, wrt = build_rhs(case, 'rev', case['rhs_checking'])
        Jr = pr.compute_totals(of=of, wrt=wrt, return_format='array')
        Jr2 = pr.compute_totals(of=of, wrt=wrt, return_format='array')      # second call: cache was reset
    finally:
        LinearRHSChecker.get_solution = orig
    kind = 'rhs:%s:%s' % (case['solver'], 'hit' if hits[0] else 'nohit')
    for nm, J in (('first', Jr), ('second', Jr2)):
        if not close(J, Jf, 1e-9):
            return {'res': '__none__', 'ok': False, 'sig': 'C02:rhs-cache-totals', 'kind': kind,
                    'msg': 'reverse totals with rhs_checking=%r under %s (%s compute_totals, %d cache hits) are %r, '
                           'forward totals are %r: <w, J v> != <J^T w, v>' % (
                               case['rhs_checking'], case['solver'], nm, hits[0], J.tolist(), Jf.tolist())}
    return {'res': '__none__', 'ok': True, 'msg': '', 'sig': '', 'kind': kind}


def handle(case):
    if case['kind'] == 'solve':
        return handle_solve(case)
    if case['kind'] == 'rhs':
        return handle_rhs(case)
    probs = {m: c11.build(case, None, m) for m in ('fwd', 'rev')}
    asm = {m: c11.build(case, 'csc', m) for m in ('fwd', 'rev')}
    for p, g, comps in list(probs.values()) + list(asm.values()):
        set_vals(case, comps)
        p.model.run_linearize()
    gf, gr = probs['fwd'][1], probs['rev'][1]
    nout, nin = len(gf._outputs), len(gf._inputs)
    v_out, v_in = np.array(case['v_out'], dtype=float), np.array(case['v_in'], dtype=float)
    w_in, w_out = np.array(case['w_in'], dtype=float), np.array(case['w_out'], dtype=float)
    if len(v_out) != nout or len(v_in) != nin:
        raise RuntimeError('layout size differs from the generator\'s')
    in_rng = {nm[2:]: (s, e) for nm, s, e in gf._dinputs.ranges()}
    out_rng = {nm[2:]: (s, e) for nm, s, e in gf._doutputs.ranges()}
    internal = np.zeros(nin, dtype=bool)
    pairs = set()
    for n in case['comps']:
        for i in n['inputs']:
            if i['src'] is not None and not i['src'].startswith('ext.'):
                s, e = in_rng['%s.%s' % (n['name'], i['name'])]
                internal[s:e] = True
                so = out_rng[i['src']][0]
                idx = i['src_indices'] if i['src_indices'] is not None else list(range(i['size']))
                for k in range(i['size']):
                    pairs.add((s + k, so + idx[k]))
    aux = {'xfers': [], 'gx': None}
    res_x, res_gx, res_comp, res_grp = [], None, [], None
    ok, msg, sig = True, '', ''
    try:
        # ---- 1. raw transfers (full and per-subsystem), fwd object from the fwd problem, rev from the rev problem
        xf, xr = gf._transfers['fwd'], gr._transfers['rev']
        allpairs = set()
        for key in sorted(xf, key=lambda k: (k is not None, str(k))):
            tf = xf[key]
            if tf is None:
                continue
            ii, oi = [int(x) for x in tf._in_inds], [int(x) for x in tf._out_inds]
            if key is None:
                allpairs = set(zip(ii, oi))
            aux['xfers'].append({'in': ii, 'out': oi, 'key': key})
            # fwd through the real object
            vin, vout = gf._vectors['input']['linear'], gf._vectors['output']['linear']
            vin.set_val(v_in)
            vout.set_val(v_out)
            tf._transfer(vin, vout, 'fwd')
            r_f = vin.asarray().copy()
            # rev through the real object with the same index arrays
            vin.set_val(w_in)
            vout.set_val(v_out)
            tf._transfer(vin, vout, 'rev')
            r_r = vout.asarray().copy()
            res_x.append([qv(r_f), qv(r_r)])
            # identity from zero initial vectors
            vin.set_val(0.0)
            vout.set_val(v_out)
            tf._transfer(vin, vout, 'fwd')
            lhs = dotx(w_in, vin.asarray())
            vin.set_val(w_in)
            vout.set_val(0.0)
            tf._transfer(vin, vout, 'rev')
            identity('transfer %r' % (key,), lhs, dotx(vout.asarray(), v_out))
        if allpairs != pairs:
            raise RuntimeError('transfer index pairs differ from the generated connections: %r vs %r' % (
                sorted(allpairs), sorted(pairs)))
        # the rev problem's reverse transfers move the same pairs
        tr = xr.get(None)
        if (tr is None) != (xf.get(None) is None):
            raise Fail('transfer-rev-missing', 'reverse transfer object missing')
        if tr is not None and set(zip([int(x) for x in tr._in_inds], [int(x) for x in tr._out_inds])) != pairs:
            raise Fail('transfer-rev-pairs', 'reverse transfer moves %r, forward moves %r' % (
                sorted(zip(tr._in_inds.tolist(), tr._out_inds.tolist())), sorted(pairs)))
        # ---- 2. Group._transfer (unit scaling around the transfer)
        tf = xf.get(None)
        if tf is not None:
            lin = gf._vectors['input']['linear']
            sc = lin._scaling[0] if (tf._has_input_scaling and lin._scaling is not None) else np.ones(nin)
            aux['gx'] = {'in': [int(x) for x in tf._in_inds], 'out': [int(x) for x in tf._out_inds],
                         'sc': [q(float(x)) for x in sc]}
            gf._dinputs.set_val(v_in)
            gf._doutputs.set_val(v_out)
            gf._transfer('linear', 'fwd')
            a = gf._dinputs.asarray().copy()
            gr._dinputs.set_val(w_in)
            gr._doutputs.set_val(v_out)
            gr._transfer('linear', 'rev')
            res_gx = [qv(a), qv(gr._doutputs.asarray()), qv(gr._dinputs.asarray())]
            gf._dinputs.set_val(0.0)
            gf._doutputs.set_val(v_out)
            gf._transfer('linear', 'fwd')
            lhs = dotx(w_in, gf._dinputs.asarray())
            gr._dinputs.set_val(w_in)
            gr._doutputs.set_val(0.0)
            gr._transfer('linear', 'rev')
            identity('Group._transfer', lhs, dotx(gr._doutputs.asarray(), v_out))
        # ---- 3. components
        for n in sorted(case['comps'], key=lambda c: c['name']):
            cf, cr = probs['fwd'][2][n['name']], probs['rev'][2][n['name']]
            so, eo = out_rng[n['name'] + '.' + n['outputs'][0]['name']][0], out_rng[n['name'] + '.' + n['outputs'][-1]['name']][1]
            si, ei = (in_rng[n['name'] + '.' + n['inputs'][0]['name']][0],
                      in_rng[n['name'] + '.' + n['inputs'][-1]['name']][1]) if n['inputs'] else (0, 0)
            cf._doutputs.set_val(v_out[so:eo])
            cf._dinputs.set_val(v_in[si:ei])
            cf.run_apply_linear('fwd')
            rf = cf._dresiduals.asarray().copy()
            cr._dresiduals.set_val(w_out[so:eo])
            cr.run_apply_linear('rev')
            ro, ri = cr._doutputs.asarray().copy(), cr._dinputs.asarray().copy()
            res_comp.append([qv(rf), qv(np.concatenate([ro, ri]))])
            identity('component %s apply_linear' % n['name'], dotx(w_out[so:eo], rf),
                     dotx(ro, v_out[so:eo]) + dotx(ri, v_in[si:ei]))
        # ---- 4. group apply_linear: matrix-free and assembled
        outs = {}
        for name, pr in (('free', probs), ('csc', asm)):
            g = pr['fwd'][1]
            g._doutputs.set_val(v_out)
            g._dinputs.set_val(v_in)
            g.run_apply_linear('fwd')
            rf = g._dresiduals.asarray().copy()
            g = pr['rev'][1]
            g._dresiduals.set_val(w_out)
            g.run_apply_linear('rev')
            ro, ri = g._doutputs.asarray().copy(), g._dinputs.asarray().copy()
            outs[name] = (rf, ro, ri)
            identity('group apply_linear (%s)' % name, dotx(w_out, rf),
                     dotx(ro, v_out) + dotx(np.where(internal, 0.0, ri), v_in))
        res_grp = [qv(outs['free'][0]), [qv(outs['free'][1]), qv(outs['free'][2])]]
        # ---- 5. whole model apply_linear (identity only)
        for name, pr in (('free', probs), ('csc', asm)):
            mf, mr = pr['fwd'][0].model, pr['rev'][0].model
            rng = np.random.RandomState(len(case['v_out']) * 7 + len(case['v_in']))
            NO, NI = len(mf._outputs), len(mf._inputs)
            vo, vi, ww = (rng.randint(-3, 4, NO).astype(float), rng.randint(-3, 4, NI).astype(float),
                          rng.randint(-3, 4, NO).astype(float))
            # at the top every input is connected, so all inputs are overwritten by the transfer
            mf._doutputs.set_val(vo)
            mf._dinputs.set_val(vi)
            mf.run_apply_linear('fwd')
            rf = mf._dresiduals.asarray().copy()
            mr._dresiduals.set_val(ww)
            mr.run_apply_linear('rev')
            identity('model apply_linear (%s)' % name, dotx(ww, rf), dotx(mr._doutputs.asarray(), vo))
        # ---- 6. feed-forward models: linear solves and total jacobian-vector products
        if case['kind'] == 'total':
            pf, pr_ = probs['fwd'][0], probs['rev'][0]
            for p in (pf, pr_):
                p.run_model()
                p.model.run_linearize()
            mf, mr = pf.model, pr_.model
            NO = len(mf._outputs)
            rng = np.random.RandomState(NO)
            b, c = rng.randint(-3, 4, NO).astype(float), rng.randint(-3, 4, NO).astype(float)
            mf._dresiduals.set_val(b)
            mf.run_solve_linear('fwd')
            x = mf._doutputs.asarray().copy()
            mr._doutputs.set_val(c)
            mr.run_solve_linear('rev')
            y = mr._dresiduals.asarray().copy()
            identity('run_solve_linear', dotx(c, x), dotx(y, b))
            of = ['g.%s.%s' % (n['name'], o['name']) for n in case['comps'] for o in n['outputs']]
            wrt = ['ext.' + e['name'] for e in case['ext']]
            sizes_of = [o['size'] for n in case['comps'] for o in n['outputs']]
            sizes_wrt = [e['size'] for e in case['ext']]
            sv = np.array(case['seed_wrt'], dtype=float)
            sw = w_out
            seed_f, k = {}, 0
            for nm, s in zip(wrt, sizes_wrt):
                seed_f[nm] = sv[k:k + s]
                k += s
            seed_r, k = {}, 0
            for nm, s in zip(of, sizes_of):
                seed_r[nm] = sw[k:k + s]
                k += s
            jf = pf.compute_jacvec_product(of, wrt, 'fwd', seed_f)
            jr = pr_.compute_jacvec_product(of, wrt, 'rev', seed_r)
            Jv = np.concatenate([np.asarray(jf[nm]).ravel() for nm in of])
            JTw = np.concatenate([np.asarray(jr[nm]).ravel() for nm in wrt])
            identity('compute_jacvec_product', dotx(sw, Jv), dotx(JTw, sv))
            for p, nm in ((pf, 'fwd'), (pr_, 'rev')):
                tot = p.compute_totals(of=of, wrt=wrt, return_format='array')
                if not same(tot @ sv, Jv):
                    raise Fail('jvp-vs-totals', 'compute_jacvec_product fwd gives %r, compute_totals (%s) @ seed gives %r' % (
                        Jv.tolist(), nm, (tot @ sv).tolist()))
                if not same(tot.T @ sw, JTw):
                    raise Fail('vjp-vs-totals', 'compute_jacvec_product rev gives %r, compute_totals (%s)^T @ seed gives %r' % (
                        JTw.tolist(), nm, (tot.T @ sw).tolist()))
    except Fail as f:
        ok, msg, sig = False, f.msg, f.sig
    if not ok:
        return {'res': '__none__', 'ok': False, 'msg': msg, 'sig': 'C02:' + sig, 'kind': case['kind']}
    aux['raw'] = [[k[0][2:], k[1][2:]] for k in gf._subjacs_info]
    for x in aux['xfers']:
        x.pop('key')
    return {'res': [res_x, res_gx, res_comp, res_grp], 'ok': True, 'msg': '', 'sig': '', 'kind': case['kind'],
            'aux': aux}


if __name__ == '__main__':
    main(handle)
