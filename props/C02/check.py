"""C02 — forward and reverse linear operators are exact adjoints: transfers, sub-jacobian / matrix application,
apply_linear of components and groups, linear solves and compute_jacvec_product."""
import copy
import importlib.util
import os
from fractions import Fraction
import core
from core import Spec, standard_check

_here = os.path.dirname(os.path.abspath(__file__))
_spec = importlib.util.spec_from_file_location('c11check', os.path.join(_here, '..', 'C11', 'check.py'))
c11 = importlib.util.module_from_spec(_spec)
_spec.loader.exec_module(c11)
zl, qd, want_val, Layout, unit_factor = c11.zl, c11.qd, c11.want_val, c11.Layout, c11.unit_factor


def strip_updates(case, rng):
    """one real-valued update; seeds for both spaces"""
    up = case['updates'][0]
    up['cs'] = False
    for k, vs in up['vals'].items():
        up['vals'][k] = [[v[0], 0] for v in vs]
    case['updates'] = [up]
    L = Layout(case)
    case['w_in'] = [rng.randrange(-3, 4) for _ in range(L.nin)]
    case['w_out'] = [rng.randrange(-3, 4) for _ in range(L.nout)]
    return case


def gen_group_case(rng):
    case = c11.gen_shared_case(rng) if rng.random() < 0.3 else c11.gen_case(rng)
    case['kind'] = 'group'
    return strip_updates(case, rng)


def gen_ff_case(rng):
    """explicit feed-forward model: totals are exact integers/dyadics with LinearRunOnce"""
    case = c11.gen_case(rng)
    case['kind'] = 'total'
    order = {c['name']: k for k, c in enumerate(case['comps'])}
    for c in case['comps']:
        c['implicit'] = False
        outs = {o['name'] for o in c['outputs']}
        c['partials'] = [p for p in c['partials'] if p['wrt'] not in outs]
        for i in c['inputs']:
            if i['src'] and not i['src'].startswith('ext.') and order[i['src'].split('.')[0]] >= order[c['name']]:
                e = rng.choice(case['ext'])
                i['src'] = 'ext.' + e['name']
                i['src_indices'] = [rng.randrange(e['size']) for _ in range(i['size'])]
                i['units'] = None if e['units'] is None else rng.choice([None, 'm', 'dyA', 'dyB'])
            if i['src'] is None:          # no auto_ivc: connect to ext
                e = rng.choice(case['ext'])
                i['src'] = 'ext.' + e['name']
                i['src_indices'] = [rng.randrange(e['size']) for _ in range(i['size'])]
                i['units'] = None if e['units'] is None else rng.choice([None, 'm', 'dyA', 'dyB'])
    keep = set()
    for c in case['comps']:
        for p in c['partials']:
            keep.add('%s:%s:%s' % (c['name'], p['of'], p['wrt']))
    case = strip_updates(case, rng)
    up = case['updates'][0]
    up['vals'] = {k: v for k, v in up['vals'].items() if k in keep}
    next_ = sum(e['size'] for e in case['ext'])
    case['seed_wrt'] = [rng.randrange(-3, 4) for _ in range(next_)]
    return case


SOLVERS = ['direct', 'direct', 'direct_asm', 'lbgs', 'krylov', 'krylov_asm', 'runonce']


def gen_solve_case(rng):
    """linear solves in fwd vs rev on a group with random output scaling (ref != res_ref, arrays and scalars,
    negative values) under every linear solver; the system is block lower triangular (feed-forward, implicit
    components only with a diagonal d(res)/d(own output)), hence always solvable"""
    case = gen_ff_case(rng)
    case['kind'] = 'solve'
    solver = rng.choice(SOLVERS)
    case['solver'] = solver
    P = [Fraction(1, 4), Fraction(1, 2), Fraction(1), Fraction(2), Fraction(4), Fraction(8)]
    P = P + [-x for x in P]
    up = case['updates'][0]
    force_pow2 = rng.random() < 0.5      # every scale factor a power of two: exact arithmetic, exact comparisons
    for c in case['comps']:
        if solver in ('direct', 'direct_asm', 'krylov', 'krylov_asm') and rng.random() < 0.4:
            c['implicit'] = True
            for o in c['outputs']:
                c['partials'].append({'kind': 'diag', 'of': o['name'], 'wrt': o['name']})
                up['vals']['%s:%s:%s' % (c['name'], o['name'], o['name'])] = [
                    [rng.choice([2, -2, 4, -4, 1, -1]), 0] for _ in range(o['size'])]
        for o in c['outputs']:
            n = o['size']
            if rng.random() < 0.85:
                arr = rng.random() < 0.35
                pick = (lambda: [rng.choice(P) for _ in range(n)]) if arr else (lambda: rng.choice(P))
                a1 = pick()
                bad = set(-x for x in (a1 if arr else [a1]))        # ref = a1 + ref0 must not vanish
                r0 = rng.choice([r for r in [0, 0, 1, -2, Fraction(1, 2), 3] if r not in bad])
                o['ref0'] = r0
                o['ref'] = [x + r0 for x in a1] if arr else a1 + r0
                if force_pow2 or rng.random() < 0.8:
                    o['res_ref'] = pick()
    return jsonq(case)


def gen_rhs_case(rng):
    """reverse-mode totals with the linear-solution cache (rhs_checking) enabled on the group's solver: a chain of
    responses  yA = A g_out,  yB = k yA,  yC = k2 yB  outside the group makes the adjoint right-hand sides that
    reach the group (anti-)parallel multiples of each other (k negative and non-unit, -1, 1, 2, ...)"""
    case = gen_ff_case(rng)
    case['kind'] = 'rhs'
    case['solver'] = rng.choice(['direct', 'direct', 'krylov', 'direct_asm'])
    case['rhs_checking'] = rng.choice([True, True, {'check_zero': True}, {'max_cache_entries': 5}])
    outs = [(c['name'] + '.' + o['name'], o['size']) for c in case['comps'] for o in c['outputs']]
    src, n = rng.choice(outs)
    m = rng.randrange(1, 4)
    ks = [Fraction(-6, 5), Fraction(-1, 2), -3, -2, -1, 1, 2, Fraction(3, 2), Fraction(-7, 4)]
    case['resp'] = {'src': src, 'A': [[rng.randrange(-3, 4) for _ in range(n)] for _ in range(m)],
                    'k': rng.choice(ks[:5] + ks), 'k2': rng.choice(ks) if rng.random() < 0.6 else None}
    if all(v == 0 for row in case['resp']['A'] for v in row):
        case['resp']['A'][0][0] = 1
    return jsonq(case)


def jsonq(x):
    if isinstance(x, Fraction):
        return {'q': [x.numerator, x.denominator]} if x.denominator != 1 else int(x)
    if isinstance(x, dict):
        return {k: jsonq(v) for k, v in x.items()}
    if isinstance(x, (list, tuple)):
        return [jsonq(v) for v in x]
    return x


# ----------------------------------------------------------------------------- raw entries of the intended jacobian

def pat_rc(p, nr, nc):
    if p['kind'] == 'dense':
        return [(r, c) for r in range(nr) for c in range(nc)]
    if p['kind'] == 'diag':
        return [(i, i) for i in range(nr)]
    return list(zip(p['rows'], p['cols']))


def raw_triples(case, L, keys, comp=None):
    """entries ((row, col), value) of the listed sub-jacobians; rows over the outputs, columns over
    (outputs ++ inputs), of the group (comp=None) or of one component"""
    up = case['updates'][0]
    if comp is None:
        ooff, ioff, nout = L.out_off, L.in_off, L.nout
    else:
        c = [x for x in case['comps'] if x['name'] == comp][0]
        ooff, ioff, o, i = {}, {}, 0, 0
        for v in c['outputs']:
            ooff[comp + '.' + v['name']] = o
            o += v['size']
        for v in c['inputs']:
            ioff[comp + '.' + v['name']] = i
            i += v['size']
        nout = o
    T = []
    for key in keys:
        of, wrt = key
        if comp is not None and not of.startswith(comp + '.'):
            continue
        co = ooff[wrt] if wrt in ooff else nout + ioff[wrt]
        if key in L.partials:
            cc, p = L.partials[key]
            rc = pat_rc(p, L.size[of], L.size[wrt])
            vals = [v[0] for v in up['vals']['%s:%s:%s' % (cc['name'], p['of'], p['wrt'])]]
        else:
            n = L.size[of]
            rc = [(k, k) for k in range(n)]
            vals = [-1] * n
        for (r, c_), v in zip(rc, vals):
            T.append((ooff[of] + r, co + c_, v))
    return T


def tlit(T):
    return '(tl [%s])' % '; '.join('(%d, %d, %s)' % (r, c, core.qlit(Fraction(v))) for r, c, v in T)


class C02(Spec):
    pid = 'C02'
    imports = ['C11.Model', 'C02.Model']
    impl_script = 'props/C02/impl.py'
    exactness = ('E3: small-integer data, unit factors 2^j — every product, transfer and dot product is exact in '
                 'binary64; the adjoint identity is checked with == on the real code')
    shard = 60
    impl_jobs = 4
    rule = ('the C11 model generator (1-3 explicit/implicit components, all sub-jacobian kinds, inputs connected '
            'inside the group with src_indices (repeats) and unit factors, or outside) with integer seeds: raw '
            'DefaultTransfer._transfer fwd/rev (full and per-subsystem), Group._transfer with unit scaling, '
            'run_apply_linear of every component, of the group (matrix-free and assembled csc) and of the whole model; '
            'plus explicit feed-forward models: run_solve_linear fwd/rev and compute_jacvec_product fwd/rev against '
            'compute_totals; plus block-triangular groups with random output scaling (ref/ref0/res_ref scalars and '
            'arrays, negative, ref != res_ref) solved fwd and rev under DirectSolver (assembled or not), LinearBlockGS, '
            'ScipyKrylov (assembled or not) and LinearRunOnce; plus reverse-mode totals with rhs_checking (linear-solution '
            'cache) enabled and response chains yB = k yA (k negative non-unit, -1, 1, ...) compared with forward-mode '
            'totals; a case is non-trivial when distinct')
    assumptions = ['index arrays of the transfers and the order of sub-jacobians are read from the real objects '
                   '(their agreement with the generated connections is checked)',
                   'totals / solves / whole-model apply are checked by the adjoint identity and against compute_totals '
                   'only (no Coq model of the solve chain)']

    def __init__(self):
        self.aux = {}

    def gen(self, tier, rng):
        n = 100 if tier == 'quick' else 1500
        return ([gen_group_case(rng) for _ in range(n)] + [gen_ff_case(rng) for _ in range(n // 2)] +
                [gen_solve_case(rng) for _ in range(n)] + [gen_rhs_case(rng) for _ in range((n * 2) // 5)])

    def search_gen(self, tier, rng):
        return ([gen_group_case(rng) for _ in range(300)] + [gen_ff_case(rng) for _ in range(150)] +
                [gen_solve_case(rng) for _ in range(300)] + [gen_rhs_case(rng) for _ in range(150)])

    def compare_case(self, case, res):
        if res.get('res', '__none__') == '__none__':
            return False
        self.aux[id(case)] = res['aux']
        return True

    def want_term(self, case, res):
        return want_val(res['res'])

    def got_term(self, case):
        aux = self.aux[id(case)]
        L = Layout(case)
        if case['kind'] == 'solve':
            # DirectSolver._build_mtx = Dr^-1 M Du, M = dr/do of the group, Du = ref - ref0, Dr = res_ref (default ref)
            keys = [tuple(k) for k in aux['drdo']]
            up = case['updates'][0]
            du, dr = [], []
            for c in sorted(case['comps'], key=lambda c: c['name']):
                for o in c['outputs']:
                    ref, ref0, rr = o.get('ref', 1), o.get('ref0', 0), o.get('res_ref')
                    refs = [c11.fr(x) for x in ref] if isinstance(ref, list) else [c11.fr(ref)] * o['size']
                    du += [a - c11.fr(ref0) for a in refs]
                    if rr is None:
                        # ExplicitComponent.add_output: res_ref defaults to ref; ImplicitComponent: no residual scaling
                        dr += [Fraction(1)] * o['size'] if c['implicit'] else refs
                    else:
                        dr += [c11.fr(x) for x in rr] if isinstance(rr, list) else [c11.fr(rr)] * o['size']
            return '(vmat (todense (scale_T %s %s (all_triples [%s] [%s])) %d %d))' % (
                qd(dr), qd(du), '; '.join(L.subjac(k, 'drdo') for k in keys),
                '; '.join(qd(L.vals(k, up, 0)) for k in keys), L.nout, L.nout)
        parts = []
        # 1. raw transfers
        xs = []
        for x in aux['xfers']:
            ii, oi = '(nl %s)' % zl(x['in']), '(nl %s)' % zl(x['out'])
            xs.append('(VL [vqs (xfer_fwd %s %s %s %s); vqs (xfer_rev %s %s %s %s)])' % (
                ii, oi, qd(case['v_out']), qd(case['v_in']), ii, oi, qd(case['w_in']), qd(case['v_out'])))
        parts.append('(VL [%s])' % '; '.join(xs))
        # 2. Group._transfer with scaling
        if aux['gx'] is None:
            parts.append('VN')
            ii = oi = '[]'
            sc = qd([1] * L.nin)
        else:
            ii, oi = '(nl %s)' % zl(aux['gx']['in']), '(nl %s)' % zl(aux['gx']['out'])
            sc = qd([Fraction(a['q'][0], a['q'][1]) for a in aux['gx']['sc']])
            parts.append('(VL [vqs (gxfer_fwd %s %s %s %s %s); vqs (gxfer_rev_out %s %s %s %s %s); vqs (gxfer_rev_in %s %s)])' % (
                sc, ii, oi, qd(case['v_out']), qd(case['v_in']),
                sc, ii, oi, qd(case['w_in']), qd(case['v_out']), sc, qd(case['w_in'])))
        # 3. component apply_linear
        keys = [tuple(k) for k in aux['raw']]
        cs = []
        for c in sorted(case['comps'], key=lambda c: c['name']):
            T = raw_triples(case, L, keys, c['name'])
            no = sum(v['size'] for v in c['outputs'])
            ni = sum(v['size'] for v in c['inputs'])
            o0, i0 = L.out_off[c['name'] + '.' + c['outputs'][0]['name']], \
                (L.in_off[c['name'] + '.' + c['inputs'][0]['name']] if c['inputs'] else 0)
            v = case['v_out'][o0:o0 + no] + case['v_in'][i0:i0 + ni]
            w = case['w_out'][o0:o0 + no]
            cs.append('(VL [vqs (sp_fwd %s %s (zeros %d)); vqs (sp_rev %s %s (zeros %d))])' % (
                tlit(T), qd(v), no, tlit(T), qd(w), no + ni))
        parts.append('(VL [%s])' % '; '.join(cs))
        # 4. group apply_linear, matrix-free
        T = tlit(raw_triples(case, L, keys))
        parts.append('(VL [vqs (apply_fwd %s %d %s %s %s %s %s); '
                     '(let r := apply_rev %s %d %d %s %s %s %s in VL [vqs (fst r); vqs (snd r)])])' % (
                         T, L.nout, ii, oi, sc, qd(case['v_out']), qd(case['v_in']),
                         T, L.nout, L.nin, ii, oi, sc, qd(case['w_out'])))
        return '(VL [%s])' % ';\n  '.join(parts)

    def shrink(self, case):
        for ci, comp in enumerate(case['comps']):
            for pi in range(len(comp['partials'])):
                c = copy.deepcopy(case)
                p = c['comps'][ci]['partials'].pop(pi)
                c['updates'][0]['vals'].pop('%s:%s:%s' % (comp['name'], p['of'], p['wrt']), None)
                yield c


def main(tier):
    return standard_check(C02(), tier)
