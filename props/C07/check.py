"""C07 — set_val / get_val round-trip through promotion, indices and units."""
import os
import sys
from fractions import Fraction as F
sys.path.insert(0, os.path.join(os.path.dirname(os.path.abspath(__file__)), '..', 'C04'))
import core                                                     # noqa: E402
from core import Spec, standard_check, zlist, optlit, boollit, qlit, qlist   # noqa: E402
from c04common import (FAMILIES, UNITS, conversion, prod, slc, py_index, in_grammar, chain_eval)  # noqa: E402


def item_term(it):
    t = it['t']
    if t == 'int':
        return '(IInt (%d))' % it['v']
    if t == 'slice':
        a, b, c = it['v']
        return '(ISlice (mkslice %s %s %s))' % (optlit(a), optlit(b), optlit(c))
    return '(IArr %s)' % zlist(it['v'])


def idx_term(ix):
    t = ix['t']
    if t == 'tup':
        return '(ITup [%s])' % '; '.join(item_term(i) for i in ix['v'])
    if t == 'ell':
        return '(IEll [%s] [%s])' % ('; '.join(item_term(i) for i in ix['pre']),
                                     '; '.join(item_term(i) for i in ix['post']))
    return '(I1 %s)' % item_term(ix)


def unit_term(u):
    if u is None:
        return '(mkunit 1 0)'
    f, o = UNITS[u]
    return '(mkunit %s %s)' % (qlit(f), qlit(o))


def names_by(case, nm):
    return [n for n in case['names'] if n['name'] == nm][0]


class C07(Spec):
    pid = 'C07'
    imports = ['C05.Model', 'C04.Model', 'C07.Model']
    impl_script = 'props/C07/impl.py'
    tol = F(1, 10**12)
    exactness = ('get_val answers: exact when no unit conversion is involved (integer data), relative 1e-12 '
                 'against exact rational unit factors otherwise (E4)')
    shard = 100
    impl_jobs = 8
    rule = ('generated models (IndepVarComp outputs promoted or not, true scalars declared with shape=() on sources, inputs and auto-IVCs, inputs connected with src_indices on connect '
            'and on one promotes level, auto-IVC backed promoted inputs with src_shape / shared names / '
            'set_input_defaults also next to shape_by_conn inputs, inputs connected inside a sub-group and promoted 1-2 levels above it (every level\'s name addressed), inputs with units on unitless sources, 33 unit strings) x addressable names (absolute output, promoted output, absolute input, '
            'promoted auto-IVC name) x user indices (int, slice, array, tuple; negative entries) x unit strings x '
            'src_indices chains with and without aliasing (an input reading one source entry twice) x '
            'histories of 4-10 set/get with final_setup and run_model interleaved; every history is also executed '
            'entirely before final_setup, after final_setup and after run_model')
    assumptions = ['sources addressed by the user are independent variables (IndepVarComp / auto-IVC), so run_model '
                   'does not change them', 'unit factors of the 9 units used are exact rationals from unit_library.ini']

    def __init__(self):
        self._res = {}

    # ------------------------------------------------------------- generator
    def rnd_item(self, rng, n):
        k = rng.random()
        if k < 0.4:
            vals = [None, None] + list(range(-n, n + 1))
            a, b = rng.choice(vals), rng.choice(vals)
            if a is not None and a >= n:
                a = n - 1
            return slc(a, b, rng.choice([None, None, 1, -1, 2, -2]))
        if k < 0.7:
            return {'t': 'int', 'v': rng.randrange(-n, n)}
        return {'t': 'arr', 'v': [rng.randrange(-n, n) for _ in range(rng.randrange(1, 4))]}

    def rnd_level(self, rng, shape, where, user=False):
        for _ in range(30):
            rank = len(shape)
            fl = None if user else rng.choice([None, None, True, False])
            rflat = (rank <= 1) if fl is None else fl
            shp = [prod(shape)] if rflat else shape
            if rflat or rng.random() < 0.35:
                ix = self.rnd_item(rng, shp[0])
            else:
                L = rng.randrange(1, len(shp) + 1)
                ix = {'t': 'tup', 'v': [self.rnd_item(rng, shp[k]) for k in range(L)]}
            if not in_grammar(ix):
                continue
            r = py_index(shape, rflat, ix)
            if r is None or not r[0]:
                continue
            if not user and len(set(r[0])) != len(r[0]) and rng.random() < 0.5:
                continue      # aliasing src_indices (an input reading one source entry twice) are kept half
                              # of the time: the model writes back level by level (last alias wins)
            if not user and where != 'connect' and fl is True and ix['t'] == 'slice' and len(shape) > 1 \
                    and ix['v'][0] is None and ix['v'][1] is None and ix['v'][2] in (None, 1):
                continue      # such a model cannot be set up: known finding of C04 (props/C04/FINDINGS.md, 2)
            return {'where': where, 'flat': fl, 'rflat': rflat, 'ix': ix, 'in_shape': list(shape),
                    'out_shape': r[1]}
        return None

    def gen_case(self, rng):
        case = {'sources': [], 'sinks': [], 'names': []}
        nivc = rng.choice([1, 1, 2])
        for k in range(nivc):
            rank = rng.choice([0, 1, 1, 2, 2, 3])      # rank 0: a true scalar, declared with shape=()
            shape = [rng.randrange(1, 5) for _ in range(rank)]
            while prod(shape) > 16:
                shape[rng.randrange(rank)] -= 1
            fam = rng.choice(FAMILIES)
            case['sources'].append({'name': 'y%d' % k, 'kind': 'ivc', 'shape': shape,
                                    'units': rng.choice(fam + [None]), 'fam': fam,
                                    'vals': [rng.randrange(-9, 10) for _ in range(prod(shape))],
                                    'promoted': rng.random() < 0.5})
        nauto = rng.choice([0, 1, 1, 2])
        for k in range(nauto):
            rank = rng.choice([0, 1, 1, 2])
            shape = [rng.randrange(1, 5) for _ in range(rank)]
            fam = rng.choice(FAMILIES)
            case['sources'].append({'name': 'a%d' % k, 'kind': 'auto', 'shape': shape,
                                    'units': rng.choice(fam + [None]), 'fam': fam,
                                    'vals': [rng.randrange(-9, 10) for _ in range(prod(shape))],
                                    'defaults': True, 'nusers': 0})
        nsink = rng.choice([1, 2, 2, 3])
        autos = [s for s in case['sources'] if s['kind'] == 'auto']
        ivcs = [s for s in case['sources'] if s['kind'] == 'ivc']
        for j in range(nsink):
            d = rng.choice([0, 1])
            sink = {'name': 'T%d' % j, 'depth': d, 'inputs': []}
            for m in range(rng.choice([1, 2])):
                unused = [a for a in autos if a['nusers'] == 0]
                if unused:
                    s = unused[0]
                elif autos and rng.random() < 0.3:
                    s = rng.choice(autos)
                else:
                    s = rng.choice(ivcs)
                inp = {'name': 'x%d' % m, 'src': s['name']}
                if s['kind'] == 'auto':
                    s['nusers'] += 1
                    wheres = ['root'] + (['g1'] if d == 1 else [])
                    inp['npro'] = d + 1
                else:
                    inp['npro'] = rng.choice([0, 1]) if d == 1 else 0
                    wheres = ['connect'] + (['g1'] if inp['npro'] == 1 else [])
                chain, shp = [], list(s['shape'])
                for w in wheres:
                    if not shp:
                        break
                    if rng.random() < 0.55:
                        lv = self.rnd_level(rng, shp, w)
                        if lv is not None:
                            chain.append(lv)
                            shp = lv['out_shape']
                inp['chain'] = chain
                inp['shape'] = list(shp) if shp else [1]
                inp['rshape'] = list(shp)
                inp['true0'] = (not s['shape'])      # input of a true scalar source: declared with shape=()
                if s['units'] is not None:
                    inp['units'] = rng.choice(s['fam'] + [None])
                elif s['kind'] == 'ivc' and rng.random() < 0.4:
                    inp['units'] = rng.choice(s['fam'])     # input with units on a unitless source
                else:
                    inp['units'] = None
                sink['inputs'].append(inp)
            case['sinks'].append(sink)
        case['sources'] = [s for s in case['sources'] if s['kind'] == 'ivc' or s['nusers'] > 0]
        autos = [s for s in autos if s['nusers'] > 0]
        # an auto-IVC used by one input only and without indices may go without set_input_defaults
        for a in autos:
            users = [i for t in case['sinks'] for i in t['inputs'] if i['src'] == a['name']]
            if len(users) == 1 and not users[0]['chain'] and rng.random() < 0.5:
                a['defaults'] = False
                a['units'] = users[0]['units']
        # a shape_by_conn input next to set_input_defaults (the tree is resolved again at final_setup)
        nb = 0
        for a in autos:
            if a['defaults'] and rng.random() < 0.5:
                case['sinks'].append({'name': 'B%d' % nb, 'depth': 0, 'inputs': [
                    {'name': 'x0', 'src': a['name'], 'npro': 1, 'chain': [], 'shape': list(a['shape']),
                     'rshape': list(a['shape']), 'units': a['units'], 'sbc': True, 'true0': False}]})
                nb += 1
        # 'dangling' promoted input: connected to its source INSIDE a sub-group (with src_indices and/or other
        # units) and promoted one or two levels above that group; every level's name addresses the same variable
        case['dang'] = None
        if rng.random() < 0.45:
            rank = rng.choice([1, 1, 2])
            shape = [rng.randrange(2, 6) for _ in range(rank)]
            fam = rng.choice(FAMILIES)
            su = rng.choice(fam + [None])
            chain = []
            if rng.random() < 0.75:
                lv = self.rnd_level(rng, shape, 'dconnect')
                if lv is not None:
                    chain.append(lv)
            shp = chain[-1]['out_shape'] if chain else list(shape)
            iu = rng.choice(fam + [None]) if su is not None else (rng.choice(fam) if rng.random() < 0.3 else None)
            levels = rng.choice([1, 2])
            case['sources'].append({'name': 'dy', 'kind': 'dang', 'shape': shape, 'units': su, 'fam': fam,
                                    'vals': [rng.randrange(-9, 10) for _ in range(prod(shape))]})
            case['dang'] = {'levels': levels, 'prefix': 'D.' if levels == 1 else 'H.D.',
                            'inp': {'name': 'x', 'src': 'dy', 'chain': chain, 'shape': list(shp) if shp else [1],
                                    'rshape': list(shp), 'units': iu}}
        # addressable names
        if case['dang']:
            d = case['dang']
            i = d['inp']
            s = case['sources'][-1]
            case['names'].append({'name': d['prefix'] + 'ivc.y', 'src': 'dy', 'chain': [], 'units': None,
                                  'shape': s['shape'], 'cls': 'abs-output'})
            tops = [d['prefix'] + 'c.x', d['prefix'] + 'dx'] + (['H.dx'] if d['levels'] == 2 else []) + ['dx']
            for k, nm in enumerate(tops):
                cls = 'abs-input-connected' if k == 0 else ('prom-input-connecting-group' if k == 1
                                                             else 'prom-input-above-connection')
                case['names'].append({'name': nm, 'src': 'dy', 'chain': i['chain'], 'units': i['units'],
                                      'shape': i['rshape'], 'cls': cls})
            d['tops'] = tops
        for s in case['sources']:
            if s['kind'] == 'dang':
                continue
            if s['kind'] == 'ivc':
                case['names'].append({'name': 'ivc.' + s['name'], 'src': s['name'], 'chain': [], 'units': None,
                                      'shape': s['shape'], 'cls': 'abs-output'})
                if s['promoted']:
                    case['names'].append({'name': s['name'], 'src': s['name'], 'chain': [], 'units': None,
                                          'shape': s['shape'], 'cls': 'prom-output'})
            else:
                case['names'].append({'name': s['name'], 'src': s['name'], 'chain': [], 'units': s['units'],
                                      'shape': s['shape'], 'cls': 'auto-ivc-promoted-input'})
        srcs = {s['name']: s for s in case['sources']}
        for t in case['sinks']:
            for i in t['inputs']:
                path = ('g1.' if t['depth'] == 1 else '') + t['name'] + '.' + i['name']
                cls = 'abs-input-auto' if srcs[i['src']]['kind'] == 'auto' else 'abs-input-connected'
                case['names'].append({'name': path, 'src': i['src'], 'chain': i['chain'], 'units': i['units'],
                                      'shape': i['rshape'], 'cls': cls})
        # history
        hist = []
        nops = rng.randrange(4, 11)
        phase_ops = [{'op': 'final'}, {'op': 'run'}]
        classes = set()
        plan = []
        dset = None
        for _ in range(nops):
            r = rng.random()
            plan.append((r, None if r < 0.2 else rng.choice(case['names']), True))
        if case['dang']:
            # directed: set through a name above the connection, then read through every name of the variable
            tops = case['dang']['tops']
            plan.append((0.3, names_by(case, rng.choice(tops[2:])), False))
            for nm in [case['dang']['prefix'] + 'ivc.y'] + tops:
                plan.append((0.9, names_by(case, nm), False))
        for r, n, free in plan:
            if n is None:
                hist.append(dict(rng.choice(phase_ops)))
                continue
            s = srcs[n['src']]
            classes.add(n['cls'])
            level = None
            if free and n['shape'] and rng.random() < 0.6:     # a 0-d value cannot be indexed
                level = self.rnd_level(rng, n['shape'], 'user', user=True)
            vshape = level['out_shape'] if level else n['shape']
            units = None
            su = s['units'] or n['units']     # a unitless source holds the number in the input's units
            if free and su is not None and rng.random() < 0.5:
                units = rng.choice(s['fam'])
            eff = units or n['units']
            fac, off = conversion(eff, su) if (eff and su) else (F(1), F(0))
            inexact = (fac != 1 or off != 0)
            base = {'name': n['name'], 'indices': level['ix'] if level else None, 'level': level, 'units': units,
                    'inexact': inexact}
            if r < 0.6:
                size = prod(vshape)
                # a scalar is broadcast only without indices (with indices the code demands the exact shape)
                scalar = ((level is None and not n['chain']) or size == 1) and rng.random() < 0.25
                vals = [rng.randrange(-20, 21)] if scalar else [rng.randrange(-20, 21) for _ in range(size)]
                if not s['shape']:
                    scalar = True        # a true scalar variable is set with a number
                    vals = vals[:1]
                hist.append(dict(base, op='set', vals=vals, vshape=vshape, scalar=scalar))
                if not free:
                    shp, nodup = list(s['shape']), True
                    for lv in n['chain']:
                        sel, shp = py_index(shp, lv['rflat'], lv['ix'])
                        nodup = nodup and len(set(sel)) == len(sel)
                    dset = (vals * size if scalar else vals) if nodup else None
                if free and rng.random() < 0.75:
                    # the round trip is promised when no level reads an entry twice
                    shp, nodup = list(s['shape']), True
                    for lv in n['chain'] + ([level] if level else []):
                        sel, shp = py_index(shp, lv['rflat'], lv['ix'])
                        nodup = nodup and len(set(sel)) == len(sel)
                    echo = (vals * size if scalar else vals) if nodup else None
                    hist.append(dict(base, op='get', echo=echo))
            else:
                echo = None
                if not free and n['name'] in case['dang']['tops']:
                    echo = dset       # same variable, same units: the value just set through the top name
                hist.append(dict(base, op='get', echo=echo))
        case['history'] = hist
        case['kind'] = '+'.join(sorted(classes)) or 'phases-only'
        return case

    def gen(self, tier, rng):
        n = 450 if tier == 'quick' else 6000
        return [self.gen_case(rng) for _ in range(n)]

    def search_gen(self, tier, rng):
        return self.gen(tier, rng)

    # ------------------------------------------------------------- emitters
    def got_term(self, case):
        srcs = {s['name']: s for s in case['sources']}
        vid = {s['name']: k for k, s in enumerate(case['sources'])}
        names = {n['name']: n for n in case['names']}
        init = '[%s]' % '; '.join('((%d), %s)' % (vid[s['name']], qlist(s['vals'])) for s in case['sources'])
        ops = []
        for o in case['history']:
            if o['op'] == 'final':
                ops.append('OFinal')
                continue
            if o['op'] == 'run':
                ops.append('ORun')
                continue
            n = names[o['name']]
            s = srcs[n['src']]
            chain = n['chain'] + ([o['level']] if o['level'] else [])
            cterm = '[%s]' % '; '.join('(%s, %s)' % (boollit(lv['rflat']), idx_term(lv['ix'])) for lv in chain)
            eff = o['units'] or n['units']
            su = s['units'] or n['units']
            if eff and su:
                ua, us = unit_term(eff), unit_term(su)
            else:
                ua = us = unit_term(None)
            if o['op'] == 'set':
                size = prod(o['vshape'])
                vals = o['vals'] * size if o['scalar'] else o['vals']
                ops.append('(OSet (%d) %s %s %s %s %s)' % (vid[n['src']], zlist(s['shape']), cterm, ua, us, qlist(vals)))
            else:
                ops.append('(OGet (%d) %s %s %s %s)' % (vid[n['src']], zlist(s['shape']), cterm, us, ua))
        return '(run_case %s [%s])' % (init, '; '.join(ops))

    def shrink(self, c):
        h = c['history']
        for k in range(len(h)):
            yield dict(c, history=h[:k] + h[k + 1:])


def main(tier):
    return standard_check(C07(), tier)
