"""C07 implementation side: histories of set_val / get_val / final_setup / run_model on real Problems."""
import os
import sys
import warnings
from fractions import Fraction as F
import numpy as np
sys.path.insert(0, os.path.join(os.path.dirname(os.path.abspath(__file__)), '..', 'C04'))
from implutil import main, q            # noqa: E402
from c04common import conversion, prod  # noqa: E402

warnings.simplefilter('ignore')
import openmdao.api as om   # noqa: E402


def py_item(it):
    t = it['t']
    if t == 'int':
        return int(it['v'])
    if t == 'slice':
        return slice(*it['v'])
    return np.array(it['v'], dtype=int)


def py_idx(ix):
    t = ix['t']
    if t == 'tup':
        return tuple(py_item(i) for i in ix['v'])
    if t == 'ell':
        return tuple([py_item(i) for i in ix['pre']] + [Ellipsis] + [py_item(i) for i in ix['post']])
    return py_item(ix)


def om_idx(ix):
    t = ix['t']
    if t == 'int':
        return int(ix['v'])
    if t == 'arr':
        return list(ix['v'])
    return py_idx(ix)


def positions(shape, chain):
    """reference: NumPy indexing of arange(shape), level by level"""
    arr = np.arange(prod(shape)).reshape(shape)
    for lv in chain:
        arr = np.atleast_1d(arr.ravel()[py_idx(lv['ix'])] if lv['rflat'] else arr[py_idx(lv['ix'])])
    return [int(x) for x in arr.ravel()]


class Sink(om.ExplicitComponent):
    def initialize(self):
        self.options.declare('spec', types=dict)

    def setup(self):
        for inp in self.options['spec']['inputs']:
            if inp.get('sbc'):
                self.add_input(inp['name'], shape_by_conn=True, units=inp['units'])
            elif inp.get('true0'):
                self.add_input(inp['name'], val=0.0, shape=(), units=inp['units'])
            else:
                self.add_input(inp['name'], val=np.zeros(inp['shape'] or [1]), units=inp['units'])
        self.add_output('z', val=0.0)

    def compute(self, inputs, outputs):
        outputs['z'] = sum(float(np.sum(inputs[i['name']])) for i in self.options['spec']['inputs'])


def build(case):
    p = om.Problem()
    root = p.model
    ivc = om.IndepVarComp()
    for s in case['sources']:
        if s['kind'] == 'ivc':
            if s['shape']:
                ivc.add_output(s['name'], val=np.array(s['vals'], dtype=float).reshape(s['shape']),
                               units=s['units'])
            else:
                ivc.add_output(s['name'], val=float(s['vals'][0]), shape=(), units=s['units'])
    prom = [s['name'] for s in case['sources'] if s['kind'] == 'ivc' and s['promoted']]
    root.add_subsystem('ivc', ivc, promotes_outputs=prom)
    g1 = None
    if any(t['depth'] == 1 for t in case['sinks']):
        g1 = root.add_subsystem('g1', om.Group())
    srcs = {s['name']: s for s in case['sources']}
    for t in case['sinks']:
        (g1 if t['depth'] == 1 else root).add_subsystem(t['name'], Sink(spec=t))
    for t in case['sinks']:
        d = t['depth']
        path = ('g1.' if d == 1 else '') + t['name']
        for inp in t['inputs']:
            levels = {lv['where']: lv for lv in inp['chain']}
            s = srcs[inp['src']]

            def kw(where, auto=False):
                lv = levels.get(where)
                out = {}
                if lv is not None:
                    out['src_indices'] = om_idx(lv['ix'])
                    if lv['flat'] is not None:
                        out['flat_src_indices'] = lv['flat']
                    if auto:
                        out['src_shape'] = tuple(lv['in_shape'])
                return out
            if s['kind'] == 'ivc':
                srcname = s['name'] if s['promoted'] else 'ivc.' + s['name']
                if d == 1 and inp['npro'] == 1:
                    uniq = '%s_%s' % (t['name'], inp['name'])
                    g1.promotes(t['name'], inputs=[(inp['name'], uniq)], **kw('g1'))
                    tgt = 'g1.' + uniq
                else:
                    tgt = path + '.' + inp['name']
                root.connect(srcname, tgt, **kw('connect'))
            else:   # auto-IVC: promoted to the root under the source's name
                if d == 1:
                    uniq = '%s_%s' % (t['name'], inp['name'])
                    g1.promotes(t['name'], inputs=[(inp['name'], uniq)], **kw('g1', True))
                    root.promotes('g1', inputs=[(uniq, s['name'])], **kw('root', True))
                else:
                    root.promotes(t['name'], inputs=[(inp['name'], s['name'])], **kw('root', True))
    if case.get('dang'):
        d = case['dang']
        i = d['inp']
        s = srcs['dy']
        G = om.Group()
        G.add_subsystem('ivc', om.IndepVarComp('y', val=np.array(s['vals'], dtype=float).reshape(s['shape']),
                                               units=s['units']))
        G.add_subsystem('c', Sink(spec={'inputs': [i]}), promotes_inputs=[('x', 'dx')])
        kw = {}
        if i['chain']:
            lv = i['chain'][0]
            kw['src_indices'] = om_idx(lv['ix'])
            if lv['flat'] is not None:
                kw['flat_src_indices'] = lv['flat']
        G.connect('ivc.y', 'dx', **kw)
        if d['levels'] == 1:
            root.add_subsystem('D', G, promotes_inputs=['dx'])
        else:
            H = om.Group()
            H.add_subsystem('D', G, promotes_inputs=['dx'])
            root.add_subsystem('H', H, promotes_inputs=['dx'])
    for s in case['sources']:
        if s['kind'] == 'auto' and s['defaults']:
            root.set_input_defaults(s['name'], val=np.array(s['vals'], dtype=float).reshape(s['shape']),
                                    units=s['units'])
    return p


def run_history(case, hist, srcabs):
    """executes one history; returns (answers, failures)"""
    p = build(case)
    p.setup()
    fails = []
    srcs = {s['name']: s for s in case['sources']}
    names = {n['name']: n for n in case['names']}
    # auto-IVC sources without set_input_defaults get their initial value here
    for s in case['sources']:
        if s['kind'] == 'auto' and not s['defaults']:
            p.set_val(s['name'], np.array(s['vals'], dtype=float).reshape(s['shape']))

    def snapshot():
        out = {}
        for s in case['sources']:
            nm = ('ivc.' + s['name']) if s['kind'] == 'ivc' else s['name']
            if s['kind'] == 'dang':
                nm = case['dang']['prefix'] + 'ivc.y'
            kw = {'units': s['units']} if (s['kind'] == 'auto' and s['units']) else {}
            out[s['name']] = np.array(p.get_val(nm, **kw), dtype=float).ravel().copy()
        return out
    answers = []
    for k, o in enumerate(hist):
        if o['op'] == 'final':
            p.final_setup()
        elif o['op'] == 'run':
            p.run_model()
        elif o['op'] == 'set':
            n = names[o['name']]
            before = snapshot()
            kw = {}
            if o['units'] is not None:
                kw['units'] = o['units']
            if o['indices'] is not None:
                kw['indices'] = om_idx(o['indices'])
            val = np.array(o['vals'], dtype=float)
            if not o['scalar']:
                val = val.reshape(o['vshape'] or [1])
            else:
                val = float(val[0])
            p.set_val(n['name'], val, **kw)
            after = snapshot()
            touched = set(positions(srcs[n['src']]['shape'], n['chain'] + ([o['level']] if o['level'] else [])))
            for sname in before:
                for j, (b, a) in enumerate(zip(before[sname], after[sname])):
                    if (sname != n['src'] or j not in touched) and b != a and len(fails) < 3:
                        fails.append('op %d set_val(%r, indices=%r, units=%r) changed untouched entry %d of %s: %r -> %r'
                                     % (k, n['name'], o['indices'] and om_idx(o['indices']), o['units'], j, sname, b, a))
        else:
            n = names[o['name']]
            kw = {}
            if o['units'] is not None:
                kw['units'] = o['units']
            if o['indices'] is not None:
                kw['indices'] = om_idx(o['indices'])
            answers.append([float(x) for x in np.atleast_1d(p.get_val(n['name'], **kw)).ravel()])
    return answers, fails


def close(a, b, inexact):
    fa, fb = F(a), F(b)
    if not inexact:
        return fa == fb
    return abs(fa - fb) <= F(1, 10**12) * max(1, abs(fb))


def handle(case):
    hist = case['history']
    stripped = [o for o in hist if o['op'] in ('set', 'get')]
    variants = {'as-generated': hist,
                'before-final_setup': stripped,
                'after-final_setup': [{'op': 'final'}] + stripped,
                'after-run_model': [{'op': 'final'}, {'op': 'run'}] + stripped}
    res = {}
    fails = []
    for vn, h in variants.items():
        try:
            ans, f = run_history(case, h, None)
        except Exception as e:
            return {'res': {'e': 1}, 'ok': False, 'sig': 'raised:' + vn, 'kind': case['kind'],
                    'msg': '%s: %s: %s' % (vn, type(e).__name__, str(e)[:500])}
        res[vn] = ans
        fails += ['[%s] %s' % (vn, x) for x in f]
    base = res['as-generated']
    gets = [o for o in hist if o['op'] == 'get']
    # phase independence
    for vn, ans in res.items():
        for k, (a, b) in enumerate(zip(ans, base)):
            if (len(a) != len(b) or any(not close(x, y, gets[k]['inexact']) for x, y in zip(a, b))) and len(fails) < 3:
                fails.append('get #%d %r(indices=%r, units=%r) answers %s in phase %s but %s as generated' % (
                    k, gets[k]['name'], gets[k]['indices'] and om_idx(gets[k]['indices']), gets[k]['units'], a, vn, b))
    # round trip: a get flagged 'echo' repeats the arguments of the set just before it
    for vn, ans in res.items():
        for k, g in enumerate(gets):
            if g.get('echo') is not None:
                want = g['echo']
                a = ans[k]
                if (len(a) != len(want) or any(not close(x, y, g['inexact']) for x, y in zip(a, want))) and len(fails) < 3:
                    fails.append('[%s] set_val(%r, %s, indices=%r, units=%r) then get_val returned %s' % (
                        vn, g['name'], want, g['indices'] and om_idx(g['indices']), g['units'], a))
    ok = not fails
    return {'res': [[q(x) for x in a] for a in base], 'ok': ok, 'msg': '; '.join(fails[:3]), 'kind': case['kind'],
            'sig': 'set-get-mismatch' if not ok else ''}


if __name__ == '__main__':
    main(handle)
