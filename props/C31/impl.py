"""C31 implementation side: random sequences of API calls on generated models, with bitwise snapshots of the
model's vectors before and after every call.

subject : the problem that receives the whole sequence (run_model, set_val and the queries compute_totals,
          compute_jacvec_product, check_partials, check_totals, total coloring, list_inputs/outputs/vars)
twin    : a second problem built from the same description that receives ONLY the set_val and run_model calls
oracle  : every query leaves the subject's inputs and outputs bit-for-bit unchanged; every run_model gives
          bit-for-bit the twin's outputs (the same state gives the same outputs, nothing leaks out of the
          queries into later evaluations); re-running from a restored state gives the same bits.
"""
import os
import random
import sys
import warnings

warnings.simplefilter('ignore')
sys.path.insert(0, os.path.dirname(os.path.abspath(__file__)))
import numpy as np  # noqa: E402
import openmdao.api as om  # noqa: E402
from openmdao.utils.coloring import compute_total_coloring  # noqa: E402
from implutil import main  # noqa: E402
import kmodels  # noqa: E402


def snap(p):
    m = p.model
    return (m._inputs.asarray().copy(), m._outputs.asarray().copy(), m._residuals.asarray().copy())


def shape_of(p, name):
    return np.asarray(p.get_val(name)).shape


def do_query(p, op, spec, rnd):
    k = op['op']
    if k == 'totals':
        p.compute_totals(of=op.get('of'), wrt=op.get('wrt'), return_format=op.get('fmt', 'flat_dict'))
    elif k == 'jacvec':
        of, wrt, mode = op['of'], op['wrt'], op['mode']
        names = wrt if mode == 'fwd' else of
        seed = {n: np.full(shape_of(p, n), 1.0 + 0.5 * j) for j, n in enumerate(names)}
        p.compute_jacvec_product(of, wrt, mode, seed, linearize=op.get('linearize', False))
    elif k == 'check_partials':
        p.check_partials(out_stream=None, method=op.get('method', 'fd'), form=op.get('form', 'forward'),
                         compact_print=True)
    elif k == 'check_totals':
        p.check_totals(of=op.get('of'), wrt=op.get('wrt'), out_stream=None, method=op.get('method', 'fd'),
                       compact_print=True)
    elif k == 'coloring':
        if op.get('via') == 'problem':
            p.get_total_coloring(run_model=False)
        else:
            compute_total_coloring(p, run_model=False, of=op.get('of'), wrt=op.get('wrt'))
    elif k == 'list_inputs':
        p.model.list_inputs(out_stream=None, units=True, shape=True, prom_name=True, hierarchical=False)
    elif k == 'list_outputs':
        p.model.list_outputs(out_stream=None, residuals=True, bounds=True, scaling=True, prom_name=True)
    elif k == 'list_vars':
        p.list_driver_vars(out_stream=None)
    else:
        raise ValueError(k)


def handle(c):
    spec = c['spec']
    rnd = random.Random(c['seed'])
    msgs = []

    def bad(m):
        if len(msgs) < 5:
            msgs.append(m)

    try:
        p = kmodels.build(spec)
        t = kmodels.build(spec)
        for q in (p, t):
            q.setup(force_alloc_complex=True)
            kmodels.set_init(q, spec)
            q.final_setup()
    except Exception as e:   # noqa
        return {'res': '__none__', 'ok': True, 'msg': 'scenario does not set up: %r' % (e,), 'kind': 'skipped', 'sig': ''}
    table = {}

    def vid(a):
        return table.setdefault(a.tobytes(), len(table))

    obs = []
    stats = {'calls': 0, 'queries': 0, 'runs': 0, 'query_errors': 0, 'reruns': 0}
    kinds = {}
    errs = {}
    dirty = True
    n = spec['comps'][0]['n']
    for op in c['seq']:
        k = op['op']
        b = snap(p)
        stats['calls'] += 1
        if k == 'run':
            ep = et = None
            try:
                p.run_model()
            except Exception as e:   # noqa
                ep = e
            try:
                t.run_model()
            except Exception as e:   # noqa
                et = e
            if ep is not None or et is not None:
                if ep is None or et is None or type(ep) is not type(et):
                    bad('run_model %s in the problem that made the queries and %s in the twin that made none' % (
                        'raised %r' % (ep,) if ep is not None else 'returned',
                        'raised %r' % (et,) if et is not None else 'returned'))
                else:
                    # the generated model cannot be evaluated here (e.g. singular Newton system): not a scenario
                    stats['run_raises_in_both'] = stats.get('run_raises_in_both', 0) + 1
                break
            a = snap(p)
            ta = snap(t)
            stats['runs'] += 1
            if a[1].tobytes() != ta[1].tobytes() or a[0].tobytes() != ta[0].tobytes():
                d = np.nonzero(a[1] != ta[1])[0][:4].tolist()
                bad('run_model after %r: outputs differ from the twin problem that made no queries at '
                    'positions %s: %r vs %r' % ([o['op'] for o in c['seq'][:stats['calls']]][-5:], d,
                                                a[1][d].tolist(), ta[1][d].tolist()))
            if op.get('again'):
                # the same state once more: restore the vectors as they were before this call and run again
                m = p.model
                m._inputs.asarray()[:] = b[0]
                m._outputs.asarray()[:] = b[1]
                m._residuals.asarray()[:] = b[2]
                p.run_model()
                a2 = snap(p)
                stats['reruns'] += 1
                if a2[1].tobytes() != a[1].tobytes():
                    bad('run_model twice from the same state gives different outputs: %r vs %r' % (
                        a[1].tolist()[:6], a2[1].tolist()[:6]))
            dirty = False
            obs.append(['run', [vid(b[0]), vid(b[1])], [vid(a[0]), vid(a[1])]])
            # the twin contributes to the same run relation
            continue
        if k == 'set':
            for q in (p, t):
                for nm, val in op['vals']:
                    q.set_val(nm, val)
            a = snap(p)
            dirty = True
            obs.append(['set', [vid(b[0]), vid(b[1])], [vid(a[0]), vid(a[1])]])
            continue
        stats['queries'] += 1
        kinds[k] = kinds.get(k, 0) + 1
        err = None
        j0 = j1 = None
        # derivative values are compared only at a clean state (the model has been run since the last set_val):
        # approximated totals at a state whose outputs are not the model's response to its inputs are not defined
        tw = op.get('tw') if not dirty else None
        if tw:
            try:
                j0 = p.compute_totals(of=tw[0], wrt=tw[1], return_format='flat_dict')
            except Exception:   # noqa
                j0 = None
            if snap(p)[0].tobytes() != b[0].tobytes() or snap(p)[1].tobytes() != b[1].tobytes():
                bad('compute_totals(of=%r, wrt=%r) changed the model state' % (tw[0], tw[1]))
        try:
            do_query(p, op, spec, rnd)
        except Exception as e:   # noqa
            err = e
            stats['query_errors'] += 1
            errs.setdefault('%s: %s: %s' % (k, type(e).__name__, str(e)[:100]), 0)
        if j0 is not None and err is None and snap(p)[2].tobytes() != b[2].tobytes():
            # the query refreshed the residual vector (allowed: the property is about inputs and outputs), and the
            # implementation's approximated derivatives use the stored residuals as their baseline (FINDINGS.md 8):
            # derivative values are compared only across queries that leave all three vectors unchanged
            stats['totals_pairs_residuals_changed'] = stats.get('totals_pairs_residuals_changed', 0) + 1
        elif j0 is not None and err is None:
            try:
                j1 = p.compute_totals(of=tw[0], wrt=tw[1], return_format='flat_dict')
            except Exception as e:   # noqa
                bad('compute_totals works before %s but raises after it: %r' % (k, e))
            stats['totals_pairs'] = stats.get('totals_pairs', 0) + 1
            if j1 is not None:
                for key in j0:
                    if np.asarray(j0[key]).tobytes() != np.asarray(j1[key]).tobytes():
                        a0, a1 = np.asarray(j0[key]).ravel(), np.asarray(j1[key]).ravel()
                        d = [i for i in range(min(a0.size, a1.size)) if a0[i:i + 1].tobytes() != a1[i:i + 1].tobytes()][:4]
                        bad('hidden state: compute_totals %r is %r before %s(%s) and %r after it at positions %s '
                            '(inputs and outputs unchanged)' % (
                                key, [repr(float(a0[i])) for i in d], k,
                                {kk: vv for kk, vv in op.items() if kk not in ('op', 'tw')},
                                [repr(float(a1[i])) for i in d], d))
                        break
        a = snap(p)
        if err is not None and 'OMInvalidCheckDerivativesOptionsWarning' not in type(err).__name__:
            # the call did not complete: the property speaks about calls that return.  What an interrupted query
            # leaves behind (a perturbation in the vectors, complex-step mode) is FINDINGS.md observation 4; the
            # scenario ends here (counted)
            if a[0].tobytes() != b[0].tobytes() or a[1].tobytes() != b[1].tobytes():
                stats['raised_and_left_state_perturbed'] = stats.get('raised_and_left_state_perturbed', 0) + 1
            stats['ended_by_raising_query'] = stats.get('ended_by_raising_query', 0) + 1
            break
        for lab, i in (('inputs', 0), ('outputs', 1)):
            if a[i].tobytes() != b[i].tobytes():
                d = np.nonzero(a[i] != b[i])[0][:4].tolist()
                bad('%s(%s)%s changed the model %s at vector positions %s: %r -> %r' % (
                    k, {kk: vv for kk, vv in op.items() if kk != 'op'}, ' [raised %r]' % (err,) if err else '',
                    lab, d, b[i][d].tolist(), a[i][d].tolist()))
        obs.append(['query', [vid(b[0]), vid(b[1])], [vid(a[0]), vid(a[1])]])
    ok = not msgs
    sig = ''
    if msgs:
        m = msgs[0]
        sig = 'C31:' + ('run-vs-twin' if 'twin' in m else 'run-twice' if 'twice' in m else
                        'run-fails' if m.startswith('run_model raised') or m.startswith('run_model returned') else
                        'hidden-state-totals' if m.startswith('hidden state') else 'query-' + m.split('(')[0])
    stats['query_kinds'] = kinds
    stats['errors'] = sorted(errs)[:5]
    return {'res': obs, 'ok': ok, 'msg': ' ;; '.join(msgs[:3]), 'sig': sig,
            'kind': ('coupled' if spec.get('coupled') else 'explicit') + ('/approx' if c.get('approx') else ''),
            'stats': stats}


if __name__ == '__main__':
    main(handle)
