"""Generated OpenMDAO models shared by the C17/C18/C19/C31 checks (identical copies in each props/CXX).

gen_spec(rng, ...)  -> JSON-serialisable description (used by check.py; pure python, no openmdao import)
build(spec)         -> om.Problem, not yet set up (used by impl.py under /venv python, PYTHONPATH=/repo)

A model is a tree of groups given by dotted component paths.  Every component computes, elementwise on
vectors of length n,   out_j = sum_i c[j][i] * in_i + d[j] + q[j] * in_0**2     (explicit), or has the
residual            R_j = a[j] * out_j - (sum_i c[j][i] * in_i + d[j])          (implicit, a[j] != 0).
Coefficients are small dyadic rationals.  Connections are given by root-promoted names.
"""


# --------------------------------------------------------------------------- generation (no openmdao)

VAR_IN = ['a', 'b', 'x', 'x1', 'xx']
VAR_OUT = ['y', 'y1', 'z', 'f', 'yz']


def gen_spec(rng, ncomp=(1, 4), coupled=None, groups=None, sizes=(1, 2, 3), implicit=True, promote=True,
             nl_iters=None, sub_solvers=False, extra_kinds=(), group_names=None, sub_solver_prob=0.35):
    nc = rng.randint(*ncomp)
    if groups is None:
        groups = rng.random() < 0.6
    if coupled is None:
        coupled = nc >= 2 and rng.random() < 0.4
    n = rng.choice(sizes)
    gnames = list(group_names) if group_names else ['g1', 'g2', 'g10', 'sub']
    comps = []
    for k in range(nc):
        name = rng.choice(['c', 'd', 'comp', 'c1']) + str(k + 1)
        if groups and rng.random() < 0.7:
            g = rng.choice(gnames[:2] if rng.random() < 0.7 else gnames)
            if rng.random() < 0.25:
                g = g + '.' + rng.choice(['in', 'g1'])
            path = g + '.' + name
        else:
            path = name
        nin = rng.randint(1, 2)
        nout = rng.randint(1, 2)
        ins = rng.sample(VAR_IN, nin)
        outs = rng.sample(VAR_OUT, nout)
        kind = 'expl'
        if implicit and rng.random() < 0.2:
            kind = 'impl'
        elif extra_kinds and rng.random() < 0.45:
            kind = rng.choice(extra_kinds)
        dy = [-2, -1, -0.5, 0.5, 1, 1.5, 2, 0.25]
        comp = {'path': path, 'kind': kind, 'n': n, 'ins': ins, 'outs': outs,
                'c': [[rng.choice(dy) for _ in ins] for _ in outs],
                'd': [rng.choice([0, 1, -1, 0.5, 3]) for _ in outs],
                'q': [rng.choice([0, 0, 0.25, -0.125]) if kind in ('expl', 'exec') else 0 for _ in outs],
                'a': [rng.choice([1, 2, -2, 4]) for _ in outs],
                'prom_in': [v for v in ins if promote and rng.random() < 0.3],
                'prom_out': [v for v in outs if promote and rng.random() < 0.3]}
        comps.append(comp)
    # put the components in the order in which OpenMDAO will execute them (groups run their subsystems in
    # the order of addition), so that "connected to an earlier component" means feed-forward at every level
    first = {}
    for k, c in enumerate(comps):
        parts = c['path'].split('.')
        for j in range(1, len(parts) + 1):
            first.setdefault('.'.join(parts[:j]), k)
    comps.sort(key=lambda c: tuple(first['.'.join(c['path'].split('.')[:j])]
                                   for j in range(1, len(c['path'].split('.')) + 1)))
    # make promoted names unique inside a group by suffixing with the component index
    seen = {}
    for k, c in enumerate(comps):
        parent = c['path'].rsplit('.', 1)[0] if '.' in c['path'] else ''
        for lst in ('prom_in', 'prom_out'):
            keep = []
            for v in c[lst]:
                if (parent, v) in seen:
                    continue
                seen[(parent, v)] = k
                keep.append(v)
            c[lst] = keep
    spec = {'comps': comps, 'conns': [], 'solvers': {}, 'dvs': [], 'objs': [], 'cons': []}
    # feed-forward connections: every input of comp k is connected, with some probability, to an
    # output of an earlier component
    used_in = set()
    for k in range(1, nc):
        for v in comps[k]['ins']:
            if rng.random() < 0.7:
                j = rng.randrange(0, k)
                o = rng.choice(comps[j]['outs'])
                spec['conns'].append([prom_name(comps[j], o, 'out'), prom_name(comps[k], v, 'in')])
                used_in.add((k, v))
    if coupled:
        # one feedback connection from the last component to a free input of the first one
        free = [v for v in comps[0]['ins'] if (0, v) not in used_in]
        if free and nc >= 2:
            v = free[0]
            o = comps[-1]['outs'][0]
            spec['conns'].append([prom_name(comps[-1], o, 'out'), prom_name(comps[0], v, 'in')])
            used_in.add((0, v))
            # keep the loop gain small so that block Gauss-Seidel converges slowly but surely
            for c in comps:
                c['c'] = [[0.5 * x for x in row] for row in c['c']]
                c['q'] = [0 for _ in c['q']]
            it = nl_iters if nl_iters is not None else rng.choice([3, 11, 12])
            spec['solvers'][''] = {'nl': rng.choice(['nlbgs', 'nlbgs', 'newton']), 'maxiter': it,
                                   'ln': 'direct'}
        else:
            coupled = False
    spec['coupled'] = bool(coupled)
    if sub_solvers:
        gpaths = sorted({c['path'].rsplit('.', 1)[0] for c in comps if '.' in c['path']})
        for g in gpaths:
            if rng.random() < sub_solver_prob:
                spec['solvers'][g] = {'nl': 'nlbgs', 'maxiter': rng.choice([2, 3, 11]), 'ln': 'direct'}
    if not coupled and any(c['kind'] == 'impl' for c in comps):
        pass    # implicit components provide solve_nonlinear; run-once is enough
    # design variables: free inputs;  responses: outputs
    free_inputs = [(k, v) for k, c in enumerate(comps) for v in c['ins'] if (k, v) not in used_in]
    rng.shuffle(free_inputs)
    for k, v in free_inputs[:rng.randint(1, 2)]:
        spec['dvs'].append({'name': prom_name(comps[k], v, 'in'), 'lower': -10, 'upper': 10})
    outs = [(k, o) for k, c in enumerate(comps) for o in c['outs']]
    rng.shuffle(outs)
    k, o = outs[0]
    spec['objs'].append({'name': prom_name(comps[k], o, 'out'), 'index': 0 if n > 1 else None})
    for k, o in outs[1:rng.randint(1, 3)]:
        spec['cons'].append({'name': prom_name(comps[k], o, 'out'), 'upper': 100.0})
    # initial values of the free inputs
    spec['init'] = {prom_name(comps[k], v, 'in'): [rng.choice([-1, 0.5, 1, 2, 3]) for _ in range(n)]
                    for k, v in free_inputs}
    return spec


def prom_name(comp, var, io):
    """root-promoted name of a component variable (promotion is one level: into the parent group)"""
    path = comp['path']
    if var in comp['prom_' + io]:
        parent = path.rsplit('.', 1)[0] if '.' in path else ''
        return parent + '.' + var if parent else var
    return path + '.' + var


def abs_name(comp, var):
    return comp['path'] + '.' + var


def all_abs_names(spec):
    ins, outs = [], []
    for c in spec['comps']:
        ins += [abs_name(c, v) for v in c['ins']]
        outs += [abs_name(c, v) for v in c['outs']]
    return ins, outs


# --------------------------------------------------------------------------- construction (openmdao)

def _classes():
    import numpy as np
    import openmdao.api as om

    class KExpl(om.ExplicitComponent):
        def initialize(self):
            self.options.declare('spec', recordable=False)

        def setup(self):
            s = self.options['spec']
            n = s['n']
            for v in s['ins']:
                self.add_input(v, val=np.ones(n), units=s.get('units', {}).get(v))
            for v in s['outs']:
                rr = s.get('ref', {}).get(v)
                if rr:
                    self.add_output(v, val=np.ones(n), ref=rr[0], ref0=rr[1],
                                    res_ref=rr[2] if len(rr) > 2 else None)
                else:
                    self.add_output(v, val=np.ones(n))
            ar = np.arange(n)
            ap = s.get('approx')
            if ap in ('fd', 'cs'):
                self.declare_partials('*', '*', method=ap)
            elif ap == 'fdcolor':
                self.declare_partials('*', '*', method='fd')
                self.declare_coloring(wrt='*', method='fd', show_summary=False, show_sparsity=False)
            else:
                for o in s['outs']:
                    for i in s['ins']:
                        self.declare_partials(o, i, rows=ar, cols=ar)

        def compute(self, inputs, outputs):
            s = self.options['spec']
            for j, o in enumerate(s['outs']):
                acc = np.full(s['n'], float(s['d'][j]))
                for i, v in enumerate(s['ins']):
                    acc = acc + s['c'][j][i] * inputs[v]
                acc = acc + s['q'][j] * inputs[s['ins'][0]] ** 2
                outputs[o] = acc

        def compute_partials(self, inputs, partials):
            s = self.options['spec']
            if s.get('approx'):
                return
            for j, o in enumerate(s['outs']):
                for i, v in enumerate(s['ins']):
                    d = np.full(s['n'], float(s['c'][j][i]))
                    if i == 0:
                        d = d + 2.0 * s['q'][j] * inputs[v]
                    partials[o, v] = d

    class KImpl(om.ImplicitComponent):
        def initialize(self):
            self.options.declare('spec', recordable=False)

        def setup(self):
            s = self.options['spec']
            n = s['n']
            for v in s['ins']:
                self.add_input(v, val=np.ones(n), units=s.get('units', {}).get(v))
            for v in s['outs']:
                rr = s.get('ref', {}).get(v)
                if rr:
                    self.add_output(v, val=np.ones(n), ref=rr[0], ref0=rr[1],
                                    res_ref=rr[2] if len(rr) > 2 else None)
                else:
                    self.add_output(v, val=np.ones(n))
            ar = np.arange(n)
            for o in s['outs']:
                self.declare_partials(o, o, rows=ar, cols=ar)
                for i in s['ins']:
                    self.declare_partials(o, i, rows=ar, cols=ar)

        def _rhs(self, inputs, j):
            s = self.options['spec']
            acc = np.full(s['n'], float(s['d'][j]))
            for i, v in enumerate(s['ins']):
                acc = acc + s['c'][j][i] * inputs[v]
            return acc

        def apply_nonlinear(self, inputs, outputs, residuals):
            s = self.options['spec']
            for j, o in enumerate(s['outs']):
                residuals[o] = s['a'][j] * outputs[o] - self._rhs(inputs, j)

        def solve_nonlinear(self, inputs, outputs):
            s = self.options['spec']
            for j, o in enumerate(s['outs']):
                outputs[o] = self._rhs(inputs, j) / s['a'][j]

        def linearize(self, inputs, outputs, partials):
            s = self.options['spec']
            for j, o in enumerate(s['outs']):
                partials[o, o] = np.full(s['n'], float(s['a'][j]))
                for i, v in enumerate(s['ins']):
                    partials[o, v] = np.full(s['n'], -float(s['c'][j][i]))

    class KConst(om.ExplicitComponent):
        """linear component whose partials are declared once as constants (no compute_partials)"""
        def initialize(self):
            self.options.declare('spec', recordable=False)

        def setup(self):
            s = self.options['spec']
            n = s['n']
            for v in s['ins']:
                self.add_input(v, val=np.ones(n), units=s.get('units', {}).get(v))
            for v in s['outs']:
                rr = s.get('ref', {}).get(v)
                if rr:
                    self.add_output(v, val=np.ones(n), ref=rr[0], ref0=rr[1],
                                    res_ref=rr[2] if len(rr) > 2 else None)
                else:
                    self.add_output(v, val=np.ones(n))
            ar = np.arange(n)
            for j, o in enumerate(s['outs']):
                for i, v in enumerate(s['ins']):
                    self.declare_partials(o, v, rows=ar, cols=ar, val=float(s['c'][j][i]))

        def compute(self, inputs, outputs):
            s = self.options['spec']
            for j, o in enumerate(s['outs']):
                acc = np.full(s['n'], float(s['d'][j]))
                for i, v in enumerate(s['ins']):
                    acc = acc + s['c'][j][i] * inputs[v]
                outputs[o] = acc

    class KLoadGroup(om.Group):
        """a group that restores its own variables from a case (overrides System.load_case)"""
        def load_case(self, case):
            pre = self.pathname + '.'
            root = self._problem_meta['model_ref']()
            if case.inputs is not None:
                for nm in case.inputs.absolute_names():
                    if nm.startswith(pre):
                        root.set_val(nm, case.inputs[nm])
            if case.outputs is not None:
                done = set()
                for nm in case.outputs.absolute_names():
                    if nm.startswith(pre):
                        root.set_val(nm, case.outputs[nm])
                        done.add(nm)
                for nm in case.outputs:     # names Problem.load_case leaves to this system: promoted input
                    if nm.startswith(pre) and nm not in done:   # names of automatic sources
                        try:
                            src = root.get_source(nm)
                        except Exception:   # noqa
                            continue
                        if src not in done:
                            root.set_val(src, case.outputs[nm])

    class KDisc(om.ExplicitComponent):
        """a component with a discrete input and output (its presence changes how cases are stored)"""
        def setup(self):
            self.add_input('u', val=1.0)
            self.add_discrete_input('n', val=2)
            self.add_output('v', val=1.0)
            self.add_discrete_output('m', val=0)

        def compute(self, inputs, outputs, discrete_inputs, discrete_outputs):
            outputs['v'] = discrete_inputs['n'] * inputs['u'] + 0.5
            discrete_outputs['m'] = discrete_inputs['n'] + 1

    class KShape(om.ExplicitComponent):
        """y = 2 x where the size of x comes from what it is connected to"""
        def setup(self):
            self.add_input('x', shape_by_conn=True)
            self.add_output('y', copy_shape='x')

        def setup_partials(self):
            self.declare_partials('y', 'x', method='fd')

        def compute(self, inputs, outputs):
            outputs['y'] = 2.0 * inputs['x']

    return KExpl, KImpl, KConst, KLoadGroup, KDisc, KShape


def _exec_comp(om, c):
    """the same formula as KExpl, as an ExecComp"""
    n = c['n']
    exprs = []
    for j, o in enumerate(c['outs']):
        terms = ['%r' % float(c['d'][j])]
        for i, v in enumerate(c['ins']):
            terms.append('%r*%s' % (float(c['c'][j][i]), v))
        if c['q'][j]:
            terms.append('%r*%s**2' % (float(c['q'][j]), c['ins'][0]))
        exprs.append('%s = %s' % (o, ' + '.join(terms)))
    import numpy as np
    kw = {v: {'shape': (n,), 'val': np.ones(n)} for v in c['ins'] + c['outs']}
    return om.ExecComp(exprs, **kw)


_CLS = None


def build(spec, driver=None):
    """Return an om.Problem for the spec (setup() not yet called)."""
    global _CLS
    import openmdao.api as om
    if _CLS is None:
        _CLS = _classes()
    KExpl, KImpl, KConst, KLoadGroup, KDisc, KShape = _CLS
    p = om.Problem()
    groups = {'': p.model}
    overriding = set(spec.get('load_override', []))

    def group_of(path):
        if path in groups:
            return groups[path]
        parent, _, name = path.rpartition('.')
        g = group_of(parent).add_subsystem(name, KLoadGroup() if path in overriding else om.Group())
        groups[path] = g
        return g

    for c in spec['comps']:
        parent, _, name = c['path'].rpartition('.')
        if c['kind'] == 'exec':
            comp = _exec_comp(om, c)
        elif c['kind'] == 'const':
            comp = KConst(spec=c)
        else:
            comp = (KImpl if c['kind'] == 'impl' else KExpl)(spec=c)
        sidx = c.get('src_idx', {})
        g = group_of(parent)
        g.add_subsystem(name, comp, promotes_inputs=[v for v in c['prom_in'] if v not in sidx],
                        promotes_outputs=list(c['prom_out']))
        for v, meta in sidx.items():
            # promoted with src_indices into a larger (automatically created) source
            g.promotes(name, inputs=[v], src_indices=meta['idx'], src_shape=(meta['shape'],))
    sbc = spec.get('sbc')
    if sbc:
        # a second input of the same promoted name, sized by its connection, and a default value for the name
        import numpy as np
        groups[sbc['group']].add_subsystem('sbc', KShape(), promotes_inputs=[('x', sbc['var'])])
        p.model.set_input_defaults(sbc['name'], val=np.array(sbc['val'], dtype=float))
    if spec.get('discrete'):
        p.model.add_subsystem('disc', KDisc(), promotes_inputs=[('u', 'u_d'), ('n', 'n_d')])
    for src, tgt in spec['conns']:
        p.model.connect(src, tgt)
    for name, meta in spec.get('input_defaults', {}).items():
        p.model.set_input_defaults(name, **meta)
    for path, s in spec.get('solvers', {}).items():
        g = groups[path]
        if s['nl'] == 'nlbgs':
            g.nonlinear_solver = om.NonlinearBlockGS(maxiter=s['maxiter'], atol=1e-300, rtol=1e-300, iprint=-1)
        elif s['nl'] == 'newton':
            g.nonlinear_solver = om.NewtonSolver(solve_subsystems=False, maxiter=s['maxiter'], atol=1e-300,
                                                 rtol=1e-300, iprint=-1)
        g.linear_solver = om.DirectSolver()
    for path, method in spec.get('approx_groups', {}).items():
        groups[path].approx_totals(method=method)
        if path in spec.get('group_coloring', []):
            # dynamic coloring of the group's approximated jacobian (computed in the first linearization)
            groups[path].declare_coloring(wrt='*', method=method, show_summary=False, show_sparsity=False)
    for d in spec.get('dvs', []):
        p.model.add_design_var(d['name'], lower=d['lower'], upper=d['upper'], scaler=d.get('scaler'),
                               adder=d.get('adder'))
    for o in spec.get('objs', []):
        p.model.add_objective(o['name'], index=o.get('index'), scaler=o.get('scaler'), adder=o.get('adder'))
    for o in spec.get('cons', []):
        p.model.add_constraint(o['name'], upper=o['upper'], scaler=o.get('scaler'), adder=o.get('adder'))
    if driver is None and spec.get('driver_coloring'):
        driver = om.ScipyOptimizeDriver(optimizer='SLSQP', disp=False)
    if driver is not None:
        p.driver = driver
    if spec.get('driver_coloring'):
        # dynamic total coloring: computed by the first compute_totals that uses the driver's variables
        p.driver.declare_coloring(show_summary=False, show_sparsity=False)
    p._k_groups = groups
    return p


def set_init(p, spec):
    for name, val in spec.get('init', {}).items():
        p.set_val(name, val)
