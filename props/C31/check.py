"""C31 -- evaluations are deterministic and derivative queries are read-only."""
import json
import os
import random
import sys

sys.path.insert(0, os.path.dirname(os.path.abspath(__file__)))
import core  # noqa: E402
from core import Verdict, proof_gate, run_impl, coq_mismatches, coq_show, to_val, workdir, seed_from_env  # noqa: E402
import kmodels  # noqa: E402

PID = 'C31'
IMPL = 'props/C31/impl.py'


def gen_case(rng, tier, i):
    coupled = (i % 3 == 2)
    spec = kmodels.gen_spec(rng, ncomp=(2, 4), sizes=(1, 2, 3), coupled=coupled, nl_iters=rng.choice([3, 8, 30]),
                            extra_kinds=('exec', 'const'))
    if not coupled:
        spec['solvers'] = {}
    approx = False
    if rng.random() < 0.5:
        for c in spec['comps']:
            if c['kind'] == 'expl' and rng.random() < 0.4:
                c['approx'] = rng.choice(['fd', 'cs', 'fdcolor'])
                approx = True
    if not coupled and rng.random() < 0.25:
        groups = sorted({c['path'].rsplit('.', 1)[0] for c in spec['comps'] if '.' in c['path']})
        if groups:
            spec['approx_groups'] = {rng.choice(groups): rng.choice(['fd', 'cs'])}
            approx = True
    if spec['dvs'] and rng.random() < 0.45:
        spec['driver_coloring'] = True
    if not coupled and not spec.get('approx_groups') and rng.random() < 0.3:
        # the whole model approximated and coloured
        # (OpenMDAO supports a coloring of an approximated group only for the top-level model)
        spec['approx_groups'] = {'': rng.choice(['fd', 'cs'])}
        if rng.random() < 0.75:
            spec['group_coloring'] = ['']
        approx = True
    n = spec['comps'][0]['n']
    free = sorted(spec['init'])
    dv = [d['name'] for d in spec['dvs']]
    resp = [o['name'] for o in spec['objs']] + [o['name'] for o in spec['cons']]
    outs = [kmodels.prom_name(c, v, 'out') for c in spec['comps'] for v in c['outs']]

    def of_wrt():
        if rng.random() < 0.5 or not free:
            return (resp or outs[:1]), (dv or free[:1])
        return rng.sample(outs, rng.randint(1, min(2, len(outs)))), rng.sample(free, rng.randint(1, min(2, len(free))))

    seq = [{'op': 'run'}]
    if free and rng.random() < 0.6:
        # the first derivative query (the one that computes dynamic colorings / sparsities) comes after exactly
        # one run_model and a set_val: the model state is deliberately dirty (inputs changed since the last run)
        seq.append({'op': 'set', 'vals': [[nm, [rng.choice([-2, -0.75, 0.25, 1.5, 4, 7.125]) for _ in range(n)]]
                                          for nm in free]})
        seq.append(rng.choice([{'op': 'totals', 'of': None, 'wrt': None, 'fmt': 'flat_dict'},
                               {'op': 'totals', 'of': None, 'wrt': None, 'fmt': 'array'},
                               {'op': 'check_totals', 'of': None, 'wrt': None, 'method': 'fd'}]))
    L = rng.randint(10, 16) if tier == 'quick' else rng.randint(20, 40)
    for _ in range(L):
        r = rng.random()
        if r < 0.15:
            seq.append({'op': 'run', 'again': rng.random() < 0.5})
        elif r < 0.28 and free:
            seq.append({'op': 'set', 'vals': [[nm, [rng.choice([-2, -0.75, 0.25, 1.5, 4, 7.125]) for _ in range(n)]]
                                              for nm in free if rng.random() < 0.7]})
        else:
            k = rng.choice(['totals', 'totals', 'jacvec', 'jacvec', 'check_partials', 'check_totals', 'coloring',
                            'list_inputs', 'list_outputs', 'list_vars'])
            op = {'op': k}
            if k in ('totals', 'jacvec', 'check_totals', 'coloring'):
                of, wrt = of_wrt()
                if k in ('totals', 'check_totals') and rng.random() < 0.35:
                    of = wrt = None         # the driver's design variables and responses (driver coloring applies)
                op['of'], op['wrt'] = of, wrt
                if not free:
                    continue
            if k == 'totals':
                op['fmt'] = rng.choice(['flat_dict', 'dict', 'array'])
            if k == 'jacvec':
                op['mode'] = rng.choice(['fwd', 'rev'])
                op['linearize'] = rng.random() < 0.7
            if k == 'check_partials':
                op['method'] = rng.choice(['fd', 'cs'])
                op['form'] = rng.choice(['forward', 'central', 'backward'])
            if k == 'check_totals':
                op['method'] = rng.choice(['fd', 'fd', 'cs'])
            if k == 'coloring':
                op['via'] = rng.choice(['problem', 'function'])
            if k != 'coloring' and free and rng.random() < 0.5:
                # derivative values must not depend on which queries were made in between
                op['tw'] = [resp or outs[:1], dv or free[:1]]
            seq.append(op)
    seq.append({'op': 'run', 'again': True})
    return {'spec': spec, 'seq': seq, 'approx': approx, 'seed': rng.randrange(10 ** 6)}


def gen(tier, rng):
    n = 60 if tier == 'quick' else 200
    return [gen_case(rng, tier, i) for i in range(n)]


KIND = {'run': 'KRun', 'set': 'KSet', 'query': 'KQuery'}


def got_want(res):
    obs = '[%s]' % '; '.join('(%s, ((%d), (%d)), ((%d), (%d)))' % (KIND[k], b[0], b[1], a[0], a[1]) for k, b, a in res)
    return '(c31_replay %s)' % obs, to_val([[a[0], a[1]] for _, _, a in res])


RULE = ('generated models (2-4 components, explicit / implicit, every third one coupled with block Gauss-Seidel or '
        'Newton + direct linear solver; analytic, fd, cs and dynamically coloured fd partials; group approx_totals) x '
        'random sequences of 12-18 (quick) / 22-42 (thorough) API calls: run_model, set_val, compute_totals (3 return '
        'formats), compute_jacvec_product fwd/rev, check_partials fd/cs x forward/central/backward, check_totals '
        'fd/cs, total coloring (Problem.get_total_coloring, coloring.compute_total_coloring), list_inputs, '
        'list_outputs, list_driver_vars; an evaluation is one call with full bitwise snapshots of the inputs, outputs '
        'and residuals vectors before and after')

ASSUMPTIONS = [
    'thin model: the internals of each query are not modelled instruction by instruction; the theorem says that any '
    'well-bracketed save/perturb/restore program is a frame, the tie observes every real call as a black box',
    'state outside the three nonlinear vectors (options, metadata, caches) is observed only through its effect on '
    'later run_model results (twin problem); single process; no driver runs inside the sequences',
]


def run_parallel(cases, wd, tag):
    import concurrent.futures as cf
    jobs = max(1, min(core.NCPU, 8, len(cases)))
    chunks = [cases[j::jobs] for j in range(jobs)]
    with cf.ThreadPoolExecutor(max_workers=jobs) as ex:
        futs = [ex.submit(run_impl, IMPL, ch, wd, '%s%d' % (tag, j), 1100, 1) for j, ch in enumerate(chunks)]
        outs = [f.result() for f in futs]
    if any(o[0] is None for o in outs):
        return None, '\n'.join(o[1] for o in outs)
    res = [None] * len(cases)
    for j, o in enumerate(outs):
        res[j::jobs] = o[0]
    return res, ''


def run_cases(v, wd, cases, tag, compare=True):
    results, log = run_parallel(cases, wd, tag)
    if results is None:
        v.broke('correspondence:implementation-run-failed')
        v.cov['broken_detail'] = log[-3000:]
        return False
    got, want, idx = [], [], []
    tot = {'calls': 0, 'queries': 0, 'runs': 0, 'query_errors': 0, 'reruns': 0, 'skipped': 0, 'totals_pairs': 0,
           'raised_and_left_state_perturbed': 0, 'ended_by_raising_query': 0, 'run_raises_in_both': 0,
           'totals_pairs_residuals_changed': 0,
           'query_kinds': {}}
    for i, (c, r) in enumerate(zip(cases, results)):
        st = r.get('stats', {})
        for k in ('calls', 'queries', 'runs', 'query_errors', 'reruns', 'raised_and_left_state_perturbed',
                  'totals_pairs', 'totals_pairs_residuals_changed', 'ended_by_raising_query', 'run_raises_in_both'):
            tot[k] += st.get(k, 0)
        for k, n in st.get('query_kinds', {}).items():
            tot['query_kinds'][k] = tot['query_kinds'].get(k, 0) + n
        if r.get('kind') == 'skipped':
            tot['skipped'] += 1
        for j in range(max(1, st.get('calls', 0))):
            v.count_case({'scenario': i, 'case': c} if j == 0 else {'scenario': i, 'call': j, 'seed': c['seed'],
                                                                    'tag': tag}, True, r.get('kind'))
        if not r.get('ok', True):
            v.failing(r.get('sig') or 'C31', c, r.get('msg', ''))
        if r.get('res', '__none__') != '__none__' and r['res']:
            g, w = got_want(r['res'])
            idx.append(i)
            got.append(g)
            want.append(w)
    v.cov.setdefault('stats', {})[tag] = tot
    if compare and idx:
        bad, errors, cmd = coq_mismatches(wd, ['C31.Model'], got, want, shard=10, tag='cases_' + tag)
        v.add_correspondence('observed history of (inputs, outputs) bit patterns = C31.Model.replay: queries keep the '
                             'state, run_model is a function of the state', tot['calls'], len(bad),
                             'E5 (bit patterns of the whole vectors)', cmd)
        if errors:
            v.broke('correspondence:model-evaluation-failed')
            v.cov['broken_detail'] = json.dumps(errors[:2])[-3000:]
        if bad:
            v.broke('correspondence:model-vs-implementation (%d of %d scenarios differ)' % (len(bad), len(idx)))
            b = idx[bad[0]]
            v.cov['broken_detail'] = json.dumps({
                'scenario': cases[b], 'implementation': results[b]['res'],
                'model': coq_show(wd, ['C31.Model'], [got[bad[0]]])[-3000:]})[-9000:]
    return True


def main(tier):
    seed = seed_from_env()
    rng = random.Random(seed * 1000003 + sum(map(ord, PID)))
    wd = workdir(PID, tier)
    v = Verdict(PID, tier, seed)
    v.cov['rule'] = RULE
    v.assumptions = list(ASSUMPTIONS)
    gate = proof_gate(PID, wd)
    v.add_proof(gate)
    cases = core.load_corpus(PID) + gen(tier, rng)
    ok = run_cases(v, wd, cases, 'impl')
    if ok and v.broken and not v.violations:
        rng2 = random.Random(seed + 77)
        run_cases(v, wd, gen('thorough' if tier == 'quick' else tier, rng2)[:100], 'search', compare=False)
    return v.finish()


def replay(rep):
    c = rep.get('case')
    if not c:
        print(json.dumps(rep, indent=1)[:3000])
        return 0
    wd = workdir(PID, 'replay')
    res, log = run_impl(IMPL, [c], wd, tag='replay', jobs=1)
    print(json.dumps({'ok': res[0].get('ok'), 'msg': res[0].get('msg')} if res else {'log': log[-2000:]}, indent=1))
    return 0 if res and res[0].get('ok') else 1
