import numpy as np, openmdao.api as om
class C(om.ExplicitComponent):
    def initialize(self): self.options.declare('sp', default=False)
    def setup(self):
        self.add_input('a', np.zeros(1)); self.add_output('y', np.zeros(1))
        if self.options['sp']: self.declare_partials('y','a',rows=[0],cols=[0],val=5.)
        else: self.declare_partials('y','a',val=5.)
    def compute(self,i,o): o['y']=5*i['a']
for sp in (False, True):
  for resp in ('con','obj'):
    for jac in (None, 'csc', 'dense'):
        p = om.Problem()
        p.model.add_subsystem('d', om.IndepVarComp('x', np.array([1., 2., 3.])))
        p.model.add_subsystem('c', C(sp=sp))
        p.model.connect('d.x', 'c.a', src_indices=[-1])
        p.model.add_design_var('d.x')
        if resp=='con': p.model.add_constraint('c.y', upper=0.)
        else: p.model.add_objective('c.y')
        p.model.linear_solver = om.DirectSolver(assemble_jac=bool(jac))
        if jac: p.model.options['assembled_jac_type'] = jac
        p.setup(mode='fwd'); p.run_model()
        try:
            print(sp, resp, jac, p.compute_totals(return_format='array'), p.get_val('c.y'))
        except Exception as e:
            print(sp, resp, jac, type(e).__name__, e)
