"""Builds the REAL om.Problem from a spec of specgen (implementation side; /venv python, PYTHONPATH=/repo)."""
import os
import sys
import warnings
from fractions import Fraction as F

import numpy as np

sys.path.insert(0, os.path.dirname(os.path.abspath(__file__)))
import specgen as sg  # noqa: E402

warnings.simplefilter('ignore')
import openmdao.api as om  # noqa: E402
warnings.filterwarnings('ignore')


def fl(x):
    """spec number(s) -> float array (exact: all spec numbers are dyadic)"""
    if x is None:
        return None
    x = sg.fr(x)
    if isinstance(x, list):
        return np.array([fl(v) for v in x], dtype=float)
    return float(x)


def _scal_kwargs(o):
    kw = {}
    for k in ('ref', 'ref0', 'res_ref'):
        if o.get(k) is not None:
            kw[k] = fl(o[k])
    return kw


def _declare(comp, of, wrt, mat, sparse, lazy=False):
    """lazy: declare the pattern only; the values are supplied by compute_partials / linearize"""
    mat = np.atleast_2d(np.asarray(mat, dtype=float))
    if sparse:
        rows, cols = np.nonzero(mat)
        if len(rows) == 0:
            return          # no declared dependence at all
        if lazy:
            comp.declare_partials(of, wrt, rows=rows, cols=cols)
            comp._lazy[of, wrt] = mat[rows, cols]
        else:
            comp.declare_partials(of, wrt, rows=rows, cols=cols, val=mat[rows, cols])
    elif lazy:
        comp.declare_partials(of, wrt)
        comp._lazy[of, wrt] = mat
    else:
        comp.declare_partials(of, wrt, val=mat)


class AffExp(om.ExplicitComponent):
    """y_o = sum_i A[o][i] x_i + b_o"""

    def initialize(self):
        self.options.declare('cs', types=dict)
        self.options.declare('use_mf', types=bool, default=False)
        self.options.declare('lazy', types=bool, default=False)

    def setup(self):
        cs = self.options['cs']
        self._lazy = {}
        for i in cs['ins']:
            self.add_input(i['name'], val=np.ones(i['size']) if i['val'] is None else fl(i['val']),
                           units=i['units'])
        for o in cs['outs']:
            self.add_output(o['name'], val=np.ones(o['size']), units=o['units'], **_scal_kwargs(o))
        self._A = {(o['name'], i['name']): np.atleast_2d(fl(A)).reshape(o['size'], i['size'])
                   for o in cs['outs'] for i, A in zip(cs['ins'], o['A'])}
        self._b = {o['name']: fl(o['b']) for o in cs['outs']}

    def setup_partials(self):
        if self.options['use_mf']:
            return
        for (o, i), A in self._A.items():
            _declare(self, o, i, A, self.options['cs']['sparse'], self.options['lazy'])

    def compute_partials(self, inputs, partials):
        for key, val in self._lazy.items():
            partials[key] = val

    def compute(self, inputs, outputs):
        cs = self.options['cs']
        for o in cs['outs']:
            y = self._b[o['name']].copy()
            for i in cs['ins']:
                y = y + self._A[o['name'], i['name']].dot(inputs[i['name']])
            outputs[o['name']] = y


class AffExpMF(AffExp):
    def compute_jacvec_product(self, inputs, d_inputs, d_outputs, mode):
        for (o, i), A in self._A.items():
            if o in d_outputs and i in d_inputs:
                if mode == 'fwd':
                    d_outputs[o] += A.dot(d_inputs[i])
                else:
                    d_inputs[i] += A.T.dot(d_outputs[o])


class AffImp(om.ImplicitComponent):
    """R_o = sum_k Ay[o][k] y_k + sum_i Bx[o][i] x_i - c_o; solves its own block exactly (dyadic inverse)"""

    def initialize(self):
        self.options.declare('cs', types=dict)
        self.options.declare('use_mf', types=bool, default=False)
        self.options.declare('lazy', types=bool, default=False)

    def setup(self):
        cs = self.options['cs']
        self._lazy = {}
        for i in cs['ins']:
            self.add_input(i['name'], val=np.ones(i['size']) if i['val'] is None else fl(i['val']),
                           units=i['units'])
        for o in cs['outs']:
            self.add_output(o['name'], val=np.ones(o['size']), units=o['units'], **_scal_kwargs(o))
        self._Ay = {(o['name'], o2['name']): np.atleast_2d(fl(A)).reshape(o['size'], o2['size'])
                    for o in cs['outs'] for o2, A in zip(cs['outs'], o['Ay'])}
        self._Bx = {(o['name'], i['name']): np.atleast_2d(fl(B)).reshape(o['size'], i['size'])
                    for o in cs['outs'] for i, B in zip(cs['ins'], o['Bx'])}
        self._c = {o['name']: fl(o['c']) for o in cs['outs']}
        n = sum(o['size'] for o in cs['outs'])
        self._Ainv = np.atleast_2d(fl(cs['Ainv'])).reshape(n, n)
        self._sl = {}
        s = 0
        for o in cs['outs']:
            self._sl[o['name']] = slice(s, s + o['size'])
            s += o['size']
        self._n = n

    def setup_partials(self):
        if self.options['use_mf']:
            return
        sp = self.options['cs']['sparse']
        for (o, k), A in self._Ay.items():
            _declare(self, o, k, A, sp, self.options['lazy'])
        for (o, i), B in self._Bx.items():
            _declare(self, o, i, B, sp, self.options['lazy'])

    def linearize(self, inputs, outputs, partials):
        for key, val in self._lazy.items():
            partials[key] = val

    def apply_nonlinear(self, inputs, outputs, residuals):
        cs = self.options['cs']
        for o in cs['outs']:
            r = -self._c[o['name']]
            for o2 in cs['outs']:
                r = r + self._Ay[o['name'], o2['name']].dot(outputs[o2['name']])
            for i in cs['ins']:
                r = r + self._Bx[o['name'], i['name']].dot(inputs[i['name']])
            residuals[o['name']] = r

    def solve_nonlinear(self, inputs, outputs):
        cs = self.options['cs']
        rhs = np.zeros(self._n)
        for o in cs['outs']:
            r = self._c[o['name']].copy()
            for i in cs['ins']:
                r = r - self._Bx[o['name'], i['name']].dot(inputs[i['name']])
            rhs[self._sl[o['name']]] = r
        y = self._Ainv.dot(rhs)
        for o in cs['outs']:
            outputs[o['name']] = y[self._sl[o['name']]]

    def solve_linear(self, d_outputs, d_residuals, mode):
        cs = self.options['cs']
        v = np.zeros(self._n)
        if mode == 'fwd':
            for o in cs['outs']:
                v[self._sl[o['name']]] = d_residuals[o['name']]
            y = self._Ainv.dot(v)
            for o in cs['outs']:
                d_outputs[o['name']] = y[self._sl[o['name']]]
        else:
            for o in cs['outs']:
                v[self._sl[o['name']]] = d_outputs[o['name']]
            y = self._Ainv.T.dot(v)
            for o in cs['outs']:
                d_residuals[o['name']] = y[self._sl[o['name']]]


class AffImpMF(AffImp):
    def apply_linear(self, inputs, outputs, d_inputs, d_outputs, d_residuals, mode):
        for (o, k), A in self._Ay.items():
            if o in d_residuals and k in d_outputs:
                if mode == 'fwd':
                    d_residuals[o] += A.dot(d_outputs[k])
                else:
                    d_outputs[k] += A.T.dot(d_residuals[o])
        for (o, i), B in self._Bx.items():
            if o in d_residuals and i in d_inputs:
                if mode == 'fwd':
                    d_residuals[o] += B.dot(d_inputs[i])
                else:
                    d_inputs[i] += B.T.dot(d_residuals[o])


TIGHT = dict(atol=1e-11, rtol=1e-14)
BLOCK = ('runonce', 'lbgs', 'lbjac')


def _linear_solver(kind, assemble, rhs=None, err=True):
    """err: ScipyKrylov raises AnalysisError when it reports non-convergence (OpenMDAO's default is to print a
    message and carry on with whatever is in the vectors).  The block solvers always raise."""
    kw = {}
    if rhs is not None and kind in ('direct', 'krylov'):
        kw['rhs_checking'] = dict(rhs) if isinstance(rhs, dict) else bool(rhs)
    if kind == 'direct':
        return om.DirectSolver(assemble_jac=assemble, **kw)
    if kind == 'krylov':
        return om.ScipyKrylov(assemble_jac=assemble, maxiter=500, atol=1e-13, rtol=1e-14, restart=60,
                              err_on_non_converge=err, **kw)
    if kind == 'lbgs':
        return om.LinearBlockGS(assemble_jac=assemble, maxiter=300, err_on_non_converge=True, **TIGHT)
    if kind == 'lbjac':
        return om.LinearBlockJac(assemble_jac=assemble, maxiter=300, err_on_non_converge=True, **TIGHT)
    if kind == 'runonce':
        return om.LinearRunOnce(assemble_jac=assemble)
    raise ValueError(kind)


def rhs_stats(prob):
    """summed cache statistics of every LinearRHSChecker of the model (needs collect_stats)"""
    tot = {}
    for sub in prob.model.system_iter(include_self=True, recurse=True):
        ls = getattr(sub, '_linear_solver', None)
        chk = getattr(ls, '_lin_rhs_checker', None) if ls is not None else None
        if chk is not None and chk._stats is not None:
            for k, v in chk._stats.items():
                tot[k] = tot.get(k, 0) + int(v)
    return tot


def build(spec, cfg):
    """cfg: mode fwd|rev|auto; lin runonce|lbgs|lbjac|direct|direct_cyc|krylov|krylov_cyc;
    jac None|dense|csc|csr; nl nlbgs|newton"""
    comps = spec['comps']
    jac = cfg.get('jac') if cfg.get('lin', 'direct') not in BLOCK else None
    use_mf = jac is None and cfg.get('mf', True)
    # (a matrix-free component cannot live under an assembled jacobian: OpenMDAO rejects that)
    cyc = set(sg.groups_with_cycles(spec))
    lin = cfg.get('lin', 'direct')

    # tree
    children = {}
    for ci, c in enumerate(comps):
        P = c['path'].split('.')
        for k in range(len(P)):
            par = '.'.join(P[:k])
            ch = ('c', ci) if k == len(P) - 1 else ('g', '.'.join(P[:k + 1]))
            lst = children.setdefault(par, [])
            if ch not in lst:
                lst.append(ch)

    def vars_under(prefix_len, prefix):
        for ci, c in enumerate(comps):
            P = c['path'].split('.')
            if P[:prefix_len] == prefix:
                for v in c['ins']:
                    yield ci, c, v, 'in'
                for v in c['outs']:
                    yield ci, c, v, 'out'

    def sso_kwargs(o):
        return {k: fl(v) for k, v in o['sso'].items() if k != 'level'}

    def make_comp(c):
        mf = use_mf and c['mf']
        lazy = bool(cfg.get('lazy')) and not mf
        if c['kind'] == 'ivc':
            comp = om.IndepVarComp()
            for o in c['outs']:
                comp.add_output(o['name'], val=fl(o['val']), units=o['units'], **_scal_kwargs(o))
        elif c['kind'] == 'exp':
            comp = (AffExpMF if mf else AffExp)(cs=c, use_mf=mf, lazy=lazy)
        else:
            comp = (AffImpMF if mf else AffImp)(cs=c, use_mf=mf, lazy=lazy)
        L = len(c['path'].split('.'))
        for o in c['outs']:
            if o.get('sso') and o['sso']['level'] == L:
                comp.set_output_solver_options(o['name'], **sso_kwargs(o))
        return comp

    def make_group(gpath):
        g = om.Group()
        glen = len(gpath.split('.')) if gpath else 0
        for kind, x in children.get(gpath, []):
            if kind == 'c':
                c = comps[x]
                P = c['path'].split('.')
                L = len(P)
                pi, po, late = [], [], []
                for v in c['ins']:
                    if v['up'] >= 1:
                        top = (L - v['up'] == glen)
                        if v['via'] == 'promote' and v['src_indices'] is not None and top:
                            late.append(v)
                        else:
                            pi.append((v['name'], v['alias']))
                for v in c['outs']:
                    if v['up'] >= 1:
                        po.append((v['name'], v['alias']))
                g.add_subsystem(P[-1], make_comp(c), promotes_inputs=pi or None, promotes_outputs=po or None)
                for v in late:
                    g.promotes(P[-1], inputs=[(v['name'], v['alias'])], src_indices=list(v['src_indices']))
            else:
                sub = make_group(x)
                Q = x.split('.')
                q = len(Q)
                pi, po, late = [], [], []
                for ci, c, v, io in vars_under(q, Q):
                    L = len(c['path'].split('.'))
                    if v['up'] >= 1 and L - v['up'] <= q - 1:
                        top = (L - v['up'] == glen)
                        if io == 'in':
                            if v['via'] == 'promote' and v['src_indices'] is not None and top:
                                late.append(v)
                            else:
                                pi.append(v['alias'])
                        else:
                            po.append(v['alias'])
                g.add_subsystem(Q[-1], sub, promotes_inputs=pi or None, promotes_outputs=po or None)
                for v in late:
                    g.promotes(Q[-1], inputs=[v['alias']], src_indices=list(v['src_indices']))
        # solver scaling set from this group with the relative (unpromoted) path of the output
        for c in comps:
            P = c['path'].split('.')
            if glen and P[:glen] != gpath.split('.'):
                continue
            for o in c['outs']:
                if o.get('sso') and o['sso']['level'] == glen and glen < len(P):
                    g.set_output_solver_options('.'.join(P[glen:] + [o['name']]), **sso_kwargs(o))
        # explicit connections issued in this group
        for ci, c in enumerate(comps):
            for v in c['ins']:
                if v['src'] is None or v['via'] != 'connect' or v.get('at_len', 0) != glen:
                    continue
                if glen and c['path'].split('.')[:glen] != gpath.split('.'):
                    continue
                sc, so = v['src']
                sname = sg.relname(comps[sc]['path'], comps[sc]['outs'][so], glen)
                tname = sg.relname(c['path'], v, glen)
                if v['src_indices'] is not None:
                    g.connect(sname, tname, src_indices=list(v['src_indices']))
                else:
                    g.connect(sname, tname)
        # solvers
        is_cyc = gpath in cyc
        assemble = jac is not None
        # semi-total approximation of a whole first-level group (affine model: a forward difference with an
        # absolute unit step has no truncation error and, on the dyadic data, no rounding error either)
        inside = [ci for ci, c in enumerate(comps) if c['path'].split('.')[:1] == gpath.split('.')]
        dv_inside = any('out' in d and d['comp'] in inside for d in spec['desvars'])   # OpenMDAO rejects these
        if cfg.get('approx') and glen == 1 and not is_cyc and (not assemble or cfg.get('approx_any')) and \
                not dv_inside and \
                any(comps[ci]['kind'] != 'ivc' for ci in inside):
            g.approx_totals(method='fd', step=1.0, form='forward', step_calc='abs')
        if is_cyc:
            if cfg.get('nl', 'nlbgs') == 'newton':
                g.nonlinear_solver = om.NewtonSolver(solve_subsystems=False, maxiter=30, err_on_non_converge=True,
                                                     **TIGHT)
            else:
                g.nonlinear_solver = om.NonlinearBlockGS(maxiter=400, err_on_non_converge=True, **TIGHT)
            g.nonlinear_solver.options['iprint'] = -1
        ls = None
        rhs = cfg.get('rhs')
        err = bool(cfg.get('err', True))
        if lin in ('direct', 'krylov') and glen == 0:
            ls = _linear_solver(lin, assemble, rhs, err=err)
        elif lin in ('direct_cyc', 'krylov_cyc'):
            ls = _linear_solver(lin[:-4], assemble, rhs, err=err) if is_cyc else _linear_solver('runonce', False, err=err)
        elif lin in ('direct_sub', 'krylov_sub'):
            if glen == 1:
                ls = _linear_solver(lin[:-4], assemble, rhs, err=err)
            elif glen == 0:
                ls = _linear_solver('lbgs' if is_cyc else 'runonce', False, err=err)
        elif lin in ('lbgs', 'lbjac'):
            ls = _linear_solver(lin, False, err=err)
        elif lin == 'runonce':
            ls = _linear_solver('lbgs' if is_cyc else 'runonce', False, err=err)
        elif is_cyc:
            ls = _linear_solver('direct', False, err=err)
        if ls is not None:
            g.linear_solver = ls
            ls.options['iprint'] = -1
            if assemble and ls.options['assemble_jac']:
                g.options['assembled_jac_type'] = jac
        return g

    model = make_group('')
    prob = om.Problem(model=model)

    names = voi_names(spec)
    for d, nm in zip(spec['desvars'], names['desvars']):
        kw = {k: fl(d[k]) for k in ('scaler', 'adder', 'ref', 'ref0') if d.get(k) is not None}
        if d.get('indices') is not None:
            kw['indices'] = list(d['indices'])
        if d.get('units'):
            kw['units'] = d['units']
        model.add_design_var(nm, **kw)
    for r, nm in zip(spec['responses'], names['responses_src']):
        kw = {k: fl(r[k]) for k in ('scaler', 'adder', 'ref', 'ref0') if r.get(k) is not None}
        if r.get('units'):
            kw['units'] = r['units']
        if r.get('alias'):
            kw['alias'] = r['alias']
        if r['type'] == 'obj':
            if r.get('indices') is not None:
                kw['index'] = int(r['indices'][0])
            model.add_objective(nm, **kw)
        else:
            if r.get('indices') is not None:
                kw['indices'] = list(r['indices'])
            model.add_constraint(nm, lower=-1e30 if False else None, upper=1000.0, **kw)
    if cfg.get('approx_model'):
        # totals of the whole model by finite differences (exact for affine models with a unit absolute step)
        model.approx_totals(method='fd', step=1.0, form='forward', step_calc='abs')
    if cfg.get('coloring'):
        if cfg.get('approx_model'):
            # same exact finite difference as approx_totals (declare_coloring has its own method / step)
            model.declare_coloring(method='fd', form='forward', step=1.0, show_summary=False, show_sparsity=False)
        prob.driver.declare_coloring(show_summary=False, show_sparsity=False)
    prob.setup(mode=cfg.get('mode', 'auto'), force_alloc_complex=False)
    return prob


def voi_names(spec):
    comps = spec['comps']
    dn = []
    for d in spec['desvars']:
        c = comps[d['comp']]
        v = c['outs'][d['out']] if 'out' in d else c['ins'][d['in']]
        dn.append(sg.relname(c['path'], v, 0))
    rsrc, rn = [], []
    for r in spec['responses']:
        c = comps[r['comp']]
        nm = sg.relname(c['path'], c['outs'][r['out']], 0)
        rsrc.append(nm)
        rn.append(r['alias'] or nm)
    # compute_totals row order: objectives first, then constraints (driver._get_ordered_nl_responses)
    order = [k for k, r in enumerate(spec['responses']) if r['type'] == 'obj'] + \
            [k for k, r in enumerate(spec['responses']) if r['type'] == 'con']
    return {'desvars': dn, 'responses_src': rsrc, 'responses': rn, 'resp_order': order}


def totals(prob, spec, cfg):
    """J as a dense array assembled from the requested return format (of=None, wrt=None: driver vois)"""
    names = voi_names(spec)
    fmt = cfg.get('fmt', 'array')
    J = prob.compute_totals(return_format=fmt, driver_scaling=bool(cfg.get('driver_scaling', False)))
    rnames = [names['responses'][k] for k in names['resp_order']]
    if fmt == 'array':
        return np.array(J, dtype=float)
    rows = []
    for rn in rnames:
        blocks = []
        for dn in names['desvars']:
            b = J[rn][dn] if fmt == 'dict' else J[rn, dn]
            blocks.append(np.atleast_2d(b))
        rows.append(np.hstack(blocks))
    return np.vstack(rows)


def abs_out_names(spec):
    """absolute output names in the order of specgen.flatten's non-auto variables"""
    return [c['path'] + '.' + o['name'] for c in spec['comps'] for o in c['outs']]


def abs_in_names(spec):
    return [c['path'] + '.' + i['name'] for c in spec['comps'] for i in c['ins']]
