"""C01 implementation side: builds the real om.Problem of every generated spec under many solver / jacobian /
mode / return-format configurations and evaluates the property's oracle on the real code:

  (a) compute_totals (every configuration) == exact rational derivative of the affine model
      (exactly where binary64 arithmetic is exact, else to 1e-9 relative),
  (b) the exact difference quotient of the REAL converged responses (run_model at d and d + e_j)
      equals the same matrix (J is the derivative of the converged model, not just "a" matrix),
  (c) fwd, rev and auto agree (implied by (a)).

The canonical result handed to the Coq model comparison is [J_fwd, J_rev, J_fwd_scaled, J_rev_scaled, state]
of the primary configuration.
"""
import json
import os
import sys
from fractions import Fraction as F

import numpy as np

sys.path.insert(0, os.path.dirname(os.path.abspath(__file__)))
import specgen as sg  # noqa: E402
import ombuild as ob  # noqa: E402
from implutil import main, q  # noqa: E402
from openmdao.api import AnalysisError  # noqa: E402

TOL = 1e-9


def qmat(a):
    return [[q(v) for v in row] for row in np.atleast_2d(a)]


def close(J, Jx, exact, slack=0.0):
    """J: float array; Jx: list of lists of Fractions"""
    J = np.atleast_2d(J)
    if J.shape != (len(Jx), len(Jx[0]) if Jx else 0):
        if J.size == 0 and not Jx:
            return True, ''
        return False, 'shape %s vs %s' % (J.shape, (len(Jx), len(Jx[0]) if Jx else 0))
    for i, row in enumerate(Jx):
        for j, v in enumerate(row):
            a = float(J[i, j])
            if exact:
                if F(a) != v:
                    return False, 'entry [%d,%d] = %r, exact derivative %s' % (i, j, a, v)
            else:
                if not abs(a - float(v)) <= TOL * max(1.0, abs(float(v))) + slack:
                    return False, 'entry [%d,%d] = %r, exact derivative %s (%.17g)' % (i, j, a, v, float(v))
    return True, ''


def cfg_exact(cfg):
    return cfg.get('lin') in ('runonce', 'lbgs') and cfg.get('nl', 'nlbgs') == 'nlbgs'


def spec_exact(spec, flat):
    if spec['coupled']:
        return False
    for r in flat['responses']:
        if not sg.is_dyadic(r['unit_scaler']):
            return False
    for d in flat['desvars']:
        u = d['unit_scaler']
        if not (sg.is_dyadic(u) and sg.is_dyadic(1 / u)):
            return False
    return True


def get_state(prob, spec, flat):
    vals = []
    for v in flat['vars']:
        c = spec['comps'][v['comp']]
        if v['auto']:
            vals.extend(prob.get_val(c['path'] + '.' + c['ins'][v['in']]['name']).ravel().tolist())
        else:
            vals.extend(prob.get_val(c['path'] + '.' + c['outs'][v['out']]['name']).ravel().tolist())
    return vals


def set_dv(prob, spec, flat, d, k, h):
    """add h to entry k (position within the source variable) of the variable behind desvar d"""
    v = flat['vars'][d['var']]
    c = spec['comps'][v['comp']]
    if v['auto']:
        nm = c['path'] + '.' + c['ins'][v['in']]['name']
    else:
        nm = c['path'] + '.' + c['outs'][v['out']]['name']
    cur = np.array(prob.get_val(nm), dtype=float).ravel()
    cur[k] += h
    prob.set_val(nm, cur)


def handle(c):
    spec = c['spec']
    flat = sg.flatten(spec)
    ex = sg.exact_all(flat)
    kind = c.get('kind', '')
    if ex is None:
        return {'res': '__none__', 'ok': True, 'msg': 'singular spec', 'sig': '', 'kind': 'singular'}
    Jx = {(ds): sg.totals_from_inverse(flat, ex['Minv'], scaled=ds) for ds in (False, True)}
    Jraw = sg.totals_from_inverse(flat, ex['Minv'], scaled=False, unit_scaled=False)
    sexact = spec_exact(spec, flat)
    # largest factor by which unit / driver scaling multiplies an entry of J (the slack of iterative solvers
    # is a bound on the unscaled solution error)
    scale_max = {}
    for ds in (False, True):
        rf = [float(abs(r['unit_scaler'] * (t if ds else 1))) for r in flat['responses'] for t in sg.total_scaler(r)]
        cf = [float(abs(d['unit_scaler'] * (t if ds else 1))) for d in flat['desvars'] for t in sg.total_scaler(d)]
        scale_max[ds] = max(rf + [1.0]) / min(cf + [1.0])
    out = {'ok': True, 'msg': '', 'sig': '', 'kind': kind, 'exact': sexact, 'vacuous': 0, 'ncfg': 0,
           'rhs_stats': {}}
    res = [None, None, None, None, None]

    failures = []

    def known_class(cfg):
        """classes recorded in known_findings.json (suppressed only by their exact signature)"""
        if cfg.get('approx') and cfg.get('jac') is not None and str(cfg.get('lin')) in ('direct', 'krylov'):
            # an approx_totals sub-group below an ASSEMBLED jacobian of an ancestor
            return 'approx-group-under-assembled-jacobian'
        return None

    def fail(cfg, what):
        sig = known_class(cfg) or 'totals:%s:%s:%s%s%s' % (
            cfg.get('lin'), cfg.get('mode'), cfg.get('jac'), ':rhs_checking' if cfg.get('rhs') else '',
            ':approx_totals' if cfg.get('approx') else (':model-approx_totals' if cfg.get('approx_model') else ''))
        failures.append((known_class(cfg) is not None, sig, '%s | cfg=%s' % (what, cfg), cfg))

    probs = {}
    per_prob = {}
    for ci, cfg in enumerate(c['cfgs']):
        key = (cfg.get('mode'), cfg.get('lin'), cfg.get('jac'), cfg.get('nl'), cfg.get('mf', True),
               json.dumps(cfg.get('rhs'), sort_keys=True), bool(cfg.get('approx')), bool(cfg.get('approx_any')),
               bool(cfg.get('lazy')), bool(cfg.get('approx_model')), bool(cfg.get('coloring')))
        try:
            if key not in probs:
                p = ob.build(spec, cfg)
                p.run_model()
                probs[key] = p
            p = probs[key]
            J = ob.totals(p, spec, cfg)
        except AnalysisError as e:
            out['vacuous'] += 1          # a solver did not converge: the property's premise is false
            continue
        except Exception as e:           # the model itself is valid (other configurations run it)
            if cfg.get('primary'):
                raise
            fail(cfg, 'compute_totals / run_model raises %s: %s' % (type(e).__name__, str(e)[:160]))
            continue
        out['ncfg'] += 1
        if isinstance(cfg.get('rhs'), dict) and cfg['rhs'].get('collect_stats'):
            per_prob[key] = ob.rhs_stats(p)      # cumulative per problem: keep the latest
        ds = bool(cfg.get('driver_scaling', False))
        exact = sexact and cfg_exact(cfg) and not cfg.get('approx') and not cfg.get('approx_model')
        iterative = spec['coupled'] or not str(cfg.get('lin', '')).startswith('direct')
        slack = sg.solver_slack(ex) * scale_max[ds] if (iterative and not exact) else 0.0
        good, why = close(J, Jx[ds], exact, slack)
        if not good:
            fail(cfg, 'compute_totals(%s) differs from the exact derivative: %s' % (
                'exact comparison' if exact else 'tol 1e-9 + solver slack %.2g' % slack, why))
        if cfg.get('primary'):
            slot = (2 if ds else 0) + (1 if cfg['mode'] == 'rev' else 0)
            res[slot] = qmat(J)
            if res[4] is None:
                st = get_state(p, spec, flat)
                res[4] = [q(v) for v in st]
                # converged state against the exact state (oracle for "converged")
                for a, b in zip(st, ex['u']):
                    if (F(a) != b) if sexact else (abs(a - float(b)) > TOL * max(1.0, abs(float(b)))):
                        fail(cfg, 'converged state %r differs from the exact solution %s' % (a, b))
                        break
                # (b) exact difference quotient of the real converged responses, model units
                h = 1.0
                base = get_state(p, spec, flat)
                col = 0
                for d in flat['desvars']:
                    for k in d['idx']:
                        set_dv(p, spec, flat, d, k, h)
                        try:
                            p.run_model()
                            pert = get_state(p, spec, flat)
                        except AnalysisError:
                            pert = None
                        set_dv(p, spec, flat, d, k, -h)
                        if pert is not None:
                            row = 0
                            for r in flat['responses']:
                                for qpos in r['pos']:
                                    dq = (pert[qpos] - base[qpos]) / h
                                    want = Jraw[row][col]
                                    bad = (F(dq) != want) if sexact else \
                                        (abs(dq - float(want)) > 1e-7 * max(1.0, abs(float(want))))
                                    if bad:
                                        fail(cfg, 'difference quotient of the converged response entry %d wrt '
                                                  'design entry %d is %r, exact derivative %s' % (row, col, dq, want))
                                    row += 1
                        col += 1
                try:
                    p.run_model()
                except AnalysisError:
                    pass
    if failures:
        # report a failure outside the known classes if there is one, else the known class
        failures.sort(key=lambda f: f[0])
        known, sig, msg, cfg = failures[0]
        out['ok'] = False
        out['sig'], out['msg'], out['cfg'] = sig, msg, cfg
        out['n_failing_cfgs'] = len(failures)
    for st in per_prob.values():
        for kk, vv in st.items():
            out['rhs_stats'][kk] = out['rhs_stats'].get(kk, 0) + vv
    if any(r is None for r in res):
        out['res'] = '__none__'
        if out['ncfg'] == 0:
            out['kind'] = kind + ':vacuous'
    else:
        out['res'] = res
    return out


if __name__ == '__main__':
    main(handle)
