"""Shared generator of small affine model specs (C01, C08, C24).  Pure stdlib (runs both in the
harness interpreter and in the /venv interpreter of the implementation side).

A spec is a JSON dict:

  comps      list, in tree (execution) order, of
             {path:'g0.g1.c3', kind:'ivc'|'exp'|'imp', mf:bool, sparse:bool,
              ins :[{name,size,units,src:[comp,out]|None,src_indices:[..]|None,via:'connect'|'promote',
                     at:'root'|'lca',up:int,alias:str,val:[..]}],
              outs:[{name,size,units,up,alias,val:[..](ivc), A:[mat per in],b:[..]          (exp)
                                               Ay:[mat per out],Bx:[mat per in],c:[..]  (imp)
                     ref,ref0,res_ref (optional; scalar or list)}],
              Ainv: inverse of the stacked Ay block (imp; dyadic)}
  desvars    [{comp,out | comp,in (auto_ivc), indices, scaler, adder, ref, ref0, units}]
  responses  [{comp,out,type:'obj'|'con',indices,scaler,adder,ref,ref0,units,alias}]
  coupled    bool (some connection points backwards in the execution order)

Numbers are ints or strings 'n/d' with d a power of two (dyadic) so that binary64 holds them exactly.
"""
from fractions import Fraction as F

# (source units, target units, exact integer factor of the conversion source -> target)
UNIT_FAMILIES = [
    ['qt', 'pt', 'cup'],      # factors 2, 2  (dyadic in both directions)
    ['lb', 'oz'],             # 16
    ['d', 'h', 'min'],        # 24, 60 (exact only towards the finer unit)
    ['m', 'dm', 'cm'],        # 10, 10
]
UNIT_FACTOR = {('qt', 'pt'): 2, ('pt', 'cup'): 2, ('lb', 'oz'): 16, ('d', 'h'): 24, ('h', 'min'): 60,
               ('m', 'dm'): 10, ('dm', 'cm'): 10}
DYADIC_FAMILIES = (0, 1)
SRC_UNITS = ['qt', 'pt', 'lb', 'oz', 'd', 'h', 'm', 'dm']


def _conn_units(rng, su):
    """units for an input connected to a source with units su: conversion factor exact in binary64"""
    fi = next(k for k, f in enumerate(UNIT_FAMILIES) if su in f)
    fam = UNIT_FAMILIES[fi]
    k0 = fam.index(su)
    opts = [su, su, fam[min(k0 + 1, len(fam) - 1)]]
    if fi in DYADIC_FAMILIES:
        opts.append(fam[max(k0 - 1, 0)])
    return rng.choice(opts)


def unit_factor(src, tgt):
    """exact factor f with value_tgt = f * value_src (None: not in the supported family)"""
    if src == tgt:
        return F(1)
    if src is None or tgt is None:
        return None
    for fam in UNIT_FAMILIES:
        if src in fam and tgt in fam:
            i, j = fam.index(src), fam.index(tgt)
            f = F(1)
            lo, hi = min(i, j), max(i, j)
            for k in range(lo, hi):
                f *= UNIT_FACTOR[(fam[k], fam[k + 1])]
            return f if i < j else 1 / f
    return None


def fr(x):
    if isinstance(x, str):
        n, d = x.split('/')
        return F(int(n), int(d))
    if isinstance(x, (list, tuple)):
        return [fr(v) for v in x]
    return F(x)


def js(x):
    """Fraction -> JSON number (int or 'n/d')"""
    if isinstance(x, (list, tuple)):
        return [js(v) for v in x]
    x = F(x)
    return int(x) if x.denominator == 1 else '%d/%d' % (x.numerator, x.denominator)


def is_dyadic(x):
    d = F(x).denominator
    return d & (d - 1) == 0


# ------------------------------------------------------------------------------------ generation

def _rnd_coef(rng, small=False):
    if small:
        return rng.choice([0, 0, F(1, 8), F(-1, 8), F(1, 16), F(-1, 16)])
    r = rng.random()
    if r < 0.3:
        return 0
    if r < 0.9:
        return rng.choice([-3, -2, -1, 1, 2, 3])
    return rng.choice([F(1, 2), F(-1, 2), F(3, 2), F(-1, 4)])


def _rnd_mat(rng, r, c, small=False, nonzero=True):
    m = [[_rnd_coef(rng, small) for _ in range(c)] for _ in range(r)]
    if nonzero and r and c and all(v == 0 for row in m for v in row):
        m[rng.randrange(r)][rng.randrange(c)] = F(1, 8) if small else rng.choice([-2, -1, 1, 2])
    return m


def _mat_inv(A):
    n = len(A)
    M = [list(map(F, A[i])) + [F(int(i == j)) for j in range(n)] for i in range(n)]
    for c in range(n):
        p = next((r for r in range(c, n) if M[r][c] != 0), None)
        if p is None:
            return None
        M[c], M[p] = M[p], M[c]
        pv = M[c][c]
        M[c] = [v / pv for v in M[c]]
        for r in range(n):
            if r != c and M[r][c] != 0:
                f = M[r][c]
                M[r] = [a - f * b for a, b in zip(M[r], M[c])]
    return [row[n:] for row in M]


def _rnd_invertible(rng, n):
    """P * L * D with L unit lower triangular (small ints), D = diag(+-2^k): dyadic inverse."""
    L = [[(1 if i == j else (rng.choice([0, 0, 1, -1, 2]) if j < i else 0)) for j in range(n)] for i in range(n)]
    D = [rng.choice([1, -1, 2, -2, F(1, 2), 4]) for _ in range(n)]
    A = [[F(L[i][j]) * D[j] for j in range(n)] for i in range(n)]
    if rng.random() < 0.5:   # also an upper part that keeps the determinant: multiply by a unit upper matrix
        U = [[(1 if i == j else (rng.choice([0, 1, -1]) if j > i else 0)) for j in range(n)] for i in range(n)]
        A = [[sum(A[i][k] * U[k][j] for k in range(n)) for j in range(n)] for i in range(n)]
    perm = list(range(n))
    rng.shuffle(perm)
    A = [A[p] for p in perm]
    inv = _mat_inv(A)
    assert inv is not None and all(is_dyadic(v) for row in inv for v in row)
    return A, inv


def _pow2(rng):
    return rng.choice([F(2), F(-2), F(4), F(1, 2), F(-1, 2), F(1, 4), F(8), F(-1)])


def _rnd_indices(rng, srcsize, n, distinct=False):
    if distinct:
        n = min(n, srcsize)
        pos = rng.sample(range(srcsize), n)
    else:
        pos = [rng.randrange(srcsize) for _ in range(n)]
    return [p - srcsize if rng.random() < 0.3 else p for p in pos]


def gen_tree(rng, ncomp, maxgroups=3):
    """returns the list of component paths in tree (execution) order"""
    groups = ['']
    for k in range(rng.randrange(0, maxgroups + 1)):
        par = rng.choice(groups)
        if par.count('.') + (1 if par else 0) >= 2:
            par = ''
        groups.append((par + '.' if par else '') + 'g%d' % k)
    children = {g: [] for g in groups}
    for g in groups[1:]:
        children[g.rsplit('.', 1)[0] if '.' in g else ''].append(('g', g))
    owner = []
    for i in range(ncomp):
        g = rng.choice(groups)
        owner.append(g)
        children[g].append(('c', i))
    for g in groups:
        rng.shuffle(children[g])
    order = []

    def walk(g):
        for t, x in children[g]:
            if t == 'c':
                order.append((g + '.' if g else '') + 'c%d' % x)
            else:
                walk(x)
    walk('')
    return order


def gen_spec(rng, coupled=False, ncomp=None, allow_imp=True, allow_units=True, allow_auto=True,
             allow_promote=True, maxsize=3):
    ncomp = ncomp or rng.randrange(3, 8)
    paths = gen_tree(rng, ncomp)
    comps = []
    outs_so_far = []            # (comp index, out index, size, units)
    n_ivc = 0
    for ci, path in enumerate(paths):
        r = rng.random()
        if ci == 0 and not allow_auto:
            kind = 'ivc'
        elif not outs_so_far:
            kind = 'ivc' if (not allow_auto or rng.random() < 0.7) else 'exp'
        elif r < 0.15:
            kind = 'ivc'
        elif r < 0.35 and allow_imp:
            kind = 'imp'
        else:
            kind = 'exp'
        c = {'path': path, 'kind': kind, 'mf': rng.random() < 0.3, 'sparse': rng.random() < 0.4,
             'ins': [], 'outs': []}
        if kind == 'ivc':
            n_ivc += 1
            for k in range(rng.randrange(1, 3)):
                sz = rng.randrange(1, maxsize + 1)
                units = rng.choice([None, None] + SRC_UNITS) if allow_units else None
                c['outs'].append({'name': 'v%d' % k, 'size': sz, 'units': units,
                                  'val': [rng.randrange(-3, 4) for _ in range(sz)], 'up': 0, 'alias': None})
        else:
            nin = rng.randrange(1, 4)
            for k in range(nin):
                i = {'name': 'x%d' % k, 'up': 0, 'alias': None, 'via': 'connect',
                     'at': rng.choice(['root', 'lca']), 'src_indices': None, 'val': None}
                if outs_so_far and not (allow_auto and rng.random() < 0.12):
                    # prefer recent outputs so that chains form; sometimes anything
                    cand = outs_so_far[-4:] if rng.random() < 0.6 else outs_so_far
                    sc, so, ssz, su = rng.choice(cand)
                    i['src'] = [sc, so]
                    if rng.random() < 0.4:
                        i['size'] = rng.randrange(1, maxsize + 1)
                        i['src_indices'] = _rnd_indices(rng, ssz, i['size'])
                    else:
                        i['size'] = ssz
                    if su is None:
                        i['units'] = None
                    else:
                        i['units'] = _conn_units(rng, su)
                else:
                    i['src'] = None
                    i['size'] = rng.randrange(1, maxsize + 1)
                    i['units'] = rng.choice([None, None] + SRC_UNITS) if allow_units else None
                    i['val'] = [rng.randrange(-3, 4) for _ in range(i['size'])]
                c['ins'].append(i)
            nout = rng.randrange(1, 3)
            for k in range(nout):
                sz = rng.randrange(1, maxsize + 1)
                units = rng.choice([None, None, None] + SRC_UNITS) if allow_units else None
                c['outs'].append({'name': 'y%d' % k, 'size': sz, 'units': units, 'up': 0, 'alias': None})
            if kind == 'exp':
                for o in c['outs']:
                    o['A'] = [js(_rnd_mat(rng, o['size'], i['size'], nonzero=rng.random() < 0.9)) for i in c['ins']]
                    o['b'] = [rng.randrange(-2, 3) for _ in range(o['size'])]
            else:
                tot = sum(o['size'] for o in c['outs'])
                Afull, inv = _rnd_invertible(rng, tot)
                c['Ainv'] = js(inv)
                r0 = 0
                for o in c['outs']:
                    rows = Afull[r0:r0 + o['size']]
                    c0 = 0
                    o['Ay'] = []
                    for o2 in c['outs']:
                        o['Ay'].append(js([row[c0:c0 + o2['size']] for row in rows]))
                        c0 += o2['size']
                    o['Bx'] = [js(_rnd_mat(rng, o['size'], i['size'], nonzero=rng.random() < 0.9)) for i in c['ins']]
                    o['c'] = [rng.randrange(-2, 3) for _ in range(o['size'])]
                    r0 += o['size']
        for k, o in enumerate(c['outs']):
            outs_so_far.append((ci, k, o['size'], o['units']))
        comps.append(c)

    spec = {'comps': comps, 'coupled': False}

    # feedback connections (coupled specs): an extra input on an early component fed by a later output
    if coupled:
        nfb = 0
        for _ in range(rng.randrange(1, 3)):
            cands = [ci for ci, c in enumerate(comps) if c['kind'] in ('exp', 'imp')]
            if len(cands) < 2:
                break
            a = rng.choice(cands[:-1])
            later = [ci for ci in cands if ci > a]
            b = rng.choice(later)
            ob = rng.randrange(len(comps[b]['outs']))
            so = comps[b]['outs'][ob]
            ca = comps[a]
            i = {'name': 'x%d' % len(ca['ins']), 'up': 0, 'alias': None, 'via': 'connect', 'at': 'root',
                 'src': [b, ob], 'src_indices': None, 'size': so['size'], 'units': so['units'], 'val': None}
            if rng.random() < 0.4:
                i['size'] = rng.randrange(1, maxsize + 1)
                i['src_indices'] = _rnd_indices(rng, so['size'], i['size'])
            ca['ins'].append(i)
            for o in ca['outs']:
                key = 'A' if ca['kind'] == 'exp' else 'Bx'
                o[key].append(js(_rnd_mat(rng, o['size'], i['size'], small=True)))
            nfb += 1
        spec['coupled'] = nfb > 0

    # promotions
    for ci, c in enumerate(comps):
        L = len(c['path'].split('.'))
        for k, i in enumerate(c['ins']):
            if i['src'] is None:
                if rng.random() < 0.6:
                    i['up'] = rng.randrange(0, L + 1)
                    i['alias'] = 'a%d_%d' % (ci, k)
                if i['up'] == 0:
                    i['alias'] = None
    if allow_promote:
        wn = 0
        taken = set()
        for ci, c in enumerate(comps):
            for k, i in enumerate(c['ins']):
                if i['src'] is None or rng.random() > 0.35:
                    continue
                sc, so = i['src']
                o = comps[sc]['outs'][so]
                if (sc, so) in taken:
                    continue
                g = lca_len(comps[sc]['path'], c['path'])
                Lo, Li = len(comps[sc]['path'].split('.')), len(c['path'].split('.'))
                taken.add((sc, so))
                alias = 'w%d' % wn
                wn += 1
                o['up'], o['alias'] = Lo - g, alias
                i['up'], i['alias'], i['via'] = Li - g, alias, 'promote'
        # other variables: partial promotion with a private alias (connect still names them correctly)
        for ci, c in enumerate(comps):
            L = len(c['path'].split('.'))
            for k, o in enumerate(c['outs']):
                if o['alias'] is None and rng.random() < 0.25:
                    o['up'] = rng.randrange(1, L) if L > 1 else 0
                    o['alias'] = 'p%d_%d' % (ci, k) if o['up'] else None

    _fix_connect_levels(spec)

    # design variables and responses
    dv_cands = []
    for ci, c in enumerate(comps):
        if c['kind'] == 'ivc':
            dv_cands += [{'comp': ci, 'out': k} for k in range(len(c['outs']))]
        else:
            dv_cands += [{'comp': ci, 'in': k} for k, i in enumerate(c['ins']) if i['src'] is None]
    rng.shuffle(dv_cands)
    desvars = []
    for d in dv_cands[:rng.randrange(1, 4)]:
        v = comps[d['comp']]['outs'][d['out']] if 'out' in d else comps[d['comp']]['ins'][d['in']]
        d['indices'] = _rnd_indices(rng, v['size'], rng.randrange(1, v['size'] + 1), True) \
            if rng.random() < 0.4 else None
        n = len(d['indices']) if d['indices'] is not None else v['size']
        _rnd_scaling(rng, d, n)
        d['units'] = _rnd_voi_units(rng, v['units'])
        desvars.append(d)
    r_cands = [(ci, k) for ci, c in enumerate(comps) if c['kind'] != 'ivc' for k in range(len(c['outs']))]
    rng.shuffle(r_cands)
    responses = []
    have_obj = False
    for (ci, k) in r_cands[:rng.randrange(1, 4)]:
        v = comps[ci]['outs'][k]
        r = {'comp': ci, 'out': k, 'alias': None}
        if not have_obj and rng.random() < 0.5:
            r['type'] = 'obj'
            have_obj = True
            r['indices'] = None if v['size'] == 1 and rng.random() < 0.5 else _rnd_indices(rng, v['size'], 1, True)
            n = 1
        else:
            r['type'] = 'con'
            r['indices'] = _rnd_indices(rng, v['size'], rng.randrange(1, v['size'] + 1), True) \
                if rng.random() < 0.4 else None
            n = len(r['indices']) if r['indices'] is not None else v['size']
        _rnd_scaling(rng, r, n)
        r['units'] = _rnd_voi_units(rng, v['units'])
        responses.append(r)
    # a second constraint on the same source through an alias
    if responses and rng.random() < 0.3:
        r0 = responses[-1]
        v = comps[r0['comp']]['outs'][r0['out']]
        used = set(norm_idx(r0['indices'], v['size'])) if r0['indices'] is not None else set(range(v['size']))
        free = [k for k in range(v['size']) if k not in used]
        if free:
            k = rng.choice(free)
            r = {'comp': r0['comp'], 'out': r0['out'], 'type': 'con', 'alias': 'alias%d' % len(responses),
                 'indices': [k - v['size'] if rng.random() < 0.3 else k], 'units': None}
            _rnd_scaling(rng, r, 1)
            responses.append(r)
    spec['desvars'], spec['responses'] = desvars, responses
    if spec['coupled']:
        _make_contractive(spec)
    return spec


def _gs_contracts(spec):
    """block Gauss-Seidel (component blocks, execution order) on the homogeneous system, in floats:
    heuristic filter used by the generator only"""
    flat = flatten(spec)
    M, _ = build_system(flat)
    n = flat['n']
    Mf = [[float(v) for v in row] for row in M]
    blocks = []
    vid = 0
    for c in flat['comps']:
        lo = flat['off'][vid]
        hi = lo + sum(o['size'] for o in c['outs'])
        blocks.append((lo, hi))
        vid += len(c['outs'])
    Minv = inverse(M)
    if Minv is None:
        return False
    x = [1.0] * n
    for sweep in range(14):
        for lo, hi in blocks:
            # solve the diagonal block exactly for x[lo:hi] given the rest
            D = [[M[r][c] for c in range(lo, hi)] for r in range(lo, hi)]
            Di = _mat_inv(D)
            if Di is None:
                return False
            rhs = [-sum(Mf[r][c] * x[c] for c in range(n) if not lo <= c < hi) for r in range(lo, hi)]
            for a in range(hi - lo):
                x[lo + a] = sum(float(Di[a][b]) * rhs[b] for b in range(hi - lo))
        if max(abs(v) for v in x) > 1e12:
            return False
    return max(abs(v) for v in x) < 2.0 ** -24


def _make_contractive(spec):
    comps = spec['comps']
    for _ in range(8):
        if _gs_contracts(spec):
            return
        for ci, c in enumerate(comps):
            for k, i in enumerate(c['ins']):
                if i['src'] is not None and i['src'][0] >= ci:
                    for o in c['outs']:
                        key = 'A' if c['kind'] == 'exp' else 'Bx'
                        o[key][k] = js([[v / 16 for v in row] for row in fr(o[key][k])])
    spec['coupled_unchecked'] = True


def _rnd_voi_units(rng, vunits):
    if vunits is None or rng.random() < 0.6:
        return None
    fam = next(f for f in UNIT_FAMILIES if vunits in f)
    k0 = fam.index(vunits)
    return rng.choice([fam[min(k0 + 1, len(fam) - 1)], fam[max(k0 - 1, 0)], vunits])


def _rnd_scaling(rng, d, n):
    d['scaler'] = d['adder'] = d['ref'] = d['ref0'] = None
    r = rng.random()
    vec = rng.random() < 0.4 and n > 1

    def val(f):
        return js([f() for _ in range(n)]) if vec else js(f())
    if r < 0.4:
        return
    if r < 0.7:
        d['scaler'] = val(lambda: _pow2(rng))
        if rng.random() < 0.5:
            d['adder'] = val(lambda: F(rng.randrange(-2, 3)))
    else:
        # ref - ref0 = +-2^k so that 1/(ref-ref0) is exact in binary64
        if vec:
            r0 = [F(rng.randrange(-2, 3)) for _ in range(n)]
            d['ref0'] = js(r0)
            d['ref'] = js([a + _pow2(rng) for a in r0])
        else:
            r0 = F(rng.randrange(-2, 3))
            d['ref0'] = js(r0)
            d['ref'] = js(r0 + _pow2(rng))
        if rng.random() < 0.3:
            # ref only
            d['ref0'] = None
            d['ref'] = val(lambda: _pow2(rng))


def lca_len(p1, p2):
    a, b = p1.split('.')[:-1], p2.split('.')[:-1]
    n = 0
    while n < len(a) and n < len(b) and a[n] == b[n]:
        n += 1
    return n


def _fix_connect_levels(spec):
    """connect() is issued in the group 'at'; a variable promoted above that group cannot be named there
    by a connect, so such connects are issued at the level where the promoted name lives (or root)."""
    comps = spec['comps']
    for ci, c in enumerate(comps):
        L = len(c['path'].split('.'))
        for i in c['ins']:
            if i['src'] is None or i['via'] == 'promote':
                continue
            sc, so = i['src']
            o = comps[sc]['outs'][so]
            g = lca_len(comps[sc]['path'], c['path']) if i['at'] == 'lca' else 0
            Lo = len(comps[sc]['path'].split('.'))
            vis_o = Lo - o['up'] if o['up'] else Lo
            vis_i = L - i['up'] if i['up'] else L
            g = min(g, vis_o, vis_i)
            i['at_len'] = g


def relname(path, var, g):
    """name of variable `var` (dict with name/up/alias) of component `path`, relative to the ancestor
    group whose path has g parts"""
    P = path.split('.')
    L = len(P)
    if var.get('up'):
        vis = L - var['up']
        if g >= vis:
            return var['alias']
        return '.'.join(P[g:vis] + [var['alias']])
    return '.'.join(P[g:] + [var['name']])


# ------------------------------------------------------------------------------------ (anti-)parallel adjoint right-hand sides

def gen_rhs_spec(rng):
    """Specs in which responses depend on other responses through (anti-)parallel linear maps, upstream of a
    sub-group 'g0' that owns a linear solver: in reverse mode the right-hand sides that reach g0 for the response
    chain  yA -> yB = k*yA -> yC = k2*yB  are multiples of each other (k negative, 1, -1, other), a response fed
    directly by the design variables gives a zero right-hand side in g0.  This drives the linear-solution cache
    (rhs_checking / LinearRHSChecker): equal, negated, parallel, anti-parallel and zero hits."""
    def var(name, size, **kw):
        d = {'name': name, 'size': size, 'units': None, 'up': 0, 'alias': None}
        d.update(kw)
        return d

    def inp(name, size, src, si=None):
        return {'name': name, 'size': size, 'units': None, 'src': src, 'src_indices': si, 'via': 'connect',
                'at': 'root', 'at_len': 0, 'up': 0, 'alias': None, 'val': None}

    def comp(path, kind, ins, outs, **kw):
        c = {'path': path, 'kind': kind, 'mf': False, 'sparse': rng.random() < 0.3, 'ins': ins, 'outs': outs}
        c.update(kw)
        return c
    comps = []
    nd = rng.randrange(1, 3)
    dsz = [rng.randrange(1, 4) for _ in range(nd)]
    comps.append(comp('d', 'ivc', [], [var('v%d' % k, dsz[k], val=[rng.randrange(-3, 4) for _ in range(dsz[k])])
                                       for k in range(nd)]))
    # sub-group g0: a chain of 1..3 components fed by the design variables
    prev = [(0, k, dsz[k]) for k in range(nd)]
    ng = rng.randrange(1, 4)
    last = None
    for j in range(ng):
        ci = len(comps)
        srcs = prev if j == 0 else [last] + ([rng.choice(prev)] if rng.random() < 0.4 else [])
        ins = [inp('x%d' % k, sz, [sc, so]) for k, (sc, so, sz) in enumerate(srcs)]
        osz = 1 if (j == ng - 1 and rng.random() < 0.5) else rng.randrange(1, 4)
        if rng.random() < 0.3:
            A, inv = _rnd_invertible(rng, osz)
            o = var('y0', osz, Ay=[js(A)], Bx=[js(_rnd_mat(rng, osz, i['size'])) for i in ins],
                    c=[rng.randrange(-2, 3) for _ in range(osz)])
            comps.append(comp('g0.s%d' % j, 'imp', ins, [o], Ainv=js(inv), mf=rng.random() < 0.3))
        else:
            o = var('y0', osz, A=[js(_rnd_mat(rng, osz, i['size'])) for i in ins],
                    b=[rng.randrange(-2, 3) for _ in range(osz)])
            comps.append(comp('g0.s%d' % j, 'exp', ins, [o], mf=rng.random() < 0.3))
        last = (ci, 0, osz)
    # yA outside the group
    n = rng.randrange(1, 4)
    cA = len(comps)
    comps.append(comp('cA', 'exp', [inp('x0', last[2], [last[0], 0])],
                      [var('y0', n, A=[js(_rnd_mat(rng, n, last[2]))], b=[rng.randrange(-2, 3) for _ in range(n)])]))
    responses = [(cA, n)]
    chain_prev = (cA, n)
    for j in range(rng.randrange(1, 3)):
        k = rng.choice([F(-3), F(-1), F(1), F(2), F(-1, 2), F(-2), F(4), F(-3), F(3, 2)])
        if rng.random() < 0.15:
            K = _rnd_mat(rng, n, n)                 # not a multiple of the identity: nothing to reuse
        else:
            K = [[k if a == b else F(0) for b in range(n)] for a in range(n)]
        ci = len(comps)
        comps.append(comp('cB%d' % j, 'exp', [inp('x0', n, [chain_prev[0], 0])],
                          [var('y0', n, A=[js(K)], b=[rng.randrange(-2, 3) for _ in range(n)])]))
        responses.append((ci, n))
        chain_prev = (ci, n)
    if rng.random() < 0.5:   # a response that does not pass through g0: zero right-hand side there
        ci = len(comps)
        m = rng.randrange(1, 3)
        comps.append(comp('cZ', 'exp', [inp('x0', dsz[0], [0, 0])],
                          [var('y0', m, A=[js(_rnd_mat(rng, m, dsz[0]))], b=[0] * m)]))
        responses.append((ci, m))
    rng.shuffle(responses)
    spec = {'comps': comps, 'coupled': False}
    spec['desvars'] = []
    for k in range(nd):
        d = {'comp': 0, 'out': k, 'indices': None, 'units': None}
        _rnd_scaling(rng, d, dsz[k])
        spec['desvars'].append(d)
    spec['responses'] = []
    have_obj = False
    for ci, m in responses:
        r = {'comp': ci, 'out': 0, 'alias': None, 'units': None, 'indices': None, 'type': 'con'}
        if m == 1 and not have_obj and rng.random() < 0.4:
            r['type'] = 'obj'
            have_obj = True
        elif m > 1 and rng.random() < 0.3:
            r['indices'] = _rnd_indices(rng, m, rng.randrange(1, m + 1), True)
        _rnd_scaling(rng, r, len(r['indices']) if r['indices'] is not None else m)
        spec['responses'].append(r)
    return spec


def gen_valid_rhs_spec(rng):
    for _ in range(200):
        spec = gen_rhs_spec(rng)
        ex = exact_all(flatten(spec))
        if ex is not None and magnitude_ok(ex, 14, need_dyadic=True):
            return spec
    raise RuntimeError('generator could not produce a valid rhs spec')


# ------------------------------------------------------------------------------------ matrix-free readers of partly irrelevant inputs

def gen_leak_spec(rng):
    """IndepVarComp d with 2-3 outputs; a sub-group g whose components each read one of them; matrix-free
    component(s) outside g reading several outputs of g; only ONE output of d is a design variable, so inside the
    relevant group g some components (and some inputs of the matrix-free readers) are irrelevant."""
    def var(name, size, **kw):
        d = {'name': name, 'size': size, 'units': None, 'up': 0, 'alias': None}
        d.update(kw)
        return d

    def inp(name, size, src, si=None):
        return {'name': name, 'size': size, 'units': None, 'src': src, 'src_indices': si, 'via': 'connect',
                'at': 'root', 'at_len': 0, 'up': 0, 'alias': None, 'val': None}
    nd = rng.randrange(2, 4)
    dsz = [rng.randrange(1, 3) for _ in range(nd)]
    comps = [{'path': 'd', 'kind': 'ivc', 'mf': False, 'sparse': False, 'ins': [],
              'outs': [var('v%d' % k, dsz[k], val=[rng.randrange(-3, 4) for _ in range(dsz[k])]) for k in range(nd)]}]
    gouts = []
    for k in range(nd):
        ci = len(comps)
        osz = rng.randrange(1, 3)
        path = 'g.e%d' % k if rng.random() < 0.8 else 'g.h.e%d' % k
        comps.append({'path': path, 'kind': 'exp', 'mf': rng.random() < 0.3, 'sparse': False,
                      'ins': [inp('x0', dsz[k], [0, k])],
                      'outs': [var('y0', osz, A=[js(_rnd_mat(rng, osz, dsz[k]))], b=[rng.randrange(-2, 3) for _ in range(osz)])]})
        gouts.append((ci, osz))
    comps.sort(key=lambda c: (c['path'].count('.') == 0 and c['path'] != 'd', c['path'].startswith('g.h.')))
    # indices moved by the sort: rebuild the map
    order = {id(c): i for i, c in enumerate(comps)}
    gouts = [(next(i for i, c in enumerate(comps) if c['path'].endswith('e%d' % k)), osz) for k, (_, osz) in enumerate(gouts)]
    readers = []
    for j in range(rng.randrange(1, 3)):
        ci = len(comps)
        ins = [inp('x%d' % k, osz, [gi, 0]) for k, (gi, osz) in enumerate(gouts)]
        n = rng.randrange(1, 3)
        if rng.random() < 0.4:
            A, inv = _rnd_invertible(rng, n)
            o = var('y0', n, Ay=[js(A)], Bx=[js(_rnd_mat(rng, n, i['size'])) for i in ins], c=[0] * n)
            comps.append({'path': 'c%d' % j, 'kind': 'imp', 'mf': True, 'sparse': False, 'ins': ins, 'outs': [o],
                          'Ainv': js(inv)})
        else:
            o = var('y0', n, A=[js(_rnd_mat(rng, n, i['size'])) for i in ins], b=[0] * n)
            comps.append({'path': 'c%d' % j, 'kind': 'exp', 'mf': True, 'sparse': False, 'ins': ins, 'outs': [o]})
        readers.append(ci)
    spec = {'comps': comps, 'coupled': False}
    dvk = rng.randrange(nd)
    d = {'comp': 0, 'out': dvk, 'indices': None, 'units': None}
    _rnd_scaling(rng, d, dsz[dvk])
    spec['desvars'] = [d]
    spec['responses'] = []
    for ci in readers:
        r = {'comp': ci, 'out': 0, 'alias': None, 'units': None, 'indices': None, 'type': 'con'}
        _rnd_scaling(rng, r, comps[ci]['outs'][0]['size'])
        spec['responses'].append(r)
    return spec


# ------------------------------------------------------------------------------------ colourable totals with indexed design variables

def gen_color_spec(rng):
    """IndepVarComp d with 2-4 outputs, each feeding its own explicit component (so the total jacobian is block
    diagonal and columns of different design variables share a colour); every output of d is a design variable,
    at least one of them with `indices` selecting a proper subset; every component output is a response."""
    def var(name, size, **kw):
        d = {'name': name, 'size': size, 'units': None, 'up': 0, 'alias': None}
        d.update(kw)
        return d
    nd = rng.randrange(2, 5)
    dsz = [rng.randrange(1, 5) for _ in range(nd)]
    if max(dsz) < 2:
        dsz[0] = rng.randrange(2, 5)
    comps = [{'path': 'd', 'kind': 'ivc', 'mf': False, 'sparse': False, 'ins': [],
              'outs': [var('v%d' % k, dsz[k], val=[rng.randrange(-3, 4) for _ in range(dsz[k])]) for k in range(nd)]}]
    for k in range(nd):
        osz = dsz[k] if rng.random() < 0.6 else rng.randrange(1, 4)
        if osz == dsz[k] and rng.random() < 0.6:
            A = [[F(rng.choice([-3, -2, 2, 3, 5])) if a == b else F(0) for b in range(dsz[k])] for a in range(osz)]
        else:
            A = _rnd_mat(rng, osz, dsz[k])
        path = 'e%d' % k if rng.random() < 0.6 else 'g.e%d' % k
        comps.append({'path': path, 'kind': 'exp', 'mf': False, 'sparse': False,
                      'ins': [{'name': 'x0', 'size': dsz[k], 'units': None, 'src': [0, k], 'src_indices': None,
                               'via': 'connect', 'at': 'root', 'at_len': 0, 'up': 0, 'alias': None, 'val': None}],
                      'outs': [var('y0', osz, A=[js(A)], b=[0] * osz)]})
    # tree order: root-level components first or groups first does not matter, but paths of one group must be adjacent
    comps = [comps[0]] + sorted(comps[1:], key=lambda c: c['path'].startswith('g.'))
    spec = {'comps': comps, 'coupled': False, 'desvars': [], 'responses': []}
    big = [k for k in range(nd) if dsz[k] >= 2]
    forced = rng.choice(big)
    for k in range(nd):
        d = {'comp': 0, 'out': k, 'indices': None, 'units': None}
        if k == forced or (dsz[k] >= 2 and rng.random() < 0.4):
            d['indices'] = _rnd_indices(rng, dsz[k], rng.randrange(1, dsz[k]), True)
        _rnd_scaling(rng, d, len(d['indices']) if d['indices'] is not None else dsz[k])
        spec['desvars'].append(d)
    for ci in range(1, len(comps)):
        r = {'comp': ci, 'out': 0, 'alias': None, 'units': None, 'indices': None, 'type': 'con'}
        _rnd_scaling(rng, r, comps[ci]['outs'][0]['size'])
        spec['responses'].append(r)
    return spec


# ------------------------------------------------------------------------------------ pre / iterated / post sets with discrete links

def gen_ppp_spec(rng):
    """A feed-forward model for the pre-opt / iterated / post-opt split of a driver run.  Component 0 is an
    IndepVarComp with the design variables; every other component has one continuous output y and one discrete
    output cfg = {'v': y}; its inputs are continuous (from a y or a design variable) or discrete (from a cfg):
        y = const + sum_k coef_k * input_k
    Some components do not depend on the design variables (pre), some feed no response (post), and some
    design-variable -> response paths exist only through a discrete link."""
    ndv = rng.randrange(1, 3)
    n = rng.randrange(3, 8)
    comps = [{'name': 'd', 'ivc': True, 'ndv': ndv, 'vals': [rng.randrange(-2, 3) for _ in range(ndv)]}]
    for ci in range(1, n + 1):
        ins = []
        r = rng.random()
        if ci > 1 and r < 0.75:
            for src in rng.sample(range(1, ci), min(ci - 1, rng.randrange(1, 3))):
                ins.append({'src': src, 'kind': rng.choice(['c', 'd', 'd']), 'coef': rng.choice([-2, -1, 1, 2, 3])})
        if r < 0.15 or rng.random() < 0.45 or not ins and rng.random() < 0.6:
            ins.append({'src': 0, 'dv': rng.randrange(ndv), 'kind': 'c', 'coef': rng.choice([-2, 1, 2, 3])})
        comps.append({'name': 'c%d' % ci, 'ivc': False, 'ins': ins, 'const': rng.randrange(-2, 3), 'group': None})
    # a contiguous run of components lives in a sub-group (execution order = index order)
    if n >= 3 and rng.random() < 0.6:
        a = rng.randrange(1, n)
        b = rng.randrange(a, n + 1)
        for ci in range(a, b + 1):
            comps[ci]['group'] = 'g'
    nresp = rng.randrange(1, 3)
    cands = list(range(1, n + 1))
    rng.shuffle(cands)
    responses = sorted(cands[:nresp])
    points = [[rng.randrange(-3, 4) for _ in range(ndv)] for _ in range(3)]
    return {'ppp': True, 'comps': comps, 'responses': responses, 'points': points}


def ppp_order(spec):
    """execution order of the components (root components in index order, members of group g adjacent where the
    first member stands)"""
    order, seen_g = [], False
    for ci, c in enumerate(spec['comps']):
        if c.get('group') == 'g':
            if not seen_g:
                seen_g = True
                order += [k for k, cc in enumerate(spec['comps']) if cc.get('group') == 'g']
        else:
            order.append(ci)
    return order


def ppp_eval(spec, point):
    """exact values y of every component at a design point (dependencies always point to smaller indices)"""
    y = {}
    for ci, c in enumerate(spec['comps']):
        if c['ivc']:
            continue
        v = c['const']
        for i in c['ins']:
            v += i['coef'] * (point[i['dv']] if i['src'] == 0 else y[i['src']])
        y[ci] = v
    return y


def ppp_graph(spec):
    """(deps over the components in index order, seeds = design-variable component and response components);
    a discrete connection is an ordinary dependency edge"""
    deps = []
    for ci, c in enumerate(spec['comps']):
        deps.append([] if c['ivc'] else sorted({i['src'] for i in c['ins']}))
    return deps, sorted({0} | set(spec['responses']))


# ------------------------------------------------------------------------------------ arrowhead totals (bidirectional colourings)

def gen_arrow_spec(rng):
    """x (n) -> T: y = diag(a) x -> { S: f = c.y (dense row), U: g = diag(b) y, optionally V: h = diag(e) y }.
    Total jacobian = dense row(s) + diagonal block(s): the diagonal components declare rows/cols partials (dense-declared blocks count as dense for the sparsity
    detection); more response entries than design-variable entries, so
    mode='auto' resolves to fwd, while a dynamic total colouring solves the dense row(s) in reverse.  S is
    irrelevant to g/h and U, V are irrelevant to f."""
    def var(name, size, **kw):
        d = {'name': name, 'size': size, 'units': None, 'up': 0, 'alias': None}
        d.update(kw)
        return d

    def inp(src):
        return {'name': 'x0', 'size': n, 'units': None, 'src': src, 'src_indices': None, 'via': 'connect',
                'at': 'root', 'at_len': 0, 'up': 0, 'alias': None, 'val': None}

    def diag():
        return js([[F(rng.choice([-3, -2, 2, 3, 4, 5])) if a == b else F(0) for b in range(n)] for a in range(n)])
    n = rng.randrange(3, 6)
    comps = [{'path': 'd', 'kind': 'ivc', 'mf': False, 'sparse': False, 'ins': [],
              'outs': [var('v0', n, val=[rng.randrange(-3, 4) for _ in range(n)])]},
             {'path': 'T', 'kind': 'exp', 'mf': False, 'sparse': True, 'ins': [inp([0, 0])],
              'outs': [var('y0', n, A=[diag()], b=[0] * n)]}]
    nrow = rng.randrange(1, 3)
    dense = [[F(rng.choice([-2, -1, 1, 2, 3])) for _ in range(n)] for _ in range(nrow)]
    comps.append({'path': 'S', 'kind': 'exp', 'mf': False, 'sparse': False, 'ins': [inp([1, 0])],
                  'outs': [var('y0', nrow, A=[js(dense)], b=[0] * nrow)]})
    for name in ['U'] + (['g.V'] if rng.random() < 0.4 else []):
        comps.append({'path': name, 'kind': 'exp', 'mf': False, 'sparse': True, 'ins': [inp([1, 0])],
                      'outs': [var('y0', n, A=[diag()], b=[0] * n)]})
    spec = {'comps': comps, 'coupled': False,
            'desvars': [{'comp': 0, 'out': 0, 'indices': None, 'units': None, 'scaler': None, 'adder': None,
                         'ref': None, 'ref0': None}],
            'responses': []}
    for ci in range(2, len(comps)):
        r = {'comp': ci, 'out': 0, 'alias': None, 'units': None, 'indices': None,
             'type': 'obj' if (ci == 2 and nrow == 1) else 'con', 'scaler': None, 'adder': None, 'ref': None,
             'ref0': None}
        spec['responses'].append(r)
    return spec


# ------------------------------------------------------------------------------------ solver scaling (C08)

def with_scaling(spec, rng, pow2=True, route='add', only=None, prefer_group=False):
    """copy of spec with random positive and negative ref / ref0 / res_ref on outputs (scalar and array).
    pow2: ref - ref0 and res_ref are +-2^k (binary64 arithmetic of the scaling stays exact).
    route: 'add' -> add_output arguments; 'sso' -> System.set_output_solver_options (called on the component or on
    an ancestor group with the relative path); 'mixed' -> each key by either route.
    only: None, or 'ref0' -> the whole model has a single scaled output, scaled by a non-zero ref0 alone (array or
    scalar), or 'one' -> a single output carries all the scaling of the model."""
    import copy
    s2 = copy.deepcopy(spec)

    def span():
        if pow2:
            return _pow2(rng)
        return rng.choice([F(3), F(-3), F(5), F(-7), F(10), F(1, 2), F(-2), F(6), F(-1), F(100)])
    allouts = [(ci, k) for ci, c in enumerate(s2['comps']) for k in range(len(c['outs']))]
    # prefer outputs that something reads (their scaling reaches the connected inputs)
    read = [tuple(i['src']) for c in s2['comps'] for i in c['ins'] if i['src'] is not None]
    chosen = None
    if only is not None:
        if prefer_group:     # an output that lives in a sub-group and is read by something (approx_totals groups)
            ingrp = [t for t in read if '.' in s2['comps'][t[0]]['path'] and s2['comps'][t[0]]['kind'] != 'ivc']
            read = ingrp or read
        chosen = rng.choice(read) if read and rng.random() < 0.8 else rng.choice(allouts)
    for ci, c in enumerate(s2['comps']):
        L = len(c['path'].split('.'))
        for k, o in enumerate(c['outs']):
            n = o['size']
            kw = {}
            if only == 'ref0':
                if (ci, k) != chosen:
                    continue
                vec = n > 1 and rng.random() < 0.6
                cands = [F(-2), F(-1), F(3), F(1, 2)] if not pow2 else [F(-1), F(-3), F(3), F(1, 2), F(-7)]
                r0 = [rng.choice(cands) for _ in range(n if vec else 1)]
                if vec and rng.random() < 0.5:
                    r0[rng.randrange(n)] = F(0)
                    if not any(r0):
                        r0[0] = F(-1)
                kw['ref0'] = js(r0) if vec else js(r0[0])
            else:
                if only == 'one' and (ci, k) != chosen:
                    continue
                if rng.random() < 0.7 or only == 'one':
                    vec = n > 1 and rng.random() < 0.4
                    r0 = [F(rng.randrange(-2, 3)) if rng.random() < 0.6 else F(0) for _ in range(n if vec else 1)]
                    a1 = [span() for _ in range(n if vec else 1)]
                    # ref = 0 is not admissible: res_ref defaults to ref
                    r0 = [a if a + b != 0 else a + 1 for a, b in zip(r0, a1)]
                    ref = [a + b for a, b in zip(r0, a1)]
                    r = rng.random()
                    if r < 0.6:
                        kw['ref0'], kw['ref'] = (js(r0), js(ref)) if vec else (js(r0[0]), js(ref[0]))
                    elif r < 0.8:
                        kw['ref'] = js(a1) if vec else js(a1[0])         # ref only (ref0 = 0)
                    else:
                        # ref0 only (ref = 1): keep ref - ref0 admissible
                        if not any(1 - v == 0 for v in r0) and \
                                (not pow2 or all(is_dyadic(1 / (1 - v)) for v in r0)):
                            kw['ref0'] = js(r0) if vec else js(r0[0])
                if rng.random() < 0.6:
                    vec = n > 1 and rng.random() < 0.4
                    rr = [span() for _ in range(n if vec else 1)]
                    kw['res_ref'] = js(rr) if vec else js(rr[0])
            sso = {}
            for key, val in kw.items():
                via_sso = route == 'sso' or (route == 'mixed' and rng.random() < 0.5)
                if via_sso:
                    sso[key] = val
                else:
                    o[key] = val
            if sso:
                # level: number of path parts of the system the call is made on (L = the component itself,
                # 0 = the model, with the full relative path)
                sso['level'] = rng.choice([L, L, 0] + list(range(0, L)))
                o['sso'] = sso
    return s2


def effective_scaling(o):
    """(ref0, ref, res_ref, declared ref) after set_output_solver_options overrides the add_output arguments"""
    sso = o.get('sso') or {}
    eff = {k: (sso[k] if k in sso else o.get(k)) for k in ('ref0', 'ref', 'res_ref')}
    return eff['ref0'], eff['ref'], eff['res_ref'], o.get('ref')


def out_scalings(spec, flat):
    """per flat variable: (ref0, ref, res_ref or None, explicit?, ref as declared in add_output) entrywise"""
    res = []
    for v in flat['vars']:
        n = v['size']

        def bc(x, dflt):
            if x is None:
                return None if dflt is None else [F(dflt)] * n
            x = fr(x)
            return list(x) if isinstance(x, list) else [x] * n
        if v['auto']:
            res.append(([F(0)] * n, [F(1)] * n, None, True, [F(1)] * n))
        else:
            res.append((bc(v.get('ref0'), 0), bc(v.get('ref'), 1), bc(v.get('res_ref'), None),
                        spec['comps'][v['comp']]['kind'] != 'imp', bc(v.get('ref_decl'), 1)))
    return res


def gallina_oscals(spec, flat):
    return '[%s]' % '; '.join('(mkoscal %s %s %s %s %s)' % (qvec(a), qvec(b), 'None' if c is None else '(Some %s)' % qvec(c),
                                                          'true' if e else 'false', qvec(d))
                              for a, b, c, e, d in out_scalings(spec, flat))


# ------------------------------------------------------------------------------------ flat algebra

def norm_idx(idx, n):
    return [i + n if i < 0 else i for i in idx]


def flatten(spec):
    """Flat algebraic form: variables (global ids in execution order; auto_ivc sources first), components
    with inputs resolved to (source var id, positions, unit factor).  This is the *intent* of the
    hierarchy / promotion / connection statements the generator wrote."""
    comps = spec['comps']
    vars_ = []          # {'size','kind':'auto'|'out','comp','k','name'}
    auto_id = {}
    for ci, c in enumerate(comps):
        for k, i in enumerate(c['ins']):
            if i['src'] is None:
                auto_id[(ci, k)] = len(vars_)
                vars_.append({'size': i['size'], 'auto': True, 'val': fr(i['val']), 'comp': ci, 'in': k,
                              'units': i['units']})
    out_id = {}
    for ci, c in enumerate(comps):
        for k, o in enumerate(c['outs']):
            out_id[(ci, k)] = len(vars_)
            vars_.append({'size': o['size'], 'auto': False, 'comp': ci, 'out': k, 'units': o['units'],
                          'val': fr(o['val']) if c['kind'] == 'ivc' else None,
                          'ref': effective_scaling(o)[1], 'ref0': effective_scaling(o)[0],
                          'res_ref': effective_scaling(o)[2], 'ref_decl': effective_scaling(o)[3]})
    off = []
    n = 0
    for v in vars_:
        off.append(n)
        n += v['size']
    fcomps = []
    for v in vars_:
        if v['auto']:
            fcomps.append({'kind': 'ivc', 'outs': [{'size': v['size'], 'val': v['val']}], 'ins': []})
    for ci, c in enumerate(comps):
        ins = []
        for k, i in enumerate(c['ins']):
            if i['src'] is None:
                sid = auto_id[(ci, k)]
                ins.append({'src': sid, 'idx': list(range(i['size'])), 'fac': F(1), 'size': i['size']})
            else:
                sid = out_id[tuple(i['src'])]
                ssz = vars_[sid]['size']
                idx = norm_idx(i['src_indices'], ssz) if i['src_indices'] is not None else list(range(ssz))
                fac = unit_factor(vars_[sid]['units'], i['units'])
                if fac is None:
                    fac = F(1)
                ins.append({'src': sid, 'idx': idx, 'fac': fac, 'size': i['size']})
        outs = []
        for k, o in enumerate(c['outs']):
            if c['kind'] == 'ivc':
                outs.append({'size': o['size'], 'val': fr(o['val'])})
            elif c['kind'] == 'exp':
                outs.append({'size': o['size'], 'A': [fr(m) for m in o['A']], 'b': fr(o['b'])})
            else:
                outs.append({'size': o['size'], 'Ay': [fr(m) for m in o['Ay']], 'Bx': [fr(m) for m in o['Bx']],
                             'c': fr(o['c'])})
        fcomps.append({'kind': c['kind'], 'ins': ins, 'outs': outs, 'first': out_id.get((ci, 0))})
    flat = {'vars': vars_, 'off': off, 'n': n, 'comps': fcomps, 'out_id': out_id, 'auto_id': auto_id}
    # vois
    dvs, rs = [], []
    for d in spec.get('desvars', []):
        vid = out_id[(d['comp'], d['out'])] if 'out' in d else auto_id[(d['comp'], d['in'])]
        dvs.append(_voi(flat, d, vid))
    order = [r for r in spec.get('responses', []) if r['type'] == 'obj'] + \
            [r for r in spec.get('responses', []) if r['type'] == 'con']
    for r in order:
        rs.append(_voi(flat, r, out_id[(r['comp'], r['out'])]))
    flat['desvars'], flat['responses'] = dvs, rs
    return flat


def _voi(flat, d, vid):
    v = flat['vars'][vid]
    idx = norm_idx(d['indices'], v['size']) if d.get('indices') is not None else list(range(v['size']))
    n = len(idx)

    def bc(x):
        if x is None:
            return None
        x = fr(x)
        return x if isinstance(x, list) else [x] * n
    us = unit_factor(v['units'], d.get('units')) if d.get('units') is not None else F(1)
    return {'var': vid, 'idx': idx, 'pos': [flat['off'][vid] + i for i in idx],
            'scaler': bc(d.get('scaler')), 'adder': bc(d.get('adder')), 'ref': bc(d.get('ref')),
            'ref0': bc(d.get('ref0')), 'unit_scaler': us}


def total_scaler(v):
    """determine_adder_scaler: ref/ref0 take precedence; scaler = 1/(ref - ref0)"""
    n = len(v['idx'])
    if v['ref'] is not None or v['ref0'] is not None:
        ref = v['ref'] if v['ref'] is not None else [F(1)] * n
        ref0 = v['ref0'] if v['ref0'] is not None else [F(0)] * n
        return [1 / (a - b) for a, b in zip(ref, ref0)]
    if v['scaler'] is not None:
        return list(v['scaler'])
    return [F(1)] * n


def total_adder(v):
    n = len(v['idx'])
    if v['ref'] is not None or v['ref0'] is not None:
        ref0 = v['ref0'] if v['ref0'] is not None else [F(0)] * n
        return [-b for b in ref0]
    if v['adder'] is not None:
        return list(v['adder'])
    return [F(0)] * n


def build_system(flat):
    """M (OpenMDAO sign convention: explicit rows  df/dx dx - dy, ivc rows -dy) and the right-hand side of
    the affine model  M u = rhs."""
    n = flat['n']
    off = flat['off']
    M = [[F(0)] * n for _ in range(n)]
    rhs = [F(0)] * n
    vid = 0
    for c in flat['comps']:
        my = list(range(vid, vid + len(c['outs'])))
        for k, o in enumerate(c['outs']):
            r0 = off[my[k]]
            for r in range(o['size']):
                row = M[r0 + r]
                if c['kind'] == 'ivc':
                    row[r0 + r] -= 1
                    rhs[r0 + r] = -o['val'][r]
                elif c['kind'] == 'exp':
                    row[r0 + r] -= 1
                    rhs[r0 + r] = -o['b'][r]
                    for i, A in zip(c['ins'], o['A']):
                        for cc in range(i['size']):
                            row[off[i['src']] + i['idx'][cc]] += A[r][cc] * i['fac']
                else:
                    rhs[r0 + r] = o['c'][r]
                    for k2, A in enumerate(o['Ay']):
                        for cc in range(len(A[r])):
                            row[off[my[k2]] + cc] += A[r][cc]
                    for i, B in zip(c['ins'], o['Bx']):
                        for cc in range(i['size']):
                            row[off[i['src']] + i['idx'][cc]] += B[r][cc] * i['fac']
        vid += len(c['outs'])
    return M, rhs


def solve(M, b):
    n = len(M)
    A = [list(M[i]) + [b[i]] for i in range(n)]
    for c in range(n):
        p = next((r for r in range(c, n) if A[r][c] != 0), None)
        if p is None:
            return None
        A[c], A[p] = A[p], A[c]
        pv = A[c][c]
        A[c] = [v / pv for v in A[c]]
        for r in range(n):
            if r != c and A[r][c] != 0:
                f = A[r][c]
                A[r] = [x - f * y for x, y in zip(A[r], A[c])]
    return [A[i][n] for i in range(n)]


def inverse(M):
    return _mat_inv(M)


def exact_all(flat):
    """(Minv, u*, max magnitude information) of the affine model, exactly"""
    M, rhs = build_system(flat)
    Minv = inverse(M)
    if Minv is None:
        return None
    u = [sum(Minv[i][j] * rhs[j] for j in range(len(rhs))) for i in range(len(rhs))]
    return {'M': M, 'rhs': rhs, 'Minv': Minv, 'u': u}


def totals_from_inverse(flat, Minv, scaled=False, unit_scaled=True):
    rows = []
    for r in flat['responses']:
        tr = total_scaler(r)
        for kk, q in enumerate(r['pos']):
            row = []
            for d in flat['desvars']:
                ts = total_scaler(d)
                for k, p in enumerate(d['pos']):
                    v = -Minv[q][p]
                    if unit_scaled:
                        v = v * r['unit_scaler'] / d['unit_scaler']
                    if scaled:
                        v = v * tr[kk] / ts[k]
                    row.append(v)
            rows.append(row)
    return rows


def solver_slack(ex, atol=1e-11):
    """bound on the error of a solution whose residual norm met the iterative solvers' absolute tolerance:
    |x - x*| <= |M^-1| |r| <= n * max|M^-1_ij| * atol  (the tolerance an iterative configuration is entitled to)"""
    n = len(ex['Minv'])
    mx = max([abs(v) for row in ex['Minv'] for v in row] + [F(1)])
    return float(n * mx) * atol


def magnitude_ok(ex, bits=40, need_dyadic=True):
    """all entries of the inverse and of the state are of moderate size (and dyadic), so that the sums of
    products formed by a one-pass (RunOnce) evaluation are exact in binary64"""
    lim = 1 << bits
    for row in ex['Minv'] + [ex['u']] + ex['M']:
        for v in row:
            if abs(v.numerator) >= lim * v.denominator:
                return False
            if need_dyadic and (v.denominator >= (1 << 20) or not is_dyadic(v)):
                return False
    return True


def gen_valid_spec(rng, **kw):
    """a spec with at least one design variable and one response, a regular system matrix and moderate
    magnitudes (|entries of M^-1|, |state| < 2^14)"""
    for _ in range(200):
        spec = gen_spec(rng, **kw)
        if not spec['desvars'] or not spec['responses']:
            continue
        if kw.get('coupled') and not spec['coupled']:
            continue
        if spec.get('coupled_unchecked'):
            continue
        flat = flatten(spec)
        ex = exact_all(flat)
        if ex is None or not magnitude_ok(ex, 14, need_dyadic=not spec['coupled']):
            continue
        return spec
    raise RuntimeError('generator could not produce a valid spec')


def exact_totals(flat, scaled=False, unit_scaled=True):
    """exact J (rows: responses entries, cols: desvar entries) by forward solves; None if singular"""
    M, rhs = build_system(flat)
    cols = []
    for d in flat['desvars']:
        ts = total_scaler(d)
        for k, p in enumerate(d['pos']):
            e = [F(0)] * flat['n']
            e[p] = F(-1)
            x = solve(M, e)
            if x is None:
                return None
            col = []
            for r in flat['responses']:
                tr = total_scaler(r)
                for kk, q in enumerate(r['pos']):
                    v = x[q]
                    if unit_scaled:
                        v = v * r['unit_scaler'] / d['unit_scaler']
                    if scaled:
                        v = v * tr[kk] / ts[k]
                    col.append(v)
            cols.append(col)
    nr = len(cols[0]) if cols else 0
    return [[cols[j][i] for j in range(len(cols))] for i in range(nr)]


def exact_state(flat):
    M, rhs = build_system(flat)
    return solve(M, rhs)


# ------------------------------------------------------------------------------------ structure

def comp_graph(spec):
    """edges between components (source comp -> target comp)"""
    edges = set()
    for ci, c in enumerate(spec['comps']):
        for i in c['ins']:
            if i['src'] is not None:
                edges.add((i['src'][0], ci))
    return edges


def group_paths(spec):
    gs = {''}
    for c in spec['comps']:
        P = c['path'].split('.')
        for k in range(1, len(P)):
            gs.add('.'.join(P[:k]))
    return sorted(gs, key=lambda g: (g.count('.') + (1 if g else 0), g))


def groups_with_cycles(spec):
    """groups that need an iterative solver: some connection among the group's direct children (subgroups
    condensed) runs from a later child to an earlier one in execution order (a one-pass evaluation of such
    a group is not converged, whether or not the backward edge closes a cycle)"""
    edges = comp_graph(spec)
    res = []
    for g in group_paths(spec):
        gl = len(g.split('.')) if g else 0
        order = []
        for c in spec['comps']:
            P = c['path'].split('.')
            if (not g or '.'.join(P[:gl]) == g) and len(P) > gl and P[gl] not in order:
                order.append(P[gl])

        def child(ci):
            P = spec['comps'][ci]['path'].split('.')
            if g and '.'.join(P[:gl]) != g:
                return None
            return P[gl]
        for a, b in edges:
            ca, cb = child(a), child(b)
            if ca is not None and cb is not None and ca != cb and order.index(ca) > order.index(cb):
                res.append(g)
                break
    return res


# ------------------------------------------------------------------------------------ Gallina

def qlit(x):
    x = F(x)
    return '((%d) # %d)' % (x.numerator, x.denominator)


def qvec(xs):
    return '[%s]' % '; '.join(qlit(v) for v in xs)


def qmat(m):
    return '[%s]' % '; '.join(qvec(r) for r in m)


def natlist(xs):
    return '[%s]%%nat' % '; '.join('%d' % v for v in xs)


def gallina_spec(flat):
    """term of type C01.Model.spec (list comp)"""
    cs = []
    for c in flat['comps']:
        ins = '[%s]' % '; '.join('(mkinp %d%%nat %s %s)' % (i['src'], natlist(i['idx']), qlit(i['fac']))
                                 for i in c['ins'])
        if c['kind'] == 'ivc':
            cs.append('(CIvc [%s])' % '; '.join(qvec(o['val']) for o in c['outs']))
        elif c['kind'] == 'exp':
            outs = '; '.join('(mkeout %d%%nat [%s] %s)' % (o['size'], '; '.join(qmat(m) for m in o['A']), qvec(o['b']))
                             for o in c['outs'])
            cs.append('(CExp %s [%s])' % (ins, outs))
        else:
            outs = '; '.join('(mkiout %d%%nat [%s] [%s] %s)' % (
                o['size'], '; '.join(qmat(m) for m in o['Ay']), '; '.join(qmat(m) for m in o['Bx']), qvec(o['c']))
                for o in c['outs'])
            cs.append('(CImp %s [%s])' % (ins, outs))
    return '[%s]' % ';\n  '.join(cs)


def gallina_voi(v):
    def opt(x):
        return 'None' if x is None else '(Some %s)' % qvec(x)
    return '(mkvoi %d%%nat %s %s %s %s %s)' % (v['var'], natlist(v['idx']), opt(v['scaler']), opt(v['ref']),
                                             opt(v['ref0']), qlit(v['unit_scaler']))


def gallina_vois(vs):
    return '[%s]' % '; '.join(gallina_voi(v) for v in vs)
