"""Observed on the clean tree while extending C08/C24 to approx_totals groups (NOT covered by the C01/C08/C24
generators, which keep approx groups free of matrix-free components and of assembled jacobians):
 (1) an approx_totals (FD) sub-group under a top-level DirectSolver(assemble_jac=True): totals are 0 instead of 18;
 (2) an approx_totals sub-group that contains a matrix-free component (compute_jacvec_product): the top-level
     non-assembled DirectSolver reports a singular column for that component's output, ScipyKrylov returns garbage
     (1e18), LinearBlockGS does not converge; LinearRunOnce is right."""
import numpy as np, openmdao.api as om


class MF(om.ExplicitComponent):
    def setup(self):
        self.add_input('z', 1.0); self.add_output('q', 1.0)
    def compute(self, i, o):
        o['q'] = 2 * i['z']
    def compute_jacvec_product(self, i, di, do, mode):
        if 'q' in do and 'z' in di:
            if mode == 'fwd':
                do['q'] += 2 * di['z']
            else:
                di['z'] += 2 * do['q']


for mf in (False, True):
    for top in ('runonce', 'direct', 'direct_assembled', 'krylov'):
        p = om.Problem()
        p.model.add_subsystem('d', om.IndepVarComp('x', 1.0))
        g = p.model.add_subsystem('g', om.Group())
        g.add_subsystem('c1', om.ExecComp('z = 3*x'))
        g.add_subsystem('c2', om.ExecComp('f = 6*z'))
        g.connect('c1.z', 'c2.z')
        if mf:
            g.add_subsystem('c3', MF()); g.connect('c1.z', 'c3.z')
        g.approx_totals(method='fd')
        p.model.connect('d.x', 'g.c1.x')
        p.model.add_design_var('d.x'); p.model.add_objective('g.c2.f')
        if top.startswith('direct'):
            p.model.linear_solver = om.DirectSolver(assemble_jac=(top == 'direct_assembled'))
        elif top == 'krylov':
            p.model.linear_solver = om.ScipyKrylov()
        p.setup(); p.run_model()
        try:
            print('matrix-free inside' if mf else 'plain', top, p.compute_totals(return_format='array').ravel())
        except Exception as e:
            print('matrix-free inside' if mf else 'plain', top, type(e).__name__, str(e)[:90])

# (3) observed through C08 case 34 (seed 20260921): an approx_totals sub-group that contains an IMPLICIT component
#     with rows/cols-declared (sparse) partials returns 0 for single entries of d(state)/d(input) that are non-zero
#     through the component's own solve (e.g. 0 instead of -12), with relevance on or off, scaled or not; without
#     approx_totals the same model gives the exact derivative.
