import sys, json, copy
sys.path.insert(0,'/verif/props/C01'); sys.path.insert(0,'/verif/harness')
import specgen as sg, ombuild as ob, numpy as np
def inp(name,size,src): return {'name':name,'size':size,'units':None,'src':src,'src_indices':None,'via':'connect','at':'root','at_len':0,'up':0,'alias':None,'val':None}
def var(name,size,**kw):
    d={'name':name,'size':size,'units':None,'up':0,'alias':None}; d.update(kw); return d
def comp(path,kind,ins,outs,**kw):
    c={'path':path,'kind':kind,'mf':False,'sparse':False,'ins':ins,'outs':outs}; c.update(kw); return c
def dv(c,o): return {'comp':c,'out':o,'indices':None,'scaler':None,'adder':None,'ref':None,'ref0':None,'units':None}
def rs(c,o,t='con'): return {'comp':c,'out':o,'type':t,'alias':None,'indices':None,'scaler':None,'adder':None,'ref':None,'ref0':None,'units':None}
base={'coupled':False,'comps':[comp('d','ivc',[],[var('x',2,val=[1,2])]),
  comp('g.c1','imp',[inp('x',2,[0,0])],[var('y',2,Ay=[[[2,0],[1,-1]]],Bx=[[[1,3],[0,2]]],c=[0,0])],Ainv=[['1/2',0],['1/2',-1]]),
  comp('g.c2','exp',[inp('y',2,[1,0])],[var('f',1,A=[[[6,1]]],b=[0])]),
  comp('e','exp',[inp('f',1,[2,0])],[var('h',1,A=[[[2]]],b=[0])])],
  'desvars':[dv(0,0)],'responses':[rs(3,0,'obj'), rs(1,0,'con')]}
flat=sg.flatten(base); ex=sg.exact_all(flat); Jx=np.array([[float(v) for v in r] for r in sg.totals_from_inverse(flat,ex['Minv'])])
print(Jx)
for sparse in (False, True):
  for mf in (False, True):
    s=copy.deepcopy(base); s['comps'][1]['sparse']=sparse; s['comps'][2]['mf']=mf
    for lin,jac in (('runonce',None),('direct',None),('krylov',None),('direct','csc'),('lbgs',None)):
      for mode in ('fwd','rev'):
        cfg={'lin':lin,'jac':jac,'nl':'nlbgs','mf':True,'approx':True,'mode':mode,'fmt':'array','approx_any':True,'lazy':True}
        try:
            p=ob.build(s,cfg); p.run_model(); J=ob.totals(p,s,cfg); e=np.abs(J-Jx).max()
            print('sparse' if sparse else 'dense','mf' if mf else '  ',lin,jac,mode,'OK' if e<1e-9 else 'WRONG %s'%J.ravel())
        except Exception as ex_: print('sparse' if sparse else 'dense','mf' if mf else '  ',lin,jac,mode,'EXC',type(ex_).__name__,str(ex_)[:70])
