"""C01 — total derivatives equal the exact derivative of the converged model."""
import copy
import os
import sys

sys.path.insert(0, os.path.dirname(os.path.abspath(__file__)))
import specgen as sg  # noqa: E402
import flow  # noqa: E402
import core  # noqa: E402
from core import Spec  # noqa: E402

MODES = ['fwd', 'rev', 'auto']
JACS = [None, 'dense', 'csc', 'csr']
FMTS = ['array', 'dict', 'flat_dict']
LIN_FF = ['runonce', 'lbgs', 'lbjac', 'direct', 'direct', 'direct_sub', 'krylov', 'krylov_sub']
LIN_CPL = ['runonce', 'lbgs', 'direct', 'direct', 'direct_cyc', 'direct_sub', 'krylov', 'krylov_cyc', 'krylov_sub']


RHS_VARIANTS = [
    True,
    {'collect_stats': True},
    {'check_zero': True, 'collect_stats': True},
    {'rtol': 1e-12, 'atol': 1e-12, 'collect_stats': True},
    {'auto': True, 'collect_stats': True},
    {'max_cache_entries': 1, 'check_zero': True, 'rtol': 1e-12, 'atol': 1e-12, 'collect_stats': True},
    {'max_cache_entries': 0, 'check_zero': True, 'collect_stats': True},
]


def rhs_configs(spec, rng, nextra):
    """configurations for the specs of specgen.gen_rhs_spec: the sub-group solver with rhs_checking on, in rev
    (where the cache is used) and fwd"""
    cfgs = []
    for mode in ('fwd', 'rev'):
        for ds in (False, True):
            cfgs.append({'mode': mode, 'lin': 'runonce', 'jac': None, 'fmt': 'array', 'driver_scaling': ds,
                         'nl': 'nlbgs', 'primary': True})
    for _ in range(nextra):
        lin = rng.choice(['direct_sub', 'direct_sub', 'krylov_sub', 'direct', 'krylov'])
        cfg = {'mode': rng.choice(['rev', 'rev', 'rev', 'fwd', 'auto']), 'lin': lin,
               'jac': rng.choice([None, None, 'dense', 'csc']) if lin.startswith('direct') else rng.choice(JACS),
               'fmt': rng.choice(FMTS), 'driver_scaling': rng.random() < 0.5, 'nl': 'nlbgs',
               'mf': rng.random() < 0.5, 'rhs': rng.choice(RHS_VARIANTS)}
        cfgs.append(cfg)
    return cfgs


def configs(spec, rng, nextra):
    cpl = spec['coupled']
    plin = 'direct' if cpl else 'runonce'
    cfgs = []
    for mode in ('fwd', 'rev'):
        for ds in (False, True):
            cfgs.append({'mode': mode, 'lin': plin, 'jac': None, 'fmt': 'array', 'driver_scaling': ds,
                         'nl': 'nlbgs', 'primary': True})
    for _ in range(nextra):
        cfg = {'mode': rng.choice(MODES), 'lin': rng.choice(LIN_CPL if cpl else LIN_FF),
               'jac': rng.choice(JACS), 'fmt': rng.choice(FMTS), 'driver_scaling': rng.random() < 0.5,
               'nl': rng.choice(['nlbgs', 'nlbgs', 'newton']) if cpl else 'nlbgs',
               'mf': rng.random() < 0.7}
        if rng.random() < 0.3:
            cfg['rhs'] = rng.choice(RHS_VARIANTS)
        if rng.random() < 0.4:
            cfg['lazy'] = True          # partial values supplied by compute_partials / linearize, not by val=
        if not cpl and rng.random() < 0.3:
            # first-level groups become approx_totals (finite-difference) groups: with matrix-free components,
            # implicit components, rows/cols partials inside, under every solver and jacobian format
            cfg['approx'] = True
            cfg['approx_any'] = True
        if not cpl and rng.random() < 0.12:
            # totals of the whole model by (exact) finite differences, with or without a total colouring
            # (a total colouring of approximated totals with ALIASED responses on one source raises in
            #  _init_colored_approximations — row sizes keyed by source name —: reported, not swept here)
            has_alias = any(r.get('alias') for r in spec['responses'])
            cfg.update({'approx_model': True, 'coloring': rng.random() < 0.5 and not has_alias, 'lin': 'runonce', 'jac': None,
                        'approx': False, 'approx_any': False, 'rhs': None})
        if cfg['lin'] in ('runonce', 'lbgs', 'lbjac'):
            cfg['jac'] = None           # block solvers do not support assembled jacobians
        if cfg['lin'].startswith('direct') and cfg['jac'] == 'csr':
            cfg['jac'] = 'csc'          # DirectSolver is implemented for dense and csc only
        cfgs.append(cfg)
    return cfgs


def spec_kind(spec):
    k = 'coupled' if spec['coupled'] else 'feedforward'
    if any(c['kind'] == 'imp' for c in spec['comps']):
        k += '+implicit'
    if any(i.get('src_indices') is not None for c in spec['comps'] for i in c['ins']):
        k += '+src_indices'
    if any(i.get('via') == 'promote' for c in spec['comps'] for i in c['ins']):
        k += '+promoted'
    if any('in' in d for d in spec['desvars']):
        k += '+auto_ivc'
    return k


class C01(Spec):
    pid = 'C01'
    imports = ['C01.Model']
    impl_script = 'props/C01/impl.py'
    exactness = 'E3 dyadic-exact for feed-forward specs under one-pass solvers; E4 (1e-9 relative) otherwise'
    shard = 40
    impl_jobs = 8
    impl_timeout = 1500
    extra_dirs = ['Base']
    model_deps = ['coq/C01/Model.vo']
    rule = ('random affine model specs (<= 7 components in <= 3 nested groups, explicit / implicit / IndepVarComp / '
            'auto_ivc, vectors <= 3, connections by connect or promotion with src_indices (negative, repeated), exactly '
            'convertible units, feedback connections for coupled specs), design variables / objective / constraints '
            'with indices, aliases, scaler/adder or ref/ref0 and units; each spec is run under the primary '
            'configuration in fwd and rev, with and without driver scaling, plus sampled configurations of '
            '{fwd,rev,auto} x {LinearRunOnce,LinearBlockGS,LinearBlockJac,DirectSolver,ScipyKrylov (top or per cycle)} x '
            '{matrix-free / dict, dense, csc, csr} x {array,dict,flat_dict} x {NLBGS,Newton} x {partials by val=, by compute_partials/linearize} x {first-level groups as approx_totals groups} x rhs_checking {off, True, option '
            'dicts}; plus chains of responses that are positive / negative / unit multiples of other responses (and responses '
            'bypassing the sub-group) downstream of a sub-group DirectSolver / ScipyKrylov with rhs_checking, so that the '
            'linear-solution cache takes its equal / negated / parallel / anti-parallel / zero branches; a case is a distinct spec')
    assumptions = ['coloured totals are not exercised here (C03 owns simultaneous-derivative colouring)',
                   'nonlinear (non-affine) components are outside the generator: the derivative of an affine model does '
                   'not depend on the linearisation point',
                   'configurations in which a solver reports non-convergence are vacuous for the property and skipped '
                   '(counted in the evidence)']

    def gen(self, tier, rng):
        n = 100 if tier == 'quick' else 1000
        nextra = 6 if tier == 'quick' else 12
        cases = []
        for k in range(n):
            cpl = (k % 4 == 3)
            spec = sg.gen_valid_spec(rng, coupled=cpl)
            cases.append({'spec': spec, 'cfgs': configs(spec, rng, nextra), 'kind': spec_kind(spec)})
        # responses that are (anti-)parallel multiples of other responses, upstream sub-group solver with
        # rhs_checking (linear-solution cache)
        for k in range(30 if tier == 'quick' else 200):
            spec = sg.gen_valid_rhs_spec(rng)
            cases.append({'spec': spec, 'cfgs': rhs_configs(spec, rng, nextra + 2), 'kind': 'rhs-chain'})
        return cases

    def search_gen(self, tier, rng):
        return self.gen('quick', rng)

    def got_term(self, c):
        flat = sg.flatten(c['spec'])
        return '(run_totals %s %s %s)' % (sg.gallina_spec(flat), sg.gallina_vois(flat['desvars']),
                                          sg.gallina_vois(flat['responses']))

    def signature(self, case, res):
        return res.get('sig') or 'C01'

    def shrink(self, c):
        """fewer configurations first (the failing one alone), then fewer vois"""
        spec = c['spec']
        if len(c['cfgs']) > 1:
            for cfg in c['cfgs']:
                yield dict(c, cfgs=[cfg])
        for key in ('desvars', 'responses'):
            if len(spec[key]) > 1:
                for k in range(len(spec[key])):
                    s2 = copy.deepcopy(spec)
                    del s2[key][k]
                    yield dict(c, spec=s2)
        for key in ('desvars', 'responses'):
            for k, d in enumerate(spec[key]):
                if any(d.get(f) is not None for f in ('scaler', 'adder', 'ref', 'ref0', 'units')):
                    s2 = copy.deepcopy(spec)
                    for f in ('scaler', 'adder', 'ref', 'ref0', 'units'):
                        s2[key][k][f] = None
                    yield dict(c, spec=s2)


def _after(v, cases, results):
    vac = sum(r.get('vacuous', 0) for r in results)
    ncfg = sum(r.get('ncfg', 0) for r in results)
    v.cov['configurations_checked'] = ncfg
    v.cov['configurations_vacuous_nonconverged'] = vac
    v.cov['exact_cases'] = sum(1 for r in results if r.get('exact'))
    st = {}
    for r in results:
        for kk, vv in (r.get('rhs_stats') or {}).items():
            st[kk] = st.get(kk, 0) + vv
    v.cov['rhs_checking_cache_statistics'] = st
    if not (st.get('parhits', 0) > 0 and st.get('neghits', 0) + st.get('eqhits', 0) > 0):
        v.broke('correspondence:generator-does-not-reach-the-linear-solution-cache %s' % st)
    if ncfg == 0 or vac > ncfg:
        v.broke('correspondence:too-many-vacuous-configurations (%d of %d)' % (vac, vac + ncfg))


def main(tier):
    return flow.two_group_check(C01(), tier, after_oracle=_after)
