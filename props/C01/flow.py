"""standard_check of harness/core.py with ONE difference: the model-vs-implementation comparison is split in two
groups — cases whose implementation result is exact (binary64 arithmetic provably exact on the generated
dyadic data) are compared with exact equality, the others (LU / iterative solvers, non-dyadic unit factors)
with the stated relative tolerance.  Everything else (proof gate, oracle pass, search, shrink, verdict) is the
harness's own code."""
import json
import os
import random
from fractions import Fraction

import core
from core import (Verdict, proof_gate, run_impl, coq_mismatches, coq_show, coq_make, load_corpus, workdir,
                  seed_from_env, _oracle_pass, _shrink, COQ)


def two_group_check(spec, tier, tol=Fraction(1, 10 ** 9), after_oracle=None):
    seed = seed_from_env()
    rng = random.Random(seed * 1000003 + sum(map(ord, spec.pid)))
    wd = workdir(spec.pid, tier)
    v = Verdict(spec.pid, tier, seed)
    v.cov['rule'] = spec.rule
    v.assumptions = list(spec.assumptions)

    gate = proof_gate(spec.pid, wd, extra_dirs=tuple(spec.extra_dirs))
    v.add_proof(gate)

    cases = load_corpus(spec.pid) + list(spec.gen(tier, rng))
    results, log = run_impl(spec.impl_script, cases, wd, jobs=spec.impl_jobs, timeout=spec.impl_timeout,
                            extra_env=getattr(spec, 'extra_env', None))
    if results is None:
        v.broke('correspondence:implementation-run-failed')
        v.cov['broken_detail'] = log[-3000:]
        return v.finish()
    _oracle_pass(spec, v, cases, results, wd)
    if after_oracle:
        after_oracle(v, cases, results)

    for d in spec.model_deps:
        coq_make([d])
    groups = [('exact', None, [i for i in range(len(cases))
                               if spec.compare_case(cases[i], results[i]) and results[i].get('exact')]),
              ('tolerance %.0e' % float(tol), tol, [i for i in range(len(cases))
                                       if spec.compare_case(cases[i], results[i]) and not results[i].get('exact')])]
    all_bad = []
    for gname, gtol, idx in groups:
        if not idx:
            v.add_correspondence('model-vs-implementation (%s)' % gname, 0, 0, gname, '')
            continue
        got = [spec.got_term(cases[i]) for i in idx]
        want = [spec.want_term(cases[i], results[i]) for i in idx]
        bad, errors, cmd = coq_mismatches(wd, spec.imports, got, want, shard=spec.shard, tol=gtol,
                                          prelude=spec.prelude, tag='cases_' + gname.split()[0])
        v.add_correspondence('model-vs-implementation (%s)' % gname, len(idx), len(bad),
                             spec.exactness + ' / ' + gname, cmd)
        if errors:
            v.broke('correspondence:model-evaluation-failed')
            v.cov['broken_detail'] = json.dumps(errors[:2])[-3000:]
        if bad:
            v.broke('correspondence:model-vs-implementation %s (%d of %d cases differ)' % (gname, len(bad), len(idx)))
            show = [idx[b] for b in bad[:2]]
            v.cov['broken_detail'] = json.dumps(
                {'first_mismatching_cases': [cases[i] for i in show],
                 'implementation': [results[i].get('res') for i in show],
                 'model': coq_show(wd, spec.imports, [spec.got_term(cases[i]) for i in show], spec.prelude)})[-8000:]
            all_bad += [idx[b] for b in bad]

    if v.broken and not v.violations:
        rng2 = random.Random(seed + 77)
        extra = [cases[i] for i in all_bad[:100]] + list(spec.search_gen(tier, rng2))
        res2, log2 = run_impl(spec.impl_script, extra, wd, tag='search', jobs=spec.impl_jobs,
                              timeout=spec.impl_timeout, extra_env=getattr(spec, 'extra_env', None))
        if res2 is not None:
            _oracle_pass(spec, v, extra, res2, wd)
    if v.violations:
        v.violations[0]['case'] = _shrink(spec, v.violations[0]['case'], wd, v)
    return v.finish()
