"""C16 -- interpolation derivatives are exact derivatives of the interpolant; linear in the table values."""
import importlib.util
import json
import os
import random
from fractions import Fraction as Fr

import core
from core import Spec, qlit

_p = os.path.join(os.path.dirname(os.path.abspath(__file__)), '..', 'C15', 'check.py')
_s = importlib.util.spec_from_file_location('c15check', _p)
g15 = importlib.util.module_from_spec(_s)
_s.loader.exec_module(g15)
pj, fj = g15.pj, g15.fj
METHODS, COQ_M, KMIN = g15.METHODS, g15.COQ_M, g15.KMIN
LINEAR = ['slinear', 'lagrange2', 'lagrange3', 'cubic']


def grids_for(rng, method, nd):
    exact_ok = method in ('slinear', 'lagrange2')
    mode = rng.choice(['uniform', 'pow2', 'any'])
    if exact_ok and rng.random() < 0.6:
        mode = 'uniform' if method == 'lagrange2' else rng.choice(['uniform', 'pow2'])
    extra = 3 if nd == 1 else (2 if nd == 2 else 1)
    grids = [g15.gen_grid(rng, KMIN[method] + rng.randrange(0, extra + 1), mode, rng.choice(g15.SIGNS))
             for _ in range(nd)]
    exact = exact_ok and (mode == 'uniform' or (method == 'slinear' and mode == 'pow2'))
    return grids, exact


def rand_table(rng, grids):
    return g15.tabulate(grids, lambda xs: Fr(rng.randrange(-40, 41), 4))


def interior(rng, g):
    i = rng.randrange(len(g) - 1)
    return g[i] + (g[i + 1] - g[i]) * Fr(rng.choice([1, 3, 5, 7]), 8)


def gen_grad(rng, method, nd, variant):
    grids, exact = grids_for(rng, method, nd)
    table = rand_table(rng, grids)
    pts = [[interior(rng, g) for g in grids] for _ in range(rng.choice([1, 2, 3]))]
    hs = [min(b - a for a, b in zip(g, g[1:])) / 64 for g in grids]
    extra = {}
    if rng.random() < 0.4:
        # history: the same object is first queried outside the table (extrapolation), then in the end cells
        pre = [[rng.choice([g[0] - Fr(1, 2), g[-1] + Fr(1, 2), g[-1] + 2]) for g in grids]
               for _ in range(rng.choice([1, 2]))]
        pts = [[g[i] + (g[i + 1] - g[i]) * Fr(rng.choice([1, 3, 5, 7]), 8)
                for g in grids for i in [rng.choice([0, len(g) - 2, rng.randrange(len(g) - 1)])]] for _ in pts]
        extra = {'history': True, 'pre': [[pj(v) for v in p] for p in pre]}
    return {**extra,
            'kind': 'grad', 'method': method, 'variant': variant, 'grids': [[pj(v) for v in g] for g in grids],
            'table': g15.to_json(table), 'pts': [[pj(v) for v in p] for p in pts], 'h': [pj(h) for h in hs],
            'cmp': 'exact' if exact else 'tol'}


SCENARIOS = ['interp-then-gradient', 'fresh-gradient', 'nearby', 'mutate', 'sequence']


def gen_gradapi(rng, method, nd, variant, scenario):
    """Call sequences on one InterpND object ending in the public gradient() API."""
    grids, exact = grids_for(rng, method, nd)
    table = rand_table(rng, grids)
    A = [interior(rng, g) for g in grids]
    C = [interior(rng, g) for g in grids]
    B = [a + abs(a) / 2 ** 18 for a in A]            # within numpy.allclose's default tolerance of A
    if B == A:
        B = [a + Fr(1, 2 ** 20) for a in A]
    jp = lambda p: [pj(v) for v in p]
    ops = {'interp-then-gradient': [['interp', jp(A), False], ['grad', jp(A)]],
           'fresh-gradient': [['grad', jp(A)]],
           'nearby': [['interp', jp(A), True], ['grad', jp(B)]],
           'mutate': [['mutgrad', jp(A), jp(C)]],
           'sequence': [['interp', jp(A), True], ['grad', jp(C)], ['grad', jp(A)], ['interp', jp(C), False],
                        ['grad', jp(C)]]}[scenario]
    hs = [min(b - a for a, b in zip(g, g[1:])) / 64 for g in grids]
    return {'kind': 'gradapi', 'method': method, 'variant': variant, 'scenario': scenario,
            'grids': [[pj(v) for v in g] for g in grids], 'table': g15.to_json(table), 'ops': ops,
            'h': [pj(h) for h in hs], 'cmp': 'exact' if exact and scenario != 'nearby' else 'tol'}


def gen_train(rng, method, nd, via):
    grids, exact = grids_for(rng, method, nd)
    v, w = rand_table(rng, grids), rand_table(rng, grids)
    a = rng.choice([Fr(2), Fr(-1), Fr(1, 2), Fr(-4), Fr(3)])
    pt = [g15.gen_coord(rng, g, rng.choice(['cell', 'cell', 'cell', 'node', 'lo', 'hi'])) for g in grids]
    return {'kind': 'train', 'method': method, 'via': via, 'grids': [[pj(x) for x in g] for g in grids],
            'v': g15.to_json(v), 'w': g15.to_json(w), 'a': pj(a), 'pt': [pj(x) for x in pt],
            'cmp': 'exact' if exact else 'tol'}


SCIPY_K = {'scipy_slinear': 1, 'scipy_cubic': 3, 'scipy_quintic': 5}


def gen_train_scipy(rng, method, nd, via):
    """Value gradients of the scipy spline wrappers on grids whose sizes (2..7) force DIFFERENT reduced
    spline orders in different dimensions (order = min(k, n_points - 1) per dimension)."""
    k = SCIPY_K[method]
    while True:
        sizes = [rng.randrange(2, 8) for _ in range(nd)]
        orders = [min(k, n - 1) for n in sizes]
        if len(set(orders)) > 1 or rng.random() < 0.25:
            break
    grids = [g15.gen_grid(rng, n, rng.choice(['uniform', 'pow2', 'any']), rng.choice(g15.SIGNS)) for n in sizes]
    v, w = rand_table(rng, grids), rand_table(rng, grids)
    a = rng.choice([Fr(2), Fr(-1), Fr(1, 2), Fr(-4), Fr(3)])
    pt = [g15.gen_coord(rng, g, rng.choice(['cell', 'cell', 'cell', 'node', 'lo', 'hi'])) for g in grids]
    return {'kind': 'train', 'method': method, 'via': via, 'grids': [[pj(x) for x in g] for g in grids],
            'v': g15.to_json(v), 'w': g15.to_json(w), 'a': pj(a), 'pt': [pj(x) for x in pt], 'cmp': 'tol',
            'orders': orders}


def gen_splinehist(rng, method, via):
    c = gen_spline(rng, method, 'interp')
    m = max(2, len(c['x_interp']))
    steps = []
    for _ in range(rng.choice([2, 3])):
        if method == 'bsplines':
            steps.append(sorted(set(Fr(rng.randrange(0, 65), 64) for _ in range(m + 3)))[:m])
            while len(steps[-1]) < m:
                steps[-1] = sorted(set(steps[-1]) | {Fr(rng.randrange(0, 65), 64)})[:m]
            if steps[-1][0] == steps[-1][-1]:
                steps[-1][-1] = steps[-1][0] + Fr(1, 64)
        else:
            g = [fj(x) for x in c['x_cp']]
            steps.append(sorted(interior(rng, g) for _ in range(m)))
    return {'kind': 'splinehist', 'method': method, 'via': via, 'v': c['v'], 'x_cp': c.get('x_cp'),
            'xs': [[pj(x) for x in st] for st in steps], 'cmp': 'tol'}


def gen_spline(rng, method, via):
    n = rng.randrange(max(4, KMIN.get(method, 4)), 9)
    c = {'kind': 'spline', 'method': method, 'via': via, 'a': pj(rng.choice([Fr(2), Fr(-1), Fr(1, 2), Fr(3)])),
         'v': [pj(Fr(rng.randrange(-640, 641), 64)) for _ in range(n)],
         'w': [pj(Fr(rng.randrange(-640, 641), 64)) for _ in range(n)], 'cmp': 'tol'}
    if method == 'bsplines':
        m = rng.randrange(2, 12)
        c['x_interp'] = [pj(Fr(k, m - 1)) for k in range(m)] if rng.random() < 0.5 else \
            sorted([pj(Fr(rng.randrange(0, 65), 64)) for _ in range(m)], key=lambda p: Fr(p[0], p[1]))
        xs = [Fr(p[0], p[1]) for p in c['x_interp']]
        if xs[0] == xs[-1]:
            c['x_interp'] = [pj(0), pj(Fr(1, 2)), pj(1)]
        c['order'] = rng.choice([None, None, 3, 4]) if n >= 4 else None
    else:
        g = g15.gen_grid(rng, n, rng.choice(['uniform', 'pow2', 'any']), rng.choice(g15.SIGNS))
        c['x_cp'] = [pj(x) for x in g]
        m = rng.randrange(1, 8)
        c['x_interp'] = [pj(x) for x in sorted(interior(rng, g) for _ in range(m))]
    if via == 'comp':
        # further splines (different control points) on the same SplineComp
        c['extra'] = [[pj(Fr(rng.randrange(-640, 641), 64)) for _ in range(n)] for _ in range(rng.choice([1, 2]))]
    return c


class C16(Spec):
    pid = 'C16'
    imports = ['C15.Model', 'C16.Model']
    impl_script = 'props/C16/impl.py'
    impl_jobs = 4
    rule = ('grids as in C15 (six sign classes, three spacing modes, dimension 1-3); d/dx: points strictly inside '
            'cells (odd eighths), all five methods, general and fixed variants, compared with a 5-point difference '
            'of the returned values, akima also with the smoothing option delta_x > 0 on 2-D/3-D tables, also as histories (same object queried outside the table first, then one call per point); value gradients: training_gradients / MetaModelStructuredComp(training_data_'
            'gradients) for slinear, lagrange2, lagrange3, cubic and the scipy_slinear/cubic/quintic wrappers (2-D/3-D grids with 2-7 '
            'points per dimension, so that the reduced spline orders differ between dimensions) with tables v, w, a*v+w; evaluate_spline and '
            'spline histories on one InterpND / SplineComp (x_interp replaced by another array of the same length between '
            'derivative requests); SplineComp (2-3 splines with different control points on one component) for slinear, lagrange2, lagrange3, '
            'cubic, akima, bsplines; the public gradient() API in call sequences on one object (interpolate then gradient, '
            'fresh gradient, gradient at a point within 4e-6 relative of the cached one, in-place mutation of the query '
            'array, mixed sequences); every case distinct')

    def gen(self, tier, rng):
        cases = []
        n1, n2, n3 = (500, 500, 220) if tier == 'quick' else (5000, 5000, 2200)
        for k in range(n1):
            method = METHODS[k % len(METHODS)]
            nd = rng.choice([1, 1, 2, 2, 3])
            variant = 'fixed' if (method, nd) in g15.FIXED and rng.random() < 0.3 else 'general'
            cases.append(gen_grad(rng, method, nd, variant))
        # akima with the smoothing option delta_x > 0 on 2-D / 3-D tables (non-monotone random data, so the
        # slope differences change sign and fall inside / outside the +-delta_x band): every gradient component
        for k in range(90 if tier == 'quick' else 900):
            c = gen_grad(rng, 'akima', rng.choice([2, 2, 3]), 'general')
            c.pop('history', None)
            c.pop('pre', None)
            c['delta_x'] = pj(rng.choice([Fr(1, 20), Fr(1, 10), Fr(1, 4), Fr(1, 2), Fr(2)]))
            cases.append(c)
        for k in range(200 if tier == 'quick' else 2000):
            method = METHODS[k % len(METHODS)]
            nd = rng.choice([1, 2, 2, 3])
            variant = 'fixed' if (method, nd) in g15.FIXED and rng.random() < 0.3 else 'general'
            cases.append(gen_gradapi(rng, method, nd, variant, SCENARIOS[(k // len(METHODS)) % len(SCENARIOS)]))
        for k in range(n2):
            method = LINEAR[k % len(LINEAR)]
            nd = rng.choice([1, 1, 2, 2, 3])
            cases.append(gen_train(rng, method, nd, 'comp' if rng.random() < 0.1 else 'interp'))
        for k in range(120 if tier == 'quick' else 1200):
            method = ['scipy_cubic', 'scipy_quintic', 'scipy_slinear', 'scipy_cubic', 'scipy_quintic'][k % 5]
            cases.append(gen_train_scipy(rng, method, rng.choice([2, 2, 3]), 'comp' if rng.random() < 0.15 else 'interp'))
        hm = ['slinear', 'lagrange2', 'lagrange3', 'cubic', 'akima', 'scipy_cubic', 'scipy_slinear', 'scipy_quintic']
        for k in range(96 if tier == 'quick' else 960):
            cases.append(gen_splinehist(rng, hm[k % len(hm)], 'comp' if k % 3 == 2 else 'interp'))
        sm = ['slinear', 'lagrange2', 'lagrange3', 'cubic', 'akima', 'bsplines', 'bsplines']
        for k in range(n3):
            cases.append(gen_spline(rng, sm[k % len(sm)], 'comp' if rng.random() < 0.3 else 'interp'))
        return cases

    def search_gen(self, tier, rng):
        return self.gen('quick', rng)

    def got_term(self, c):
        gs = '[%s]' % '; '.join(g15.qlist_term(g) for g in c['grids'])
        if c['kind'] == 'grad':
            return '(run_grad %s %s %s [%s])' % (COQ_M[c['method']], gs, g15.tensor_term(c['table']),
                                                '; '.join(g15.qlist_term(p) for p in c['pts']))
        if c['kind'] == 'gradapi':
            pts = [op[1] if op[0] == 'grad' else op[2] for op in c['ops'] if op[0] != 'interp']
            return '(VL (map (fun l => vqs (List.tl l)) (grad_points %s %s %s (map (fun _ => 0%%Z) %s) [%s])))' % (
                COQ_M[c['method']], gs, g15.tensor_term(c['table']), gs, '; '.join(g15.qlist_term(p) for p in pts))
        return '(run_train %s %s %s)' % (COQ_M[c['method']], gs, g15.qlist_term(c['pt']))

    def shrink(self, c):
        if c['kind'] == 'grad' and len(c['pts']) > 1:
            for j in range(len(c['pts'])):
                yield dict(c, pts=[c['pts'][j]])
        if c.get('via') == 'comp':
            yield dict(c, via='interp')


def main(tier):
    spec = C16()
    seed = core.seed_from_env()
    rng = random.Random(seed * 1000003 + sum(map(ord, spec.pid)))
    wd = core.workdir(spec.pid, tier)
    v = core.Verdict(spec.pid, tier, seed)
    v.cov['rule'] = spec.rule
    v.assumptions = ['binary64 rounding is not modelled (exact rational model; == on dyadic data where all float '
                     'operations are exact, relative 1e-9 otherwise)',
                     'B-spline basis recursion, akima value-gradients, akima d/dx in more than one dimension and the '
                     'fixed-dimension classes are covered by the oracle on the real code only (not modelled)']
    gate = core.proof_gate(spec.pid, wd)
    v.add_proof(gate)
    cases = core.load_corpus(spec.pid) + list(spec.gen(tier, rng))
    results, log = core.run_impl(spec.impl_script, cases, wd, jobs=spec.impl_jobs)
    if results is None:
        v.broke('correspondence:implementation-run-failed')
        v.cov['broken_detail'] = log[-3000:]
        return v.finish()
    core._oracle_pass(spec, v, cases, results, wd)
    bad_cases = []
    for grp, tol in (('exact', None), ('tol', Fr(1, 10 ** 9))):
        idx = [i for i in range(len(cases)) if spec.compare_case(cases[i], results[i]) and cases[i]['cmp'] == grp]
        got = [spec.got_term(cases[i]) for i in idx]
        want = [spec.want_term(cases[i], results[i]) for i in idx]
        bad, errors, cmd = core.coq_mismatches(wd, spec.imports, got, want, shard=200, tol=tol, tag='cases_' + grp)
        v.add_correspondence('model-vs-implementation (%s)' % grp, len(idx), len(bad),
                             'E3 exact' if tol is None else 'E4 rel 1e-9', cmd)
        if errors:
            v.broke('correspondence:model-evaluation-failed (%s)' % grp)
            v.cov['broken_detail'] = json.dumps(errors[:2])[-3000:]
        if bad:
            v.broke('correspondence:model-vs-implementation %s (%d of %d cases differ)' % (grp, len(bad), len(idx)))
            show = [idx[b] for b in bad[:3]]
            bad_cases += [cases[idx[b]] for b in bad[:100]]
            v.cov['broken_detail'] = json.dumps(
                {'first_mismatching_cases': [cases[i] for i in show],
                 'implementation': [results[i].get('res') for i in show],
                 'model': core.coq_show(wd, spec.imports, [spec.got_term(cases[i]) for i in show])})[-6000:]
    if v.broken and not v.violations:
        rng2 = random.Random(seed + 77)
        extra = bad_cases + list(spec.search_gen(tier, rng2))
        res2, _ = core.run_impl(spec.impl_script, extra, wd, tag='search', jobs=spec.impl_jobs)
        if res2 is not None:
            core._oracle_pass(spec, v, extra, res2, wd)
    if v.violations:
        v.violations[0]['case'] = core._shrink(spec, v.violations[0]['case'], wd, v)
    return v.finish()


def replay(rep):
    case = rep.get('case')
    wd = core.workdir('C16', 'replay')
    res, log = core.run_impl('props/C16/impl.py', [case], wd, jobs=1)
    print(json.dumps({'case': case, 'result': res, 'log': log[-500:]}, indent=1)[:4000])
    return 0 if res and res[0].get('ok') else 1
