"""C16 implementation side: derivatives returned by the real InterpND / evaluate_spline / SplineComp.

Oracles (the property evaluated on the real code):
  grad   d/dx returned by interpolate(compute_derivative=True) equals a 5-point central difference of the
         values returned by the same object inside the cell (exact for piecewise polynomials of degree <= 4
         up to rounding), for every coordinate;
  train  interp(a*v + w) = a*interp(v) + interp(w) and interp(v) = sum_k training_gradients_k * v_k
         (== on dyadic 'exact' cases, 1e-9 otherwise);
  spline evaluate_spline is linear in the control values with the returned matrix as coefficients (rows of
         the B-spline matrix sum to one); SplineComp outputs and partials agree with it.
"""
import warnings
from fractions import Fraction as Fr
import numpy as np
from implutil import main, q

warnings.simplefilter('ignore')
import openmdao.api as om  # noqa: E402
from openmdao.components.interp_util.interp import InterpND  # noqa: E402

TOL = 1e-9


def fr(p):
    return Fr(int(p[0]), int(p[1]))


def conv(t, d):
    return [conv(s, d - 1) for s in t] if d > 0 else float(fr(t))


def close(a, b, exact, tol=TOL, scale=1.0):
    if exact:
        return Fr(float(a)) == Fr(b)
    return abs(Fr(float(a)) - Fr(b)) <= Fr(tol) * max(1, abs(Fr(b)), Fr(scale))


def check_point(name, method, nd, grids, table, pt, hs, der_row, what='returned', kw=None):
    """Is der_row the derivative, at pt, of the values the interpolator returns?  5-point central
    differences of fresh objects; returns (ok, msg)."""
    tabscale = float(np.max(np.abs(table))) if table.size else 1.0

    kw = kw or {}

    def value(p):
        it2 = InterpND(method=name, points=tuple(grids), values=table, extrapolate=True, **kw)
        return Fr(float(np.ravel(it2.interpolate(p.reshape(1, nd)))[0]))
    for i in range(nd):
        h = hs[i]

        def fd(hh):
            f = []
            for s in (-2, -1, 1, 2):
                p = pt.copy()
                p[i] += s * hh
                f.append(value(p))
            return (f[0] - 8 * f[1] + 8 * f[2] - f[3]) / (12 * Fr(hh))
        d_fd = fd(h)
        smooth = method != 'akima' or (nd == 1)
        tol = 1e-7
        if not smooth:
            # akima in several dimensions is not a polynomial in the outer coordinates (the slope weights
            # use abs()); compare only where the difference quotients show no kink near the point
            def one_sided(sgn, hh):
                f = []
                for s_ in (0, 1, 2):
                    p = pt.copy()
                    p[i] += sgn * s_ * hh
                    f.append(value(p))
                return sgn * (-3 * f[0] + 4 * f[1] - f[2]) / (2 * Fr(hh))
            d_fd2 = fd(h / 4)
            sc = max(1, abs(d_fd))
            if abs(d_fd - d_fd2) > Fr(1e-6) * sc or abs(one_sided(1, h / 4) - one_sided(-1, h / 4)) > Fr(1e-3) * sc:
                continue
            tol = 1e-5
        if not np.isfinite(der_row[i]) or not close(der_row[i], d_fd, False, tol, tabscale / h * 1e-3):
            return False, '%s grids=%s point=%s: %s d/dx_%d = %r, difference quotient of the returned values = %r' % (
                name, [[float(v) for v in g] for g in grids], pt.tolist(), what, i, float(der_row[i]), float(d_fd))
    return True, ''


def handle_grad(c):
    nd = len(c['grids'])
    grids = [np.array([float(fr(p)) for p in g]) for g in c['grids']]
    table = np.array(conv(c['table'], nd))
    pts = np.array([[float(fr(v)) for v in pt] for pt in c['pts']])
    hs = [float(fr(h)) for h in c['h']]
    name = c['method'] if c['variant'] == 'general' else '%dD-%s' % (nd, c['method'])
    kw = {'delta_x': float(fr(c['delta_x']))} if c.get('delta_x') else {}     # akima smoothing option
    kind = 'grad/%s/%dD%s%s' % (name, nd, '/history' if c.get('history') else '', '/delta_x' if kw else '')
    try:
        it = InterpND(method=name, points=tuple(grids), values=table, extrapolate=True, **kw)
        if not c.get('history'):
            it.interpolate(pts.copy(), compute_derivative=True)
    except Exception as e:   # noqa
        return {'res': '__none__', 'ok': False, 'sig': 'd_dx-raises', 'kind': kind,
                'msg': '%s (%s) on a %d-D table: interpolate(compute_derivative=True) raised %s: %s' % (
                    name, kw, nd, type(e).__name__, str(e)[:120])}
    it = InterpND(method=name, points=tuple(grids), values=table, extrapolate=True, **kw)
    if c.get('history'):
        # one interpolant object: out-of-table single-point calls first, then one call per query point
        for pre in c['pre']:
            it.interpolate(np.array([[float(fr(v)) for v in pre]]), compute_derivative=True)
        vals, der = [], []
        for j in range(len(pts)):
            vj, dj = it.interpolate(pts[j].reshape(1, nd).copy(), compute_derivative=True)
            vals.append(float(np.ravel(vj)[0]))
            der.append(np.ravel(dj))
    else:
        vals, der = it.interpolate(pts, compute_derivative=True)
    vals = np.array(vals, dtype=float).ravel()
    der = np.array(der, dtype=float).reshape(len(pts), nd)
    res = [[q(vals[j])] + [q(d) for d in der[j]] for j in range(len(pts))]
    ok, msg = True, ''
    for j in range(len(pts)):
        ok, msg = check_point(name, c['method'], nd, grids, table, pts[j], hs, der[j],
                              'returned (options %s)' % kw if kw else 'returned', kw)
        if not ok:
            break
    model = not (c['method'] == 'akima' and (nd > 1 or kw)) and c['variant'] == 'general'
    return {'res': res if model else '__none__', 'ok': ok, 'msg': msg, 'sig': 'd_dx', 'kind': kind}


def handle_gradapi(c):
    """The public InterpND.gradient API in call sequences on ONE object:
       ops: ['interp', pt, compute_derivative] | ['grad', pt] | ['mutgrad', pt_before, pt_after]
       (mutgrad: interpolate(x) on an array x, change x in place, gradient(x)).
       Every gradient returned must be the derivative, at the point it was asked for, of the values."""
    nd = len(c['grids'])
    grids = [np.array([float(fr(p)) for p in g]) for g in c['grids']]
    table = np.array(conv(c['table'], nd))
    hs = [float(fr(h)) for h in c['h']]
    name = c['method'] if c['variant'] == 'general' else '%dD-%s' % (nd, c['method'])
    kind = 'gradapi/%s/%dD/%s' % (name, nd, c['scenario'])
    it = InterpND(method=name, points=tuple(grids), values=table, extrapolate=True)
    res, ok, msg = [], True, ''
    for op in c['ops']:
        if op[0] == 'interp':
            x = np.array([[float(fr(v)) for v in op[1]]])
            it.interpolate(x, compute_derivative=bool(op[2]))
            continue
        if op[0] == 'grad':
            pt = np.array([float(fr(v)) for v in op[1]])
            g = np.ravel(np.array(it.gradient(pt.reshape(1, nd).copy()), dtype=float))
            what = 'gradient()'
        else:
            x = np.array([[float(fr(v)) for v in op[1]]])
            it.interpolate(x, compute_derivative=True)
            pt = np.array([float(fr(v)) for v in op[2]])
            x[0, :] = pt
            g = np.ravel(np.array(it.gradient(x), dtype=float))
            what = 'gradient(x) after x was changed in place,'
        res.append([q(v) if np.isfinite(v) else None for v in g])
        if ok:
            ok, msg = check_point(name, c['method'], nd, grids, table, pt, hs, g, what + ' in scenario %s:' % c['scenario'])
    model = not (c['method'] == 'akima' and nd > 1) and c['variant'] == 'general'
    return {'res': res if model else '__none__', 'ok': ok, 'msg': msg, 'sig': 'gradient-api/' + c['scenario'], 'kind': kind}


def flat(t):
    return [v for s in t for v in flat(s)] if isinstance(t, list) and t and isinstance(t[0], list) and \
        not (len(t) == 2 and isinstance(t[0], int)) else [t]


def handle_train(c):
    try:
        return _handle_train(c)
    except Exception as e:   # noqa
        return {'res': '__none__', 'ok': False, 'sig': 'd_dvalues-raises', 'kind': 'train/%s/%dD/%s' % (
            c['method'], len(c['grids']), c['via']),
            'msg': '%s, grid sizes %s, at %s: value / training-gradient request raised %s: %s' % (
                c['method'], [len(g) for g in c['grids']], [str(fr(x)) for x in c['pt']], type(e).__name__, str(e)[:160])}


def _handle_train(c):
    nd = len(c['grids'])
    grids = [np.array([float(fr(p)) for p in g]) for g in c['grids']]
    v = np.array(conv(c['v'], nd))
    w = np.array(conv(c['w'], nd))
    a = float(fr(c['a']))
    pt = np.array([float(fr(x)) for x in c['pt']])
    exact = c['cmp'] == 'exact'
    name = c['method']
    kind = 'train/%s/%dD/%s' % (name, nd, c['via'])

    def f(tab):
        it = InterpND(method=name, points=tuple(grids), values=tab, extrapolate=True)
        return float(np.ravel(it.interpolate(pt.reshape(1, nd)))[0])
    if c['via'] == 'comp':
        comp = om.MetaModelStructuredComp(method=name, extrapolate=True, training_data_gradients=True)
        for i in range(nd):
            comp.add_input('x%d' % i, 0.0, grids[i])
        comp.add_output('f', 0.0, v)
        prob = om.Problem()
        prob.model.add_subsystem('comp', comp, promotes=['*'])
        prob.setup()
        for i in range(nd):
            prob.set_val('x%d' % i, pt[i])
        prob.set_val('f_train', v)
        prob.run_model()
        fv = float(np.ravel(prob.get_val('f'))[0])
        tg = np.array(prob.compute_totals(of=['f'], wrt=['f_train'], return_format='array')).ravel()
    else:
        it = InterpND(method=name, points=tuple(grids), values=v, extrapolate=True)
        fv = float(np.ravel(it.interpolate(pt.reshape(1, nd)))[0])
        tg = np.array(it.training_gradients(pt), dtype=float).ravel()
    fw, fc = f(w), f(a * v + w)
    res = [q(t) for t in tg]
    if name.startswith('scipy'):
        # scipy wrappers: no Coq model; the interpolant is linear in the table values, so the checks below
        # (linearity, value == sum(d_dvalues * values)) and a difference quotient in single table values decide
        res = '__none__'
        kind += '/orders=' + ','.join(str(o) for o in c.get('orders', []))
    ok, msg = True, ''
    if not close(fc, Fr(a) * Fr(fv) + Fr(fw), exact):
        ok, msg = False, '%s at %s: interp(a*v+w)=%r but a*interp(v)+interp(w)=%r (a=%s)' % (
            name, [str(fr(x)) for x in c['pt']], fc, a * fv + fw, a)
    else:
        dot = sum(Fr(float(t)) * Fr(float(x)) for t, x in zip(tg, v.ravel()))
        if len(tg) != v.size or not close(fv, dot, exact):
            ok, msg = False, '%s at %s: interp(v)=%r but sum(training_gradients*v)=%r' % (
                name, [str(fr(x)) for x in c['pt']], fv, float(dot))
    if ok and name.startswith('scipy'):
        sc = max(1.0, float(np.max(np.abs(v))))
        rng_ = np.random.default_rng(len(tg))
        for kflat in rng_.choice(v.size, size=min(3, v.size), replace=False):
            e = np.zeros(v.size)
            e[kflat] = 1.0
            dq = f(v + e.reshape(v.shape)) - fv           # exact for a function linear in the table values
            if abs(dq - tg[kflat]) > 1e-8 * max(sc, abs(dq)):
                ok, msg = False, '%s grid sizes %s at %s: d value / d table[%d] returned %r, difference quotient %r' % (
                    name, [len(g) for g in grids], [str(fr(x)) for x in c['pt']], int(kflat), float(tg[kflat]), dq)
                break
    return {'res': res, 'ok': ok, 'msg': msg, 'sig': 'd_dvalues', 'kind': kind}


def handle_spline(c):
    method = c['method']
    xi = np.array([float(fr(x)) for x in c['x_interp']])
    v = np.array([float(fr(x)) for x in c['v']])
    w = np.array([float(fr(x)) for x in c['w']])
    a = float(fr(c['a']))
    kw = {}
    if method == 'bsplines':
        kw = dict(num_cp=len(v), x_interp=xi)
        if c.get('order'):
            kw['order'] = int(c['order'])
    else:
        kw = dict(points=np.array([float(fr(x)) for x in c['x_cp']]), x_interp=xi)
    kind = 'spline/%s/%s' % (method, c['via'])

    def ev(vals):
        it = InterpND(method=method, extrapolate=True, **kw)
        y, dy = it.evaluate_spline(vals, compute_derivative=True)
        return np.array(y, dtype=float).ravel(), np.array(dy, dtype=float).reshape(len(xi), len(vals))
    yv, J = ev(v)
    yw, _ = ev(w)
    yc, _ = ev(a * v + w)
    scale = max(1.0, float(np.max(np.abs(v))), float(np.max(np.abs(w))))
    ok, msg = True, ''
    if method != 'akima':
        if np.max(np.abs(yc - (a * yv + yw))) > 1e-9 * scale * max(1, abs(a)):
            ok, msg = False, '%s evaluate_spline is not linear in the control values: %r vs %r' % (method, yc, a * yv + yw)
        elif np.max(np.abs(J @ v - yv)) > 1e-9 * scale:
            ok, msg = False, '%s evaluate_spline: values %r but derivative matrix times control values %r' % (method, yv, J @ v)
        elif np.max(np.abs(J.sum(axis=1) - 1.0)) > 1e-9:
            ok, msg = False, '%s evaluate_spline: rows of the derivative matrix sum to %r (constants not reproduced)' % (
                method, J.sum(axis=1))
    else:
        # akima is not linear in the values: the returned matrix must be the derivative of the returned values
        h = 1e-6
        for k in range(len(v)):
            def col(step):
                vp = v.copy()
                vp[k] += step
                return ev(vp)[0]
            y0 = yv
            fwd = (col(h) - y0) / h
            bwd = (y0 - col(-h)) / h
            fdk = (col(h) - col(-h)) / (2 * h)
            good = np.abs(fwd - bwd) <= 1e-4 * scale        # no kink of the abs() weights at this table
            if np.any(np.abs(J[:, k] - fdk)[good] > 1e-4 * scale):
                ok, msg = False, 'akima evaluate_spline: d/dvalue[%d] = %r, difference quotient %r' % (k, J[:, k], fdk)
                break
    if ok and c['via'] == 'comp':
        opts = dict(method=method, x_interp_val=xi)
        if method == 'bsplines':
            opts['num_cp'] = len(v)
            if c.get('order'):
                opts['interp_options'] = {'order': int(c['order'])}
        else:
            opts['x_cp_val'] = kw['points']
        comp = om.SplineComp(**opts)
        # several splines with different control points on ONE component
        ctrl = [v] + [np.array([float(fr(x)) for x in e]) for e in c.get('extra', [])]
        for k, cv in enumerate(ctrl):
            comp.add_spline(y_cp_name='ycp%d' % k, y_interp_name='y%d' % k, y_cp_val=cv.copy())
        prob = om.Problem()
        prob.model.add_subsystem('s', comp, promotes=['*'])
        prob.setup()
        for k, cv in enumerate(ctrl):
            prob.set_val('ycp%d' % k, cv.reshape(1, -1))
        prob.run_model()
        for k, cv in enumerate(ctrl):
            yk, Jk = ev(cv)
            yo = np.array(prob.get_val('y%d' % k)).ravel()
            Jc = np.array(prob.compute_totals(of=['y%d' % k], wrt=['ycp%d' % k], return_format='array'))
            sck = max(scale, float(np.max(np.abs(cv))))
            if np.max(np.abs(yo - yk)) > 1e-12 * sck:
                ok, msg = False, 'SplineComp(%s) spline %d of %d: output %r, evaluate_spline %r' % (method, k, len(ctrl), yo, yk)
                break
            if np.max(np.abs(Jc - Jk)) > 1e-12 * sck:
                ok, msg = False, 'SplineComp(%s) spline %d of %d: partials differ from the evaluate_spline derivative (max %g)' % (
                    method, k, len(ctrl), float(np.max(np.abs(Jc - Jk))))
                break
    return {'res': '__none__', 'ok': ok, 'msg': msg, 'sig': 'spline', 'kind': kind}


def handle_splinehist(c):
    """Spline histories on ONE object: evaluate + derivative at x_interp = xs[0], then x_interp is replaced by
    another array of the same length and both are requested again (InterpND.x_interp, or
    SplineComp.options['x_interp_val'] between run_model calls).  Per step: the values and the derivative
    matrix are those of a fresh object built with the current x_interp, and y = J @ y_cp (linear methods)."""
    method = c['method']
    v = np.array([float(fr(x)) for x in c['v']])
    xs = [np.array([float(fr(x)) for x in step]) for step in c['xs']]
    xcp = None if method == 'bsplines' else np.array([float(fr(x)) for x in c['x_cp']])
    kind = 'splinehist/%s/%s' % (method, c['via'])
    scale = max(1.0, float(np.max(np.abs(v))))

    def make(xi):
        if method == 'bsplines':
            return InterpND(method=method, extrapolate=True, num_cp=len(v), x_interp=xi)
        return InterpND(method=method, extrapolate=True, points=xcp, x_interp=xi)

    def fresh(xi):
        y, dy = make(xi).evaluate_spline(v.copy(), compute_derivative=True)
        return np.array(y, dtype=float).ravel(), np.array(dy, dtype=float).reshape(len(xi), len(v))
    ok, msg = True, ''
    if c['via'] == 'comp':
        opts = dict(method=method, x_interp_val=xs[0].copy())
        if method == 'bsplines':
            opts['num_cp'] = len(v)
        else:
            opts['x_cp_val'] = xcp
        comp = om.SplineComp(**opts)
        comp.add_spline(y_cp_name='ycp', y_interp_name='y', y_cp_val=v.copy())
        prob = om.Problem()
        prob.model.add_subsystem('s', comp, promotes=['*'])
        prob.setup()
    else:
        it = make(xs[0].copy())
    for k, xi in enumerate(xs):
        if c['via'] == 'comp':
            comp.options['x_interp_val'] = xi.copy()
            prob.set_val('ycp', v.reshape(1, -1))
            prob.run_model()
            y = np.array(prob.get_val('y')).ravel()
            J = np.array(prob.compute_totals(of=['y'], wrt=['ycp'], return_format='array')).reshape(len(xi), len(v))
        else:
            it.x_interp = xi.copy()
            y, J = it.evaluate_spline(v.copy(), compute_derivative=True)
            y, J = np.array(y, dtype=float).ravel(), np.array(J, dtype=float).reshape(len(xi), len(v))
        yf, Jf = fresh(xi)
        if np.max(np.abs(y - yf)) > 1e-10 * scale:
            ok, msg = False, '%s (%s) step %d, x_interp=%s: values %r, a fresh object gives %r' % (method, c['via'], k, xi.tolist(), y.tolist(), yf.tolist())
        elif np.max(np.abs(J - Jf)) > 1e-10 * scale:
            ok, msg = False, ('%s (%s) step %d after x_interp was replaced by %s: derivative w.r.t. the control values differs '
                              'from that of a fresh object by %g' % (method, c['via'], k, xi.tolist(), float(np.max(np.abs(J - Jf)))))
        elif method != 'akima' and np.max(np.abs(J @ v - y)) > 1e-9 * scale:
            ok, msg = False, '%s (%s) step %d, x_interp=%s: values %r but J @ y_cp = %r' % (method, c['via'], k, xi.tolist(), y.tolist(), (J @ v).tolist())
        if not ok:
            break
    return {'res': '__none__', 'ok': ok, 'msg': msg, 'sig': 'spline-history', 'kind': kind}


def handle(c):
    return {'splinehist': handle_splinehist, 'grad': handle_grad, 'gradapi': handle_gradapi, 'train': handle_train, 'spline': handle_spline}[c['kind']](c)


if __name__ == '__main__':
    main(handle)
