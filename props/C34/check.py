"""C34 — function-based and jax components compute their functions and exact partials."""
import concurrent.futures as cf
import math
import os
import random
import re
import sys
from fractions import Fraction

import core
from core import Verdict

HERE = os.path.dirname(os.path.abspath(__file__))
sys.path.insert(0, HERE)
import exprs as ex  # noqa: E402

PID = 'C34'
TOL = Fraction(1, 10 ** 9)
RULE = ('random smooth functions from the primitive set {+ - * / neg pow exp ln sqrt sin cos tan tanh atan abs} '
        '(depth <= 3, domains guarded by construction) x scalar / 1-D / multi-dimensional input, output and state shapes '
        '((), (n,), (2,3), (3,1,2), ...), more outputs than inputs and the reverse (both jvp / vjp directions), wrapped by '
        'om.func_api into ExplicitFuncComp / ImplicitFuncComp (method cs and jax) and as compute_primal of '
        'JaxExplicitComponent / JaxImplicitComponent (dense, auto-detected and rows/cols-declared sparse partials), with '
        'and without sparsity colouring, problem mode fwd/rev/auto, state arguments in any signature order; every output element and '
        'every jacobian entry is one interval-checked Coq goal against evalR / evalR (D ..) of the same expression')


SHAPES_1D = [[1], [1], [2], [3]]
SHAPES_ND = [[], [2, 3], [3, 1, 2], [2, 2], [1, 2], [2, 1]]


def size(shape):
    r = 1
    for d in shape:
        r *= d
    return r


def pick_shapes(rng, count, cap, nd):
    """`count` shapes with total size <= cap; nd: probability of a scalar / multi-dimensional shape"""
    for _ in range(100):
        shp = [list(rng.choice(SHAPES_ND if rng.random() < nd else SHAPES_1D)) for _ in range(count)]
        if sum(size(s) for s in shp) <= cap:
            return shp
    return [[1]] * count


def vars_of(t, acc):
    if t[0] == 'var':
        acc.add(t[1])
    for s in t[1:]:
        if isinstance(s, list) and s and isinstance(s[0], str):
            vars_of(s, acc)
    return acc


def gen_case(rng):
    comp = rng.choice(['efunc'] * 4 + ['ifunc'] * 3 + ['jaxexp'] * 3 + ['jaximp'] * 2)
    method = 'jax' if comp.startswith('jax') else rng.choice(['cs', 'jax', 'jax'])
    implicit = comp in ('ifunc', 'jaximp')
    for _ in range(300):
        nd = rng.choice([0.0, 0.0, 0.5, 0.8])
        tall = rng.random() < 0.5                 # more outputs than inputs (forward) or the reverse
        nin = rng.choice([1, 2, 2])
        c = {'comp': comp, 'method': method}
        if implicit:
            nst = rng.choice([1, 2, 2]) if comp == 'ifunc' else rng.choice([1, 1, 2])
            sshapes = pick_shapes(rng, nst, 5 if tall else 3, nd)
            ishapes = pick_shapes(rng, nin, 3 if tall else 6, nd)
            c['states'] = [['s%d' % k, s] for k, s in enumerate(sshapes)]
            outs = [['r%d' % k, s] for k, s in enumerate(sshapes)]
            if nst == 2 and comp == 'ifunc' and rng.random() < 0.75:
                c['sig_order'] = [1, 0]
            c['mode'] = rng.choice(['auto', 'auto', 'fwd', 'rev'])
        else:
            nout = rng.choice([1, 2, 2]) if tall else rng.choice([1, 1, 2])
            oshapes = pick_shapes(rng, nout, 7 if tall else 3, nd)
            ishapes = pick_shapes(rng, nin, 3 if tall else 7, nd)
            outs = [['y%d' % k, s] for k, s in enumerate(oshapes)]
        c['invars'] = [[n, s] for n, s in zip(['a', 'b', 'c'], ishapes)]
        allvars = c['invars'] + c.get('states', [])
        nenv = sum(size(s) for _, s in allvars)
        c['colored'] = rng.random() < 0.5 and not (comp == 'ifunc' and method == 'cs' and rng.random() < 0.5)
        x = [Fraction(rng.randrange(-16, 17), 8) for _ in range(nenv)]
        xs = [float(v) for v in x]
        c['x'] = [ex.jq(v) for v in x]
        good = True
        c['outs'] = []
        for oname, shape in outs:
            elems = []
            for _ in range(size(shape)):
                # sparse: each element sees a subset of the variables
                sub = rng.sample(range(nenv), min(nenv, rng.choice([1, 2, 2, 3])))
                e = ex.gen_expr(rng, len(sub), rng.choice([1, 2, 2, 3]), allow_abs=(method == 'jax'))
                e = remap(e, sub)
                try:
                    d = ex.eval_dual(e, xs)
                    vals = [d.v] + d.d
                    if not all(math.isfinite(v) and abs(v) < 1e4 for v in vals):
                        good = False
                    if any(abs(v) < 0.2 for v in ex.abs_args(e, xs, [])):
                        good = False
                except (ValueError, ZeroDivisionError, OverflowError):
                    good = False
                elems.append(e)
            c['outs'].append([oname, shape, elems])
        if not good:
            continue
        if comp in ('jaxexp', 'jaximp') and not c['colored'] and rng.random() < 0.6:
            # partials declared sparsely by rows / cols = the structural dependencies (mostly non-symmetric)
            ofnames = [s for s, _ in c['states']] if implicit else [o[0] for o in c['outs']]
            sp = []
            for ofn, (_, oshape, elems) in zip(ofnames, c['outs']):
                off = 0
                for wn, wshape in allvars:
                    rows, cols = [], []
                    for r, e in enumerate(elems):
                        used = vars_of(e, set())
                        for cc in range(size(wshape)):
                            if off + cc in used:
                                rows.append(r)
                                cols.append(cc)
                    off += size(wshape)
                    if rows:
                        sp.append([ofn, wn, None, None] if rng.random() < 0.2 else [ofn, wn, rows, cols])
            c['sparse'] = sp
        return c
    raise RuntimeError('generator failed')


def remap(t, sub):
    if t[0] == 'var':
        return ['var', sub[t[1]]]
    return [t[0]] + [remap(s, sub) if isinstance(s, list) and s and isinstance(s[0], str) else s for s in t[1:]]


def gen(tier, rng):
    n = 90 if tier == 'quick' else 1500
    return [gen_case(rng) for _ in range(n)]


def qr(fr):
    return '(Q2R ((%d) # %d))' % (fr.numerator, fr.denominator)


def goals_for(idx, c, res):
    env = '[%s]' % '; '.join(qr(ex.fr(v)) for v in c['x'])
    elems = [e for o in c['outs'] for e in o[2]]
    gl = []
    n = len(c['x'])
    for i, e in enumerate(elems):
        t = ex.to_coq(e)
        v = ex.fr(res['outs'][i]['q'])
        tol = TOL * max(1, abs(v))
        gl.append(('%d:out%d' % (idx, i),
                   '(Rabs (evalR (env_of_list %s) %s - %s) <= %s)%%R' % (env, t, qr(v), qr(tol)), False))
        gl.append(('%d:smooth%d' % (idx, i), '(smooth (env_of_list %s) %s)' % (env, t), True))
        for j in range(n):
            v = ex.fr(res['jac'][i][j]['q'])
            tol = TOL * max(1, abs(v))
            gl.append(('%d:jac%d_%d' % (idx, i, j),
                       '(Rabs (evalR (env_of_list %s) (D %d%%nat %s) - %s) <= %s)%%R' % (env, j, t, qr(v), qr(tol)),
                       False))
    return gl


HDR = ('From Coq Require Import Reals QArith List.\nFrom Coquelicot Require Import Coquelicot.\n'
       'From Interval Require Import Tactic.\n'
       'From OMV Require Import Expr.Expr Expr.ExprProofs C34.Model.\nImport ListNotations.\n'
       'Local Open Scope R_scope.\n')


def run_goals(wd, goals, chunk=120):
    """every goal is asserted inside `Goal True`; a goal the tactic cannot close prints MISMATCH <tag>"""
    files = []
    for k in range(0, len(goals), chunk):
        body = []
        for tag, stmt, dom in goals[k:k + chunk]:
            tac = 'expr_dom' if dom else 'expr_interval_prec 60%positive'
            body.append('Goal True. first [ assert (H : %s) by (%s) | idtac "MISMATCH %s" ]; exact I. Qed.'
                        % (stmt, tac, tag))
        files.append(('goals_%d.v' % (k // chunk), HDR + '\n'.join(body) + '\n'))
    bad, errors = [], []
    with cf.ThreadPoolExecutor(max_workers=core.NCPU) as exr:
        futs = {exr.submit(core.coq_script, wd, name, txt, 1500): name for name, txt in files}
        for fu in cf.as_completed(futs):
            rc, out = fu.result()
            bad += re.findall(r'MISMATCH (\S+)', out)
            if rc != 0:
                errors.append({'file': futs[fu], 'log': out[-1200:]})
    return bad, errors, len(files)


def main(tier):
    seed = core.seed_from_env()
    rng = random.Random(seed * 1000003 + sum(map(ord, PID)))
    wd = core.workdir(PID, tier)
    v = Verdict(PID, tier, seed)
    v.cov['rule'] = RULE
    v.assumptions = ['jax automatic differentiation and numpy/jax elementary functions are accurate to 1e-9 relative '
                     '(the comparison tolerance); the Interval library bounds evalR with 60-bit interval arithmetic']
    gate = core.proof_gate(PID, wd, extra_dirs=('Base', 'Expr'))
    v.add_proof(gate)
    cases = core.load_corpus(PID) + gen(tier, rng)
    results, log = core.run_impl('props/C34/impl.py', cases, wd, jobs=core.NCPU)
    if results is None:
        v.broke('correspondence:implementation-run-failed')
        v.cov['broken_detail'] = log[-3000:]
        return v.finish()
    goals = []
    for i, (c, r) in enumerate(zip(cases, results)):
        v.count_case(c, True, r.get('kind'))
        if not r.get('ok', True):
            v.failing(r.get('sig') or 'case', c, r.get('msg', ''))
        elif r.get('res', '__none__') != '__none__':
            goals += goals_for(i, c, r['res'])
    if gate['build_ok']:
        bad, errors, nfiles = run_goals(wd, goals)
        v.add_correspondence('interval-checked goals: |evalR e - output| , |evalR (D j e) - partial| <= 1e-9 rel; '
                             'smooth at the point', len(goals), len(bad),
                             'E4 (kernel-checked by interval, 60 bits, tolerance 1e-9*max(1,|v|))',
                             'coqc -Q coq OMV work/.../goals_<k>.v (%d files)' % nfiles)
        if errors:
            v.broke('correspondence:goal-file-failed')
            v.cov['broken_detail'] = str(errors[:2])[-3000:]
        if bad:
            v.broke('correspondence:model-vs-implementation (%d of %d goals not closed)' % (len(bad), len(goals)))
            ids = sorted({int(t.split(':')[0]) for t in bad})
            v.cov['broken_detail'] = str({'goals': bad[:20], 'first_cases': [cases[i] for i in ids[:2]]})[-6000:]
            # the oracle already ran on these cases; a disagreement between the interval model and the float
            # oracle on an accepted case is reported with the case as replay
            for i in ids[:3]:
                v.failing('model-disagrees:' + (results[i].get('sig') or ''), cases[i],
                          'implementation value outside the interval enclosure of the model: %s'
                          % [t for t in bad if t.startswith('%d:' % i)][:5])
    return v.finish()
