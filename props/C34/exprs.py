"""Random smooth functions for C34: JSON expression trees, emitted as Python source (numpy / jax.numpy), as Coq
terms of the shared expression language, and evaluated with float dual numbers (oracle)."""
import math
from fractions import Fraction


def fr(x):
    return Fraction(x[0], x[1])


def jq(v):
    v = Fraction(v)
    return [v.numerator, v.denominator]


UN = ('neg', 'exp', 'ln', 'sqrt', 'sin', 'cos', 'tan', 'tanh', 'atan', 'abs')
BIN = ('add', 'sub', 'mul', 'div')


def gen_expr(rng, nvars, depth, allow_abs=False):
    def atom():
        if rng.random() < 0.75:
            return ['var', rng.randrange(nvars)]
        return ['cst', jq(Fraction(rng.choice([-6, -3, -2, -1, 1, 2, 3, 5]), rng.choice([1, 2, 4])))]

    def pos(e):     # e^2 + c  > 0
        return ['add', ['pow', e, 2], ['cst', jq(Fraction(rng.choice([1, 2, 3, 4]), 2))]]

    def go(d):
        if d == 0 or rng.random() < 0.15:
            return atom()
        k = rng.choice(['add', 'sub', 'mul', 'mul', 'neg', 'sin', 'cos', 'tanh', 'atan', 'exp', 'ln', 'sqrt',
                        'div', 'pow', 'powneg', 'tan'] + (['abs'] if allow_abs else []))
        if k in ('add', 'sub', 'mul'):
            return [k, go(d - 1), go(d - 1)]
        if k in ('neg', 'sin', 'cos', 'tanh', 'atan', 'abs'):
            return [k, go(d - 1)]
        if k == 'exp':
            return ['exp', ['tanh', go(d - 1)]]
        if k in ('ln', 'sqrt'):
            return [k, pos(go(d - 1))]
        if k == 'div':
            return ['div', go(d - 1), pos(go(d - 1))]
        if k == 'pow':
            return ['pow', go(d - 1), rng.choice([2, 3])]
        if k == 'powneg':
            return ['pow', pos(go(d - 1)), rng.choice([-1, -2])]
        if k == 'tan':
            return ['tan', ['mul', ['cst', [1, 2]], ['tanh', go(d - 1)]]]
        raise ValueError(k)
    return go(depth)


def to_py(t, names, mod):
    k = t[0]
    if k == 'var':
        return names[t[1]]
    if k == 'cst':
        return '(%r)' % float(fr(t[1]))
    if k == 'neg':
        return '(-%s)' % to_py(t[1], names, mod)
    if k in BIN:
        op = {'add': '+', 'sub': '-', 'mul': '*', 'div': '/'}[k]
        return '(%s %s %s)' % (to_py(t[1], names, mod), op, to_py(t[2], names, mod))
    if k == 'pow':
        return '(%s ** (%d))' % (to_py(t[1], names, mod), t[2])
    fn = {'exp': 'exp', 'ln': 'log', 'sqrt': 'sqrt', 'sin': 'sin', 'cos': 'cos', 'tan': 'tan', 'tanh': 'tanh',
          'atan': 'arctan', 'abs': 'abs'}[k]
    return '%s.%s(%s)' % (mod, fn, to_py(t[1], names, mod))


def to_coq(t):
    k = t[0]
    if k == 'var':
        return '(EVar %d%%nat)' % t[1]
    if k == 'cst':
        return '(ECst ((%d) # %d))' % (t[1][0], t[1][1])
    if k in BIN:
        c = {'add': 'EAdd', 'sub': 'ESub', 'mul': 'EMul', 'div': 'EDiv'}[k]
        return '(%s %s %s)' % (c, to_coq(t[1]), to_coq(t[2]))
    if k == 'pow':
        return '(EPow %s (%d)%%Z)' % (to_coq(t[1]), t[2])
    c = {'neg': 'ENeg', 'exp': 'EExp', 'ln': 'ELn', 'sqrt': 'ESqrt', 'sin': 'ESin', 'cos': 'ECos', 'tan': 'ETan',
         'tanh': 'ETanh', 'atan': 'EAtan', 'abs': 'EAbs'}[k]
    return '(%s %s)' % (c, to_coq(t[1]))


class D(object):
    """float dual number (value, gradient)"""
    __slots__ = ('v', 'd')

    def __init__(self, v, d):
        self.v, self.d = v, d


def _un(x, f, df):
    return D(f(x.v), [df(x.v) * a for a in x.d])


def eval_dual(t, xs):
    k = t[0]
    n = len(xs)
    if k == 'var':
        return D(xs[t[1]], [1.0 if i == t[1] else 0.0 for i in range(n)])
    if k == 'cst':
        return D(float(fr(t[1])), [0.0] * n)
    if k == 'neg':
        a = eval_dual(t[1], xs)
        return D(-a.v, [-x for x in a.d])
    if k in BIN:
        a, b = eval_dual(t[1], xs), eval_dual(t[2], xs)
        if k == 'add':
            return D(a.v + b.v, [x + y for x, y in zip(a.d, b.d)])
        if k == 'sub':
            return D(a.v - b.v, [x - y for x, y in zip(a.d, b.d)])
        if k == 'mul':
            return D(a.v * b.v, [x * b.v + a.v * y for x, y in zip(a.d, b.d)])
        return D(a.v / b.v, [(x * b.v - a.v * y) / (b.v * b.v) for x, y in zip(a.d, b.d)])
    a = eval_dual(t[1], xs)
    if k == 'pow':
        m = t[2]
        return D(a.v ** m, [m * a.v ** (m - 1) * x for x in a.d])
    if k == 'exp':
        return _un(a, math.exp, math.exp)
    if k == 'ln':
        return _un(a, math.log, lambda v: 1.0 / v)
    if k == 'sqrt':
        return _un(a, math.sqrt, lambda v: 0.5 / math.sqrt(v))
    if k == 'sin':
        return _un(a, math.sin, math.cos)
    if k == 'cos':
        return _un(a, math.cos, lambda v: -math.sin(v))
    if k == 'tan':
        return _un(a, math.tan, lambda v: 1.0 + math.tan(v) ** 2)
    if k == 'tanh':
        return _un(a, math.tanh, lambda v: 1.0 - math.tanh(v) ** 2)
    if k == 'atan':
        return _un(a, math.atan, lambda v: 1.0 / (1.0 + v * v))
    if k == 'abs':
        return _un(a, abs, lambda v: 1.0 if v > 0 else -1.0)
    raise ValueError(k)


def abs_args(t, xs, out):
    """values of all arguments of abs nodes (must stay away from the kink)"""
    if t[0] == 'abs':
        out.append(eval_dual(t[1], xs).v)
    for s in t[1:]:
        if isinstance(s, list) and s and isinstance(s[0], str):
            abs_args(s, xs, out)
    return out
