"""C34 implementation side: generated functions wrapped by om.func_api into ExplicitFuncComp / ImplicitFuncComp
and as compute_primal of JaxExplicitComponent / JaxImplicitComponent; outputs (residuals) and the linearized
jacobian with and without sparsity colouring.  Oracle: the function itself and its exact derivative evaluated
with float dual numbers on the expression tree."""
import os
import sys
import warnings
from fractions import Fraction

import numpy as np

sys.path.insert(0, os.path.dirname(os.path.abspath(__file__)))
from implutil import main, q  # noqa: E402
import exprs as ex  # noqa: E402

warnings.simplefilter('ignore')
import openmdao.api as om  # noqa: E402
import openmdao.func_api as omf  # noqa: E402

try:
    import jax
    import jax.numpy as jnp
    jax.config.update('jax_enable_x64', True)
    HAVE_JAX = True
except Exception:   # noqa
    jnp = None
    HAVE_JAX = False

TOL = 1e-9
_NMOD = 0


def layout(c):
    """names of the flat environment entries as Python expressions, and (name, size, offset) of the variables"""
    names, vars_, o = [], [], 0
    for name, size in c['invars'] + c.get('states', []):
        vars_.append((name, size, o))
        names += ['%s[%d]' % (name, k) for k in range(size)]
        o += size
    return names, vars_


def source(c, mod, fname='f', self_arg=False):
    names, vars_ = layout(c)
    args = [n for n, _, _ in vars_]
    if self_arg:
        args = ['self'] + args
    lines = ['def %s(%s):' % (fname, ', '.join(args))]
    rets = []
    for k, (oname, elems) in enumerate(c['outs']):
        lines.append('    %s = %s.array([%s])' % (oname, mod, ', '.join(ex.to_py(e, names, mod) for e in elems)))
        rets.append(oname)
    lines.append('    return %s' % (', '.join(rets) if len(rets) > 1 else rets[0]))
    return '\n'.join(lines) + '\n'


def build(c, colored):
    kind, method = c['comp'], c['method']
    mod = 'jnp' if method == 'jax' else 'np'
    ns = {'np': np, 'jnp': jnp, 'om': om}
    if kind in ('efunc', 'ifunc'):
        exec(source(c, mod), ns)
        f = omf.wrap(ns['f'])
        for name, size in c['invars']:
            f = f.add_input(name, shape=size, val=np.ones(size))
        if kind == 'efunc':
            for oname, elems in c['outs']:
                f = f.add_output(oname, shape=len(elems))
        else:
            for (sname, size), (oname, elems) in zip(c['states'], c['outs']):
                f = f.add_output(sname, shape=size, resid=oname, val=np.ones(size))
        f = f.declare_partials(of='*', wrt='*', method=method)
        if colored:
            f = f.declare_coloring(wrt='*', method=method, show_summary=False, show_sparsity=False, min_improve_pct=0.)
        comp = om.ExplicitFuncComp(f) if kind == 'efunc' else om.ImplicitFuncComp(f)
        return comp
    base = 'om.JaxExplicitComponent' if kind == 'jaxexp' else 'om.JaxImplicitComponent'
    src = ['class JC(%s):' % base, '    def setup(self):']
    for name, size in c['invars']:
        src.append('        self.add_input(%r, val=np.ones(%d))' % (name, size))
    if kind == 'jaxexp':
        for oname, elems in c['outs']:
            src.append('        self.add_output(%r, val=np.ones(%d))' % (oname, len(elems)))
    else:
        for sname, size in c['states']:
            src.append('        self.add_output(%r, val=np.ones(%d))' % (sname, size))
    body = source(c, 'jnp', fname='compute_primal', self_arg=True)
    src += ['    ' + ln for ln in body.splitlines()]
    # the jax components read the source of compute_primal (inspect.getsource): the class must live in a file
    global _NMOD
    _NMOD += 1
    modname = 'c34gen_%d_%d' % (os.getpid(), _NMOD)
    with open(modname + '.py', 'w') as fh:
        fh.write('import numpy as np\nimport jax.numpy as jnp\nimport openmdao.api as om\n\n' + '\n'.join(src) + '\n')
    if os.getcwd() not in sys.path:
        sys.path.insert(0, os.getcwd())
    import importlib
    comp = importlib.import_module(modname).JC()
    if colored:
        comp.declare_coloring(wrt='*', method='jax', show_summary=False, show_sparsity=False, min_improve_pct=0.)
    return comp


def run(c, colored):
    comp = build(c, colored)
    p = om.Problem()
    p.model.add_subsystem('c', comp, promotes=['*'])
    p.setup(force_alloc_complex=True)
    p.final_setup()
    x = [float(ex.fr(v)) for v in c['x']]
    names, vars_ = layout(c)
    nin = len(c['invars'])
    for k, (name, size, o) in enumerate(vars_):
        arr = np.array(x[o:o + size])
        if k < nin:
            comp._inputs[name] = arr
        else:
            comp._outputs[name] = arr
    implicit = c['comp'] in ('ifunc', 'jaximp')
    if implicit:
        comp.run_apply_nonlinear()
        vec = comp._residuals
        rownames = [s for s, _ in c['states']]
    else:
        comp.run_solve_nonlinear()
        vec = comp._outputs
        rownames = [o for o, _ in c['outs']]
    comp.run_linearize()
    outs = []
    for n in rownames:
        outs += [float(v) for v in np.asarray(vec[n]).ravel()]
    ncols = len(x)
    J = np.zeros((len(outs), ncols))
    subjacs = comp._get_jacobian()._get_subjacs(comp)
    ro = 0
    for n in rownames:
        rsz = int(np.asarray(vec[n]).size)
        for name, size, o in vars_:
            sj = subjacs.get(('c.' + n, 'c.' + name))
            if sj is not None:
                J[ro:ro + rsz, o:o + size] = np.asarray(sj.todense()).real
        ro += rsz
    used = comp._coloring_info.coloring is not None if colored else False
    return outs, J, used


def close(a, b):
    return abs(a - b) <= TOL * max(1.0, abs(b))


def handle(c):
    kind = '%s:%s%s' % (c['comp'], c['method'], ':colored' if c['colored'] else '')
    if c['method'] == 'jax' and not HAVE_JAX:
        return {'res': '__none__', 'ok': True, 'msg': '', 'sig': kind + ':nojax', 'kind': kind + ':nojax'}
    x = [float(ex.fr(v)) for v in c['x']]
    outs, J, _ = run(c, False)
    elems = [e for _, es in c['outs'] for e in es]
    ok, msg = True, ''
    if len(outs) != len(elems):
        ok, msg = False, '%d output entries for %d element formulas' % (len(outs), len(elems))
    for i, e in enumerate(elems):
        if not ok:
            break
        d = ex.eval_dual(e, x)
        if not close(outs[i], d.v):
            ok, msg = False, 'output[%d] = %r, the wrapped function gives %r' % (i, outs[i], d.v)
            break
        for j in range(len(x)):
            if not close(J[i, j], d.d[j]):
                ok, msg = False, 'partial[%d,%d] = %r, exact derivative %r' % (i, j, J[i, j], d.d[j])
                break
    used = False
    if ok and c['colored']:
        outs_c, Jc, used = run(c, True)
        for i in range(len(elems)):
            if not close(outs_c[i], outs[i]):
                ok, msg = False, 'coloured run: output[%d] = %r vs %r' % (i, outs_c[i], outs[i])
            for j in range(len(x)):
                if ok and not close(Jc[i, j], J[i, j]):
                    ok, msg = False, 'coloured partial[%d,%d] = %r, uncoloured %r' % (i, j, Jc[i, j], J[i, j])
        if ok:
            J = Jc      # the model is compared with the coloured jacobian
    res = {'outs': [q(v) for v in outs], 'jac': [[q(J[i, j]) for j in range(len(x))] for i in range(len(outs))]}
    if c['colored']:
        kind += ':used' if used else ':nocoloring'
    return {'res': res if ok else '__none__', 'ok': ok, 'msg': msg, 'sig': kind, 'kind': kind}


if __name__ == '__main__':
    main(handle)
