"""C34 implementation side: generated functions wrapped by om.func_api into ExplicitFuncComp / ImplicitFuncComp
and as compute_primal of JaxExplicitComponent / JaxImplicitComponent; outputs (residuals) and the linearized
jacobian with and without sparsity colouring, for scalar / 1-D / multi-dimensional declared shapes, sparse
(rows/cols) declared partials of the jax components, both derivative directions.  Oracle: the function itself and
its exact derivative evaluated with float dual numbers on the expression tree."""
import importlib
import os
import sys
import warnings

import numpy as np

sys.path.insert(0, os.path.dirname(os.path.abspath(__file__)))
from implutil import main, q  # noqa: E402
import exprs as ex  # noqa: E402

warnings.simplefilter('ignore')
import openmdao.api as om  # noqa: E402
import openmdao.func_api as omf  # noqa: E402

try:
    import jax
    import jax.numpy as jnp
    jax.config.update('jax_enable_x64', True)
    HAVE_JAX = True
except Exception:   # noqa
    jnp = None
    HAVE_JAX = False

TOL = 1e-9
_NMOD = 0


def size(shape):
    return int(np.prod(shape)) if len(shape) else 1


def elem_refs(name, shape):
    if len(shape) == 0:
        return [name]
    return ['%s[%s]' % (name, ', '.join(str(i) for i in idx)) for idx in np.ndindex(*shape)]


def layout(c):
    """Python references of the flat environment entries, and (name, shape, offset) of inputs then states"""
    names, vars_, o = [], [], 0
    for name, shape in c['invars'] + c.get('states', []):
        vars_.append((name, tuple(shape), o))
        names += elem_refs(name, tuple(shape))
        o += size(shape)
    return names, vars_


def source(c, mod, fname='f', self_arg=False):
    names, vars_ = layout(c)
    nin = len(c['invars'])
    args = [n for n, _, _ in vars_[:nin]]
    states = [n for n, _, _ in vars_[nin:]]
    if c.get('sig_order'):
        states = [states[k] for k in c['sig_order']]      # states in the signature in another order
    args += states
    if self_arg:
        args = ['self'] + args
    lines = ['def %s(%s):' % (fname, ', '.join(args))]
    rets = []
    for oname, shape, elems in c['outs']:
        shape = tuple(shape)
        if len(shape) == 0:
            lines.append('    %s = %s' % (oname, ex.to_py(elems[0], names, mod)))
        else:
            lines.append('    %s = %s.array([%s]).reshape(%r)' % (
                oname, mod, ', '.join(ex.to_py(e, names, mod) for e in elems), shape))
        rets.append(oname)
    if c['comp'] == 'jaximp' and len(rets) > 1:
        # residuals are not outputs: return them as expressions so that no output-name mapping is implied
        rets = ['jnp.asarray(%s)' % r for r in rets]
    lines.append('    return %s' % (', '.join(rets) if len(rets) > 1 else rets[0]))
    return '\n'.join(lines) + '\n'


def ones(shape):
    return np.ones(tuple(shape)) if len(shape) else 1.0


def build(c, colored):
    kind, method = c['comp'], c['method']
    mod = 'jnp' if method == 'jax' else 'np'
    ns = {'np': np, 'jnp': jnp, 'om': om}
    if kind in ('efunc', 'ifunc'):
        exec(source(c, mod), ns)
        f = omf.wrap(ns['f'])
        for name, shape in c['invars']:
            f = f.add_input(name, shape=tuple(shape), val=ones(shape))
        if kind == 'efunc':
            for oname, shape, elems in c['outs']:
                f = f.add_output(oname, shape=tuple(shape))
        else:
            for (sname, shape), (oname, _, elems) in zip(c['states'], c['outs']):
                f = f.add_output(sname, shape=tuple(shape), resid=oname, val=ones(shape))
        f = f.declare_partials(of='*', wrt='*', method=method)
        if colored:
            f = f.declare_coloring(wrt='*', method=method, show_summary=False, show_sparsity=False, min_improve_pct=0.)
        comp = om.ExplicitFuncComp(f) if kind == 'efunc' else om.ImplicitFuncComp(f)
        return comp
    base = 'om.JaxExplicitComponent' if kind == 'jaxexp' else 'om.JaxImplicitComponent'
    src = ['class JC(%s):' % base, '    def setup(self):']
    for name, shape in c['invars']:
        src.append('        self.add_input(%r, shape=%r)' % (name, tuple(shape)))
    if kind == 'jaxexp':
        for oname, shape, elems in c['outs']:
            src.append('        self.add_output(%r, shape=%r)' % (oname, tuple(shape)))
    else:
        for sname, shape in c['states']:
            src.append('        self.add_output(%r, shape=%r)' % (sname, tuple(shape)))
    if c.get('sparse') is not None:
        src.append('    def setup_partials(self):')
        if not c['sparse']:
            src.append('        pass')
        for of, wrt, rows, cols in c['sparse']:
            if rows is None:
                src.append('        self.declare_partials(%r, %r)' % (of, wrt))
            else:
                src.append('        self.declare_partials(%r, %r, rows=%r, cols=%r)' % (of, wrt, rows, cols))
    body = source(c, 'jnp', fname='compute_primal', self_arg=True)
    src += ['    ' + ln for ln in body.splitlines()]
    # the jax components read the source of compute_primal (inspect.getsource): the class must live in a file
    global _NMOD
    _NMOD += 1
    modname = 'c34gen_%d_%d' % (os.getpid(), _NMOD)
    with open(modname + '.py', 'w') as fh:
        fh.write('import numpy as np\nimport jax.numpy as jnp\nimport openmdao.api as om\n\n' + '\n'.join(src) + '\n')
    if os.getcwd() not in sys.path:
        sys.path.insert(0, os.getcwd())
    comp = importlib.import_module(modname).JC()
    if colored:
        comp.declare_coloring(wrt='*', method='jax', show_summary=False, show_sparsity=False, min_improve_pct=0.)
    return comp


def run(c, colored):
    comp = build(c, colored)
    p = om.Problem()
    p.model.add_subsystem('c', comp, promotes=['*'])
    p.setup(force_alloc_complex=True, mode=c.get('mode', 'auto'))
    p.final_setup()
    x = [float(ex.fr(v)) for v in c['x']]
    names, vars_ = layout(c)
    nin = len(c['invars'])
    for k, (name, shape, o) in enumerate(vars_):
        arr = np.array(x[o:o + size(shape)]).reshape(shape)
        if k < nin:
            comp._inputs[name] = arr
        else:
            comp._outputs[name] = arr
    implicit = c['comp'] in ('ifunc', 'jaximp')
    if implicit:
        comp.run_apply_nonlinear()
        vec = comp._residuals
        rownames = [s for s, _ in c['states']]
    else:
        comp.run_solve_nonlinear()
        vec = comp._outputs
        rownames = [o[0] for o in c['outs']]
    comp.run_linearize()
    outs = []
    for n in rownames:
        outs += [float(v) for v in np.asarray(vec[n]).ravel()]
    ncols = len(x)
    J = np.zeros((len(outs), ncols))
    subjacs = comp._get_jacobian()._get_subjacs(comp)
    ro = 0
    for n in rownames:
        rsz = int(np.asarray(vec[n]).size)
        for name, shape, o in vars_:
            sj = subjacs.get(('c.' + n, 'c.' + name))
            if sj is not None:
                J[ro:ro + rsz, o:o + size(shape)] = np.asarray(sj.todense()).real
        ro += rsz
    used = comp._coloring_info.coloring is not None if colored else False
    direction = comp.best_partial_deriv_direction()
    return outs, J, used, direction


def close(a, b):
    return abs(a - b) <= TOL * max(1.0, abs(b))


def handle(c):
    kind = '%s:%s%s' % (c['comp'], c['method'], ':colored' if c['colored'] else '')
    if c.get('sparse') is not None:
        kind += ':rowscols'
    if c.get('sig_order'):
        kind += ':sigorder'
    if c.get('mode', 'auto') != 'auto':
        kind += ':mode=' + c['mode']
    if any(len(s) != 1 for _, s in c['invars'] + c.get('states', [])) or any(len(o[1]) != 1 for o in c['outs']):
        kind += ':nd'
    if c['method'] == 'jax' and not HAVE_JAX:
        return {'res': '__none__', 'ok': True, 'msg': '', 'sig': kind + ':nojax', 'kind': kind + ':nojax'}
    x = [float(ex.fr(v)) for v in c['x']]
    try:
        outs, J, _, direction = run(c, False)
    except Exception as e:   # noqa
        import traceback
        return {'res': '__none__', 'ok': False, 'sig': kind + ':raised', 'kind': kind + ':raised',
                'msg': 'the component raised %s: %s\n%s' % (type(e).__name__, str(e)[:300], traceback.format_exc()[-700:])}
    kind += ':' + direction
    elems = [e for o in c['outs'] for e in o[2]]
    ok, msg = True, ''
    if len(outs) != len(elems):
        ok, msg = False, '%d output entries for %d element formulas' % (len(outs), len(elems))
    for i, e in enumerate(elems):
        if not ok:
            break
        d = ex.eval_dual(e, x)
        if not close(outs[i], d.v):
            ok, msg = False, 'output[%d] = %r, the wrapped function gives %r' % (i, outs[i], d.v)
            break
        for j in range(len(x)):
            if not close(J[i, j], d.d[j]):
                ok, msg = False, 'partial[%d,%d] = %r, exact derivative %r' % (i, j, J[i, j], d.d[j])
                break
    used = False
    if ok and c['colored']:
        try:
            outs_c, Jc, used, _ = run(c, True)
        except Exception as e:   # noqa
            import traceback
            return {'res': '__none__', 'ok': False, 'sig': kind + ':colored-raised', 'kind': kind + ':colored-raised',
                    'msg': 'with declare_coloring the component raised %s: %s\n%s' % (
                        type(e).__name__, str(e)[:300], traceback.format_exc()[-700:])}
        for i in range(len(elems)):
            if not close(outs_c[i], outs[i]):
                ok, msg = False, 'coloured run: output[%d] = %r vs %r' % (i, outs_c[i], outs[i])
            for j in range(len(x)):
                if ok and not close(Jc[i, j], J[i, j]):
                    ok, msg = False, 'coloured partial[%d,%d] = %r, uncoloured %r' % (i, j, Jc[i, j], J[i, j])
        if ok:
            J = Jc      # the model is compared with the coloured jacobian
    res = {'outs': [q(v) for v in outs], 'jac': [[q(J[i, j]) for j in range(len(x))] for i in range(len(outs))]}
    if c['colored']:
        kind += ':used' if used else ':nocoloring'
    return {'res': res if ok else '__none__', 'ok': ok, 'msg': msg, 'sig': kind, 'kind': kind}


if __name__ == '__main__':
    main(handle)
