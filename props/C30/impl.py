"""C30 implementation side: the real openmdao.utils.cs_safe functions and the real jax smooth helpers.

Oracle (the property's text, evaluated on the real code):
  * real inputs: cs_safe.abs / arctan2 return NumPy's values exactly (==; arctan2 bit-for-bit), cs_safe.norm
    within 2 ulp of np.linalg.norm (different summation order makes bit equality impossible);
  * complex perturbation a + i*h*v with the power-of-two step h = 2**-133 (so that h*v and imag/h are exact):
    imaginary part / h = analytic (directional) derivative; one-sided value at the kinks;
  * jax helpers: value = the documented formula evaluated with NumPy (1e-12 relative: different libm),
    jax.grad = analytic derivative (1e-9)."""
import warnings
from decimal import Decimal, getcontext
from fractions import Fraction

import numpy as np
from implutil import main, q

warnings.simplefilter('ignore')
from openmdao.utils import cs_safe  # noqa: E402

getcontext().prec = 60
H = 2.0 ** -133
FH = Fraction(H)

try:
    import jax
    import jax.numpy as jnp
    from openmdao.jax_funcs import smooth as sm
    jax.config.update("jax_enable_x64", True)
    HAVE_JAX = True
except Exception:      # pragma: no cover
    HAVE_JAX = False


def dec(fr):
    fr = Fraction(fr)
    return Decimal(fr.numerator) / Decimal(fr.denominator)


def F(x):
    return Fraction(float(x))


def ulp_close(a, b, n):
    a, b = float(a), float(b)
    if a == b:
        return True
    return abs(a - b) <= n * np.spacing(max(abs(a), abs(b)))


def same_values(u, v):
    u, v = np.asarray(u, dtype=float), np.asarray(v, dtype=float)
    return u.shape == v.shape and bool(np.all((u == v) | (np.isnan(u) & np.isnan(v))))


def h_abs(c):
    msgs, sig = [], ''
    a = np.array(c['a'], dtype=float)
    if c['kind'] == 'abs_real':
        got = cs_safe.abs(a)
        ok = same_values(got, np.abs(a))
        if not ok:
            msgs.append('cs_safe.abs(%r) = %r, numpy %r' % (a.tolist(), got.tolist(), np.abs(a).tolist()))
            sig = 'abs-real'
        sc = [cs_safe.abs(np.float64(v)) for v in a]
        if not same_values(sc, np.abs(a)):
            msgs.append('scalar cs_safe.abs differs from numpy on %r' % a.tolist())
            sig = sig or 'abs-real-scalar'
        nsz = int(np.sum(np.signbit(got) != np.signbit(np.abs(a))))
        fin = np.isfinite(a)
        res = {'arr': [q(v) for v in np.asarray(got)[fin]], 'sc': [q(float(v)) for v, f in zip(sc, fin) if f]}
        return {'res': res, 'ok': not msgs, 'msg': '; '.join(msgs), 'sig': sig, 'kind': 'abs_real',
                'signed_zero_dev': nsz}
    v = np.array(c['v'], dtype=float)
    x = a + 1j * (H * v)
    got = cs_safe.abs(x)
    sc = [cs_safe.abs(complex(z)) for z in x]
    re, im = np.real(got), np.imag(got)
    for k in range(len(a)):
        want_re = abs(a[k])
        if a[k] != 0:
            want_im, want_sc = H * v[k] * np.sign(a[k]), H * v[k] * np.sign(a[k])
        else:       # one-sided at the kink
            want_im, want_sc = abs(H * v[k]), H * v[k]
        if re[k] != want_re or im[k] != want_im:
            msgs.append('abs(%r + i h %r) = %r + i h*%r; expected %r + i h*%r' % (
                a[k], v[k], re[k], im[k] / H, want_re, want_im / H))
            sig = sig or 'abs-cs'
        if sc[k].real != want_re or sc[k].imag != want_sc:
            msgs.append('scalar abs(%r + i h %r) = %r; expected %r + i h*%r' % (a[k], v[k], sc[k], want_re,
                                                                                want_sc / H))
            sig = sig or 'abs-cs-scalar'
    res = {'re': [q(t) for t in re], 'im': [{'q': [(F(t) / FH).numerator, (F(t) / FH).denominator]} for t in im],
           'sre': [q(z.real) for z in sc],
           'sim': [{'q': [(F(z.imag) / FH).numerator, (F(z.imag) / FH).denominator]} for z in sc]}
    return {'res': res, 'ok': not msgs, 'msg': '; '.join(msgs[:3]), 'sig': sig, 'kind': 'abs_cs'}


def qdiv(t):
    fr = F(t) / FH
    return {'q': [fr.numerator, fr.denominator]}


def h_norm(c):
    msgs, sig = [], ''
    A = np.array(c['a'], dtype=float)
    axis = c.get('axis')
    if c['kind'] == 'norm_real':
        got = np.atleast_1d(cs_safe.norm(A, axis=axis))
        ref = np.atleast_1d(np.linalg.norm(A, axis=axis))
        for g, r in zip(got.ravel(), ref.ravel()):
            if not ulp_close(g, r, 2):
                msgs.append('cs_safe.norm = %r, np.linalg.norm = %r' % (g, r))
                sig = 'norm-real'
        return {'res': {'val': [q(float(g)) for g in got.ravel()]}, 'ok': not msgs, 'msg': '; '.join(msgs[:3]),
                'sig': sig, 'kind': 'norm_real:axis=%s' % axis}
    V = np.array(c['v'], dtype=float)
    X = A + 1j * (H * V)
    got = cs_safe.norm(X)
    a, v = [F(t) for t in A.ravel()], [F(t) for t in V.ravel()]
    AA = sum(t * t for t in a)
    AV = sum(s * t for s, t in zip(a, v))
    VV = sum(t * t for t in v)
    if AA > 0:
        want_re = dec(AA).sqrt()
        want_d = dec(AV) / want_re
    else:           # kink: one-sided derivative of the norm at 0 along v is |v|
        want_re = Decimal(0)
        want_d = dec(VV).sqrt()
    g_re, g_d = dec(F(got.real)), dec(F(got.imag) / FH)
    if abs(g_re - want_re) > Decimal(10) ** -12 * max(1, want_re):
        msgs.append('Re norm = %s, |a| = %s' % (g_re, want_re))
        sig = 'norm-cs-real'
    if abs(g_d - want_d) > Decimal(10) ** -10 * max(1, abs(want_d), dec(VV).sqrt()):
        msgs.append('Im norm / h = %s, analytic derivative %s' % (g_d, want_d))
        sig = sig or 'norm-cs-imag'
    return {'res': {'re': q(got.real), 'imh': qdiv(got.imag)}, 'ok': not msgs, 'msg': '; '.join(msgs[:3]),
            'sig': sig, 'kind': 'norm_cs' + (':kink' if AA == 0 else '')}


def h_atan2(c):
    msgs, sig = [], ''
    a, cc = np.array(c['a'], dtype=float), np.array(c['c'], dtype=float)
    if c['kind'] == 'atan2_real':
        got = cs_safe.arctan2(a, cc)
        ref = np.arctan2(a, cc)
        if not (np.array_equal(got, ref, equal_nan=True) and np.array_equal(np.signbit(got), np.signbit(ref))):
            msgs.append('cs_safe.arctan2 differs from np.arctan2 on %r, %r' % (a.tolist(), cc.tolist()))
            sig = 'atan2-real'
        return {'res': {'val': [q(float(t)) for t in got]}, 'ok': not msgs, 'msg': '; '.join(msgs), 'sig': sig,
                'kind': 'atan2_real'}
    b, d = np.array(c['b'], dtype=float), np.array(c['d'], dtype=float)
    mode = c.get('cmode', 'both')
    y = a + 1j * (H * b) if mode in ('both', 'y') else a
    x = cc + 1j * (H * d) if mode in ('both', 'x') else cc
    if mode == 'y':
        d = np.zeros_like(d)
    if mode == 'x':
        b = np.zeros_like(b)
    got = cs_safe.arctan2(y, x)
    # (building a + i*h*b turns a = -0.0 into +0.0: the reference takes the real parts actually passed)
    ref = np.arctan2(np.real(y), np.real(x))
    imh, bounds = [], []
    for k in range(len(a)):
        if got[k].real != ref[k]:
            msgs.append('Re arctan2 = %r, np.arctan2 = %r' % (got[k].real, ref[k]))
            sig = sig or 'atan2-cs-real'
        fa, fb, fc, fd = F(a[k]), F(b[k]), F(cc[k]), F(d[k])
        den = fa * fa + fc * fc
        want = (fc * fb - fa * fd) / den
        g = F(got[k].imag) / FH
        bound = Fraction(1, 10**12) * (abs(fc * fb) + abs(fa * fd)) / den
        if abs(g - want) > bound:
            msgs.append('Im arctan2 / h = %s, analytic derivative %s (a=%r b=%r c=%r d=%r)' % (
                float(g), float(want), a[k], b[k], cc[k], d[k]))
            sig = sig or 'atan2-cs-imag'
        imh.append({'q': [g.numerator, g.denominator]})
        bounds.append({'q': [bound.numerator, bound.denominator]})
    return {'res': {'re': [q(z.real) for z in got], 'imh': imh, 'bound': bounds, 'b': [q(t) for t in b],
                    'd': [q(t) for t in d]},
            'ok': not msgs, 'msg': '; '.join(msgs[:3]), 'sig': sig, 'kind': 'atan2_cs:' + mode}


_G = {}


def np_formula(fn, p):
    def act(x, mu, z, a, b):
        return 0.5 * (b - a) * (1. + np.tanh((x - z) / mu)) + a
    if fn == 'act_tanh':
        return act(p['x'], p['mu'], p['z'], p['a'], p['b'])
    if fn == 'smooth_max':
        xg = act(p['x'], p['mu'], p['y'], 0.0, 1.0)
        return xg * p['x'] + (1. - xg) * p['y']
    if fn == 'smooth_min':
        xg = act(p['x'], p['mu'], p['y'], 0.0, 1.0)
        return xg * p['y'] + (1. - xg) * p['x']
    if fn == 'smooth_abs':
        return p['x'] * act(p['x'], p['mu'], 0.0, -1.0, 1.0)
    if fn == 'smooth_round':
        fl = np.floor(p['x'])
        return fl + 0.5 * (1 + np.tanh((p['x'] - fl - 0.5) / p['mu']))
    raise ValueError(fn)


def np_deriv(fn, p, wrt):
    """analytic derivative, written out by hand (sech^2 = 1 - tanh^2)"""
    x, mu = p['x'], p['mu']
    if fn == 'act_tanh':
        t = np.tanh((x - p['z']) / mu)
        return 0.5 * (p['b'] - p['a']) * (1 - t * t) / mu
    if fn in ('smooth_max', 'smooth_min'):
        y = p['y']
        t = np.tanh((x - y) / mu)
        xg = 0.5 * (1 + t)
        dxg = 0.5 * (1 - t * t) / mu * (1 if wrt == 'x' else -1)
        if fn == 'smooth_max':
            return dxg * x - dxg * y + (xg if wrt == 'x' else 1 - xg)
        return dxg * y - dxg * x + ((1 - xg) if wrt == 'x' else xg)
    if fn == 'smooth_abs':
        t = np.tanh(x / mu)
        return t + x * (1 - t * t) / mu
    if fn == 'smooth_round':
        fl = np.floor(x)
        t = np.tanh((x - fl - 0.5) / mu)
        return 0.5 * (1 - t * t) / mu
    raise ValueError(fn)


def h_smooth(c):
    if not HAVE_JAX:
        return {'res': '__none__', 'ok': True, 'msg': 'jax not importable', 'kind': 'smooth:skipped'}
    fn, p = c['fn'], {k: float(v) for k, v in c['p'].items()}
    f = getattr(sm, fn)
    order = {'act_tanh': ['x', 'mu', 'z', 'a', 'b'], 'smooth_max': ['x', 'y', 'mu'], 'smooth_min': ['x', 'y', 'mu'],
             'smooth_abs': ['x', 'mu'], 'smooth_round': ['x', 'mu']}[fn]
    args = [p[k] for k in order]
    val = float(f(*args))
    msgs, sig = [], ''
    ref = float(np_formula(fn, p))
    if abs(val - ref) > 1e-12 * max(1.0, abs(ref)):
        msgs.append('%s%r = %r, numpy formula %r' % (fn, tuple(args), val, ref))
        sig = 'smooth-value'
    grads = {}
    for wrt in (['x', 'y'] if 'y' in p else ['x']):
        key = (fn, wrt)
        if key not in _G:
            _G[key] = jax.jit(jax.grad(f, argnums=order.index(wrt)))
        g = float(_G[key](*args))
        gref = float(np_deriv(fn, p, wrt))
        if abs(g - gref) > 1e-9 * max(1.0, abs(gref)):
            msgs.append('d %s / d %s = %r, analytic %r at %r' % (fn, wrt, g, gref, p))
            sig = sig or 'smooth-grad'
        grads[wrt] = q(g)
    return {'res': {'val': q(val), 'grads': grads}, 'ok': not msgs, 'msg': '; '.join(msgs[:3]), 'sig': sig,
            'kind': 'smooth:' + fn}


def handle(c):
    k = c['kind']
    if k.startswith('abs'):
        return h_abs(c)
    if k.startswith('norm'):
        return h_norm(c)
    if k.startswith('atan2'):
        return h_atan2(c)
    return h_smooth(c)


if __name__ == '__main__':
    main(handle)
