"""C30 — complex-step-safe helpers agree with NumPy and differentiate exactly.

Ties:  (1) exact (rational twin, vm_compute): cs_safe.abs on real and on perturbed inputs, the imaginary
part of cs_safe.arctan2;  (2) interval-checked goals (kernel-checked numerics): cs_safe.norm (real part and
imaginary part / h), arctan2 real part, jax smooth helpers values and jax.grad against evalR / evalR o D of
the shared expression language.  Oracle in impl.py (NumPy as reference, analytic derivatives)."""
import concurrent.futures as cf
import json
import random
import re
from fractions import Fraction

import core
from core import Verdict, proof_gate, run_impl, coq_script, coq_mismatches, workdir, seed_from_env, to_val

PID = 'C30'
IMPL = 'props/C30/impl.py'
TOL = Fraction(1, 10**9)
H = Fraction(1, 2**133)
HEADER = '''From Coq Require Import Reals QArith Qreals ZArith List Lra.
From Interval Require Import Tactic.
From OMV Require Import Expr.Expr Expr.ExprProofs C30.Model C30.Proofs C30.ProofsTie.
Import ListNotations.
Open Scope R_scope.
'''
PRELUDE = '''From Coq Require Import Qabs.
Definition abs_case (l : list (Q * Q)) : val :=
  VL [vqs (map (fun p => fst (cs_abs_arrQ (fst p) (snd p))) l);
      vqs (map (fun p => snd (cs_abs_arrQ (fst p) (snd p))) l);
      vqs (map (fun p => fst (cs_abs_scalarQ (fst p) (snd p))) l);
      vqs (map (fun p => snd (cs_abs_scalarQ (fst p) (snd p))) l)].
Definition abs_real_case (l : list Q) : val :=
  VL [vqs (map (fun a => fst (cs_abs_arrQ a 0)) l); vqs (map (fun a => fst (cs_abs_scalarQ a 0)) l)].
Definition atan_case (l : list ((Q * Q) * (Q * Q) * (Q * Q))) : val :=
  VL (map (fun t => match t with (a, b, (c, d), (w, bound)) =>
                      VB (Qle_bool (Qabs (cs_arctan2_imQ a b c d - w)) bound) end) l).
'''


# ------------------------------------------------------------------ generator

def dy(rng, scale=16, hi=64):
    return rng.randint(-hi, hi) / float(scale)


def gen_vals(rng, n, mode):
    if mode == 'dyadic':
        return [dy(rng) for _ in range(n)]
    if mode == 'zeros':
        return [rng.choice([0.0, -0.0, dy(rng), 1.0, -1.0]) for _ in range(n)]
    if mode == 'float':
        return [rng.uniform(-10, 10) for _ in range(n)]
    if mode == 'wide':
        return [rng.uniform(-1, 1) * 10.0 ** rng.randint(-6, 6) for _ in range(n)]
    if mode == 'ties':
        p = [dy(rng), dy(rng)]
        return [rng.choice(p) * rng.choice([1, -1]) for _ in range(n)]
    raise ValueError(mode)


MODES = ['dyadic', 'zeros', 'float', 'wide', 'ties']


def gen(tier, rng):
    big = tier != 'quick'
    N = {'abs_real': 300, 'abs_cs': 500, 'norm_real': 300, 'norm_cs': 300, 'atan2_real': 300, 'atan2_cs': 500,
         'smooth': 150}
    TIE = {'norm_real': 50, 'norm_cs': 70, 'atan2_real': 50, 'smooth': 110}
    if big:
        N = {k: v * 10 for k, v in N.items()}
        TIE = {k: v * 6 for k, v in TIE.items()}
    cases = []
    for i in range(N['abs_real']):
        n = rng.randint(1, 6)
        a = gen_vals(rng, n, rng.choice(MODES))
        if rng.random() < 0.1:
            a[rng.randrange(n)] = rng.choice([float('inf'), float('-inf'), float('nan')])
        cases.append({'kind': 'abs_real', 'a': a})
    for i in range(N['abs_cs']):
        n = rng.randint(1, 6)
        cases.append({'kind': 'abs_cs', 'a': gen_vals(rng, n, rng.choice(MODES)),
                      'v': [rng.choice([1.0, -1.0, 0.0, dy(rng)]) for _ in range(n)]})
    for i in range(N['norm_real']):
        if rng.random() < 0.7:
            n = rng.randint(1, 8)
            cases.append({'kind': 'norm_real', 'a': gen_vals(rng, n, rng.choice(MODES)), 'axis': None,
                          'tie': i < TIE['norm_real']})
        else:
            r, cc = rng.randint(1, 3), rng.randint(1, 4)
            cases.append({'kind': 'norm_real', 'a': [gen_vals(rng, cc, rng.choice(MODES)) for _ in range(r)],
                          'axis': rng.choice([0, 1, None]), 'tie': False})
    for i in range(N['norm_cs']):
        n = rng.randint(1, 6)
        mode = rng.choice(MODES)
        a = gen_vals(rng, n, mode)
        if rng.random() < 0.06:
            a = [0.0] * n           # the kink of the norm
        cases.append({'kind': 'norm_cs', 'a': a, 'v': [rng.choice([1.0, 0.0, -1.0, dy(rng)]) for _ in range(n)],
                      'tie': i < TIE['norm_cs']})
    for i in range(N['atan2_real']):
        n = rng.randint(1, 5)
        cases.append({'kind': 'atan2_real', 'a': gen_vals(rng, n, rng.choice(MODES)),
                      'c': gen_vals(rng, n, rng.choice(MODES)), 'tie': i < TIE['atan2_real']})
    for i in range(N['atan2_cs']):
        n = rng.randint(1, 5)
        a, c = gen_vals(rng, n, rng.choice(MODES)), gen_vals(rng, n, rng.choice(MODES))
        for k in range(n):          # the formula divides by a^2 + c^2: the origin is outside the domain
            if a[k] == 0 and c[k] == 0:
                c[k] = 1.0
        cases.append({'kind': 'atan2_cs', 'a': a, 'c': c, 'b': [rng.choice([1.0, 0.0, -1.0, dy(rng)]) for _ in range(n)],
                      'd': [rng.choice([1.0, 0.0, -1.0, dy(rng)]) for _ in range(n)],
                      'cmode': rng.choice(['both', 'both', 'x', 'y'])})
    fns = ['act_tanh', 'smooth_max', 'smooth_min', 'smooth_abs', 'smooth_round']
    for i in range(N['smooth']):
        fn = fns[i % len(fns)]
        mu = rng.choice([0.01, 0.1, 0.5, 1.0, 0.25])
        x = rng.choice([rng.uniform(-3, 3), dy(rng), rng.uniform(-0.05, 0.05), 0.0])
        p = {'x': x, 'mu': mu}
        if fn == 'act_tanh':
            p.update({'z': rng.choice([0.0, dy(rng)]), 'a': rng.choice([-1.0, 0.0, dy(rng)]),
                      'b': rng.choice([1.0, 2.5, dy(rng)])})
        if fn in ('smooth_max', 'smooth_min'):
            p['y'] = rng.choice([x, x + rng.uniform(-0.05, 0.05), rng.uniform(-3, 3)])
        if fn == 'smooth_round' and x == int(x):
            p['x'] = x + 0.3        # floor is not differentiable at the integers
        cases.append({'kind': 'smooth', 'fn': fn, 'p': p, 'tie': i < TIE['smooth']})
    return cases


# ------------------------------------------------------------------ emission

def Q(x):
    fr = Fraction(x)
    return '((%d) # %d)' % (fr.numerator, fr.denominator)


def R(x):
    fr = Fraction(x)
    return '(Q2R (%d # %d))' % (fr.numerator, fr.denominator)


def rq(d):
    return Fraction(int(d['q'][0]), int(d['q'][1]))


def tolof(v):
    return TOL * max(1, abs(v))


def step(goal, tac, tag):
    return ('  first [ assert (%s) by (%s); idtac "OKGOAL %s" | idtac "BADGOAL %s" ].\n' % (goal, tac, tag, tag))


def finite(x):
    return x == x and abs(x) != float('inf')


def exact_terms(cases, results):
    idx, got, want = [], [], []
    for i, (c, r) in enumerate(zip(cases, results)):
        res = r.get('res')
        if res in (None, '__none__'):
            continue
        if c['kind'] == 'abs_real':
            a = [v for v in c['a'] if finite(v)]
            got.append('(abs_real_case [%s])' % '; '.join(Q(v) for v in a))
            want.append(to_val([res['arr'], res['sc']]))
            idx.append(i)
        elif c['kind'] == 'abs_cs':
            got.append('(abs_case [%s])' % '; '.join('(%s, %s)' % (Q(a), Q(v)) for a, v in zip(c['a'], c['v'])))
            want.append(to_val([res['re'], res['im'], res['sre'], res['sim']]))
            idx.append(i)
        elif c['kind'] == 'atan2_cs':
            items = []
            for k in range(len(c['a'])):
                items.append('(%s, %s, (%s, %s), (%s, %s))' % (
                    Q(c['a'][k]), Q(rq(res['b'][k])), Q(c['c'][k]), Q(rq(res['d'][k])),
                    Q(rq(res['imh'][k])), Q(rq(res['bound'][k]))))
            got.append('(atan_case [%s])' % '; '.join(items))
            want.append(to_val([True] * len(c['a'])))
            idx.append(i)
    return idx, got, want


def lemma_for(i, c, res):
    out = ['Lemma case_%d : True.\nProof.\n' % i]
    n = 0
    k = c['kind']
    if k == 'norm_real':
        a = c['a']
        v = rq(res['val'][0])
        goal = 'Rabs (fst (cs_norm (map (fun a => (a, 0)) [%s])) - %s) <= %s' % (
            '; '.join(R(t) for t in a), R(v), R(tolof(v)))
        out.append(step(goal, 'rewrite cs_norm_real; c30_interval', '%d v' % i))
        n += 1
    elif k == 'norm_cs':
        av = '[%s]' % '; '.join('(%s, %s)' % (R(a), R(v)) for a, v in zip(c['a'], c['v']))
        if any(Fraction(a) != 0 for a in c['a']):
            re_, imh = rq(res['re']), rq(res['imh'])
            h = R(H)
            goal = 'Rabs (fst (cs_norm (cstep %s %s)) - %s) <= %s' % (h, av, R(re_), R(tolof(re_)))
            out.append(step(goal, 'rewrite cs_norm_re_formula; c30_interval', '%d re' % i))
            goal = 'Rabs (snd (cs_norm (cstep %s %s)) / %s - %s) <= %s' % (h, av, h, R(imh), R(tolof(imh)))
            tac = ('rewrite cs_norm_imag_over_h by (try c30_pos; rewrite cs_norm_re_formula; apply Rgt_not_eq; '
                   'c30_interval); rewrite cs_norm_re_formula; c30_interval')
            out.append(step(goal, tac, '%d im' % i))
            n += 2
    elif k == 'atan2_real':
        for j, (a, cc) in enumerate(zip(c['a'], c['c'])):
            fa, fc = Fraction(a), Fraction(cc)
            if not finite(a) or not finite(cc):
                continue
            if fc > 0:
                lem = 'atan2_right'
            elif fa > 0:
                lem = 'atan2_upper'
            elif fa < 0:
                lem = 'atan2_lower'
            else:
                continue        # branch cut / origin (signed zeros): NumPy oracle only
            v = rq(res['val'][j])
            goal = 'Rabs (atan2 %s %s - %s) <= %s' % (R(fa), R(fc), R(v), R(tolof(v)))
            out.append(step(goal, 'rewrite %s by c30_pos; c30_interval' % lem, '%d a%d' % (i, j)))
            n += 1
    elif k == 'smooth':
        p, fn = c['p'], c['fn']
        env = '(env_of_list [%s; %s])' % (R(p['x']), R(p.get('y', 0.0)))
        cst = lambda t: '(ECst %s)' % Q(t)
        if fn == 'act_tanh':
            e = '(e_act_tanh (EVar 0) %s %s %s %s)' % (cst(p['mu']), cst(p['z']), cst(p['a']), cst(p['b']))
        elif fn in ('smooth_max', 'smooth_min'):
            e = '(e_%s (EVar 0) (EVar 1) %s)' % (fn, cst(p['mu']))
        elif fn == 'smooth_abs':
            e = '(e_smooth_abs (EVar 0) %s)' % cst(p['mu'])
        else:
            import math
            e = '(e_smooth_round (EVar 0) %s %s)' % (cst(math.floor(p['x'])), cst(p['mu']))
        v = rq(res['val'])
        out.append(step('Rabs (evalR %s %s - %s) <= %s' % (env, e, R(v), R(tolof(v))), 'c30_smooth', '%d v' % i))
        n += 1
        for wrt, g in sorted(res['grads'].items()):
            gv = rq(g)
            var = 0 if wrt == 'x' else 1
            out.append(step('Rabs (evalR %s (D %d %s) - %s) <= %s' % (env, var, e, R(gv), R(tolof(gv))),
                            'c30_smooth', '%d g%s' % (i, wrt)))
            n += 1
    out.append('  exact I.\nQed.\n')
    return ''.join(out), n


def run_goal_files(wd, items, per_file):
    files, cur, cnt = [], [], 0
    for idx, text, n in items:
        cur.append(text)
        cnt += n
        if cnt >= per_file:
            files.append(''.join(cur))
            cur, cnt = [], 0
    if cur:
        files.append(''.join(cur))
    ok, bad, errors = set(), set(), []

    def one(k):
        return k, coq_script(wd, 'cs_%d.v' % k, HEADER + files[k], timeout=1200)

    with cf.ThreadPoolExecutor(max_workers=core.NCPU) as ex:
        for k, (rc, outp) in ex.map(one, range(len(files))):
            ok.update(re.findall(r'OKGOAL (\d+ \w+)', outp))
            bad.update(re.findall(r'BADGOAL (\d+ \w+)', outp))
            if rc != 0:
                errors.append({'file': 'cs_%d.v' % k, 'rc': rc, 'log': outp[-1500:]})
    return ok, bad, errors, len(files)


def main(tier):
    seed = seed_from_env()
    rng = random.Random(seed * 1000003 + 30)
    wd = workdir(PID, tier)
    v = Verdict(PID, tier, seed)
    v.cov['rule'] = ('cs_safe.abs/norm/arctan2 on real arrays (zeros, signed zeros, signs, ties, inf/nan, wide '
                     'magnitudes) and under the complex perturbation a + i*2^-133*v; jax act_tanh, smooth_max/min/'
                     'abs/round values and jax.grad')
    v.assumptions = ['binary64 rounding is not modelled; exact comparisons use dyadic data and the power-of-two step',
                     'cs_safe.norm vs np.linalg.norm: 2 ulp (different summation order)',
                     'signed zero: cs_safe.abs(-0.0) is -0.0 while np.abs gives 0.0 (equal as values; counted in '
                     'the evidence, not a violation of "returns the NumPy values")']
    gate = proof_gate(PID, wd)
    v.add_proof(gate)
    cases = core.load_corpus(PID) + gen(tier, rng)
    results, log = run_impl(IMPL, cases, wd, jobs=min(4, core.NCPU), timeout=1500)
    if results is None:
        v.broke('correspondence:implementation-run-failed')
        v.cov['broken_detail'] = log[-3000:]
        return v.finish()
    nsz = 0
    for c, r in zip(cases, results):
        v.count_case(c, True, r.get('kind'))
        nsz += r.get('signed_zero_dev', 0)
        if not r.get('ok', True):
            v.failing(r.get('sig') or 'oracle', c, r.get('msg', ''))
    v.cov['signed_zero_deviations_abs'] = nsz
    if gate['build_ok']:
        # (1) exact
        idx, got, want = exact_terms(cases, results)
        bad, errors, cmd = coq_mismatches(wd, ['C30.Model'], got, want, shard=250, prelude=PRELUDE)
        v.add_correspondence('rational twin vs implementation (abs real/complex, arctan2 imaginary part)',
                             len(idx), len(bad), 'E3 exact (dyadic data, power-of-two step); arctan2 imaginary '
                             'part within 1e-12 of the exact rational (cancellation-aware bound)', cmd)
        if errors:
            v.broke('correspondence:model-evaluation-failed')
            v.cov['broken_detail'] = json.dumps(errors[:2])[-3000:]
        if bad:
            v.broke('correspondence:model-vs-implementation exact (%d of %d cases differ)' % (len(bad), len(idx)))
            v.cov['broken_detail'] = json.dumps({'cases': [cases[idx[b]] for b in bad[:3]],
                                                 'implementation': [results[idx[b]]['res'] for b in bad[:3]]})[-5000:]
        # (2) interval goals
        items, total = [], 0
        for i, (c, r) in enumerate(zip(cases, results)):
            res = r.get('res')
            if not c.get('tie') or res in (None, '__none__'):
                continue
            text, n = lemma_for(i, c, res)
            if n:
                items.append((i, text, n))
                total += n
        ok, badg, errs, nfiles = run_goal_files(wd, items, per_file=max(60, total // core.NCPU + 1))
        badc = sorted({int(t.split()[0]) for t in badg})
        missing = total - len(ok) - len(badg)
        v.add_correspondence('real-valued model vs implementation (norm, arctan2 real part, smooth helpers + grads)',
                             len(items), len(badc), 'E4: %d interval-checked goals, 1e-9*max(1,|impl|)' % total,
                             'coqc -Q coq OMV work/.../cs_<k>.v (%d files)' % nfiles)
        if errs or missing:
            v.broke('correspondence:model-evaluation-failed (%d files with errors, %d goals unreported)'
                    % (len(errs), missing))
            v.cov['broken_detail'] = json.dumps(errs[:2])[-3000:]
        if badc:
            v.broke('correspondence:model-vs-implementation interval (%d cases differ)' % len(badc))
            v.cov['broken_detail'] = json.dumps({'cases': [cases[i] for i in badc[:3]],
                                                 'implementation': [results[i]['res'] for i in badc[:3]],
                                                 'goals': sorted(badg)[:10]})[-5000:]
    else:
        v.broke('correspondence:model-not-built')
    if v.broken and not v.violations:
        rng2 = random.Random(seed + 77)
        extra = [dict(c, tie=False) for c in gen(tier, rng2)]
        res2, _ = run_impl(IMPL, extra, wd, tag='search', jobs=min(4, core.NCPU))
        if res2 is not None:
            for c, r in zip(extra, res2):
                v.count_case(c, True, r.get('kind'))
                if not r.get('ok', True):
                    v.failing(r.get('sig') or 'oracle', c, r.get('msg', ''))
    return v.finish()


def replay(rep):
    case = rep.get('case')
    wd = workdir(PID, 'replay')
    res, log = run_impl(IMPL, [case], wd, jobs=1)
    print(json.dumps({'case': case, 'result': res, 'log': log[-500:]}, indent=1, default=str)[:6000])
    return 0 if res and res[0].get('ok') else 1


if __name__ == '__main__':
    import sys
    sys.exit(main(sys.argv[1] if len(sys.argv) > 1 else 'quick'))
