"""C03 implementation side: the real colouring code of /repo on generated patterns and matrices.

Kinds of case
  pat      boolean pattern + integer matrix M with that pattern + an arbitrary integer "compressed" matrix:
             _compute_coloring fwd / rev  -> groups, nonzero maps, _expand_jac and colored_jac_iter on the real
             compressed products and on the arbitrary compressed matrix;
             MNCO_bidir direct / substitution -> raw colouring (for the Coq validator), reconstruction of M through
             the real simul_coloring_jac_setter + _apply_subtractions;
             _compute_coloring auto (direct / substitution) -> which colouring is kept, solves.
  totals   a real om.Problem with a linear component: coloured compute_totals == uncoloured compute_totals
           (fwd / rev / auto, direct / substitution, with per-element scalers on design variables and constraints).
  partials a real component with declare_coloring(method='fd'): coloured partials == the exact jacobian.
All values are small integers (or integers times powers of two), so every float operation is exact.
"""
import warnings
import numpy as np
from scipy.sparse import coo_matrix
from implutil import main

warnings.simplefilter('ignore')
import openmdao.api as om                                             # noqa: E402
from openmdao.utils.coloring import _compute_coloring, MNCO_bidir    # noqa: E402
from openmdao.core.total_jac import _TotalJacInfo                     # noqa: E402


def pattern_of(c):
    nr, nc, code = c['nr'], c['nc'], int(c['code'])
    P = np.zeros((nr, nc), dtype=bool)
    for r in range(nr):
        for k in range(nc):
            P[r, k] = (code >> (r * nc + k)) & 1
    return P


def ser_groups(g):
    """symbol stream of a list of lists of naturals (Model.ser_groups)"""
    ds = []
    for l in g:
        ds += [int(x) + 1 for x in l] + [0]
    return ds + [1022]


def ser_mat(a):
    ds = []
    for v in np.asarray(a).ravel():
        if float(v) != int(v):
            raise ValueError('non-integer entry %r' % v)
        v = int(v)
        ds.append(1021 if (v < -512 or v > 508) else v + 512)
    return ds


def il(a):
    return [int(v) for v in a]


def imat(a):
    a = np.asarray(a)
    out = []
    for row in a:
        r = []
        for v in row:
            if float(v) != int(v):
                raise ValueError('non-integer entry %r' % v)
            r.append(int(v))
        out.append(r)
    return out


class _Obj(object):
    pass


class _Vec(object):
    def __init__(self, a):
        self.a = a

    def asarray(self):
        return self.a


def reconstruct(col, M):
    """Total jacobian assembled by the real jac setter from the real compressed products of M,
    followed by the real subtractions (order of compute_totals: fwd, rev, subtractions)."""
    nr, nc = M.shape
    J = np.zeros((nr, nc))
    f = _Obj()
    f.simul_coloring = col
    f.comm = _Obj()
    f.comm.size = 1
    f.J = J
    f.jac_scratch = None
    for mode in col.modes():
        n = nr if mode == 'fwd' else nc
        f.sol2jac_map = {mode: (np.arange(n), np.arange(n), None)}
        for arr, nzs, nzparts in col.tangent_iter(mode):
            prod = M @ arr if mode == 'fwd' else arr @ M
            f.output_vec = {mode: _Vec(prod)}
            _TotalJacInfo.simul_coloring_jac_setter(f, nzs, mode, None)
    if col._subtractions:
        col._apply_subtractions(J)
    return J


def one_direction(P, M, cj, mode):
    """fwd or rev colouring of P; returns (res, problems)."""
    nr, nc = P.shape
    bad = []
    col = _compute_coloring(P.copy(), mode)
    groups, nzmap = (col._fwd if mode == 'fwd' else col._rev)
    n = nc if mode == 'fwd' else nr
    other = nr if mode == 'fwd' else nc
    glist = [il(g) for g in groups]
    # each non-empty column (row) in exactly one colour
    flat = [c for g in glist for c in g]
    nonempty = [k for k in range(n) if (P[:, k].any() if mode == 'fwd' else P[k, :].any())]
    if sorted(flat) != nonempty:
        bad.append('%s groups %s do not partition the non-empty lines %s' % (mode, glist, nonempty))
    if len(glist) > n or col.total_solves() != len(glist):
        bad.append('%s colouring needs %d solves for %d lines' % (mode, len(glist), n))
    for k in range(n):
        want = il(np.nonzero(P[:, k])[0]) if mode == 'fwd' else il(np.nonzero(P[k, :])[0])
        got = [] if nzmap[k] is None else il(nzmap[k])
        if got != want:
            bad.append('%s nonzero map of line %d is %s, pattern has %s' % (mode, k, got, want))
    ncolors = len(glist)
    tangent = col.tangent_matrix(mode) if ncolors else np.zeros((0, n))
    if mode == 'fwd':
        comp = M @ tangent.T                     # nr x ncolors
        cjs = cj[:, :ncolors]
    else:
        comp = tangent @ M                       # ncolors x nc
        cjs = cj[:ncolors, :]

    def expand_both(cmat):
        if P.any():
            e1 = col._expand_jac(cmat, mode).toarray()
        else:
            e1 = np.zeros((nr, nc))
        e2 = np.zeros((nr, nc))
        for vals, nzpart, idx in col.colored_jac_iter(cmat, mode):
            if mode == 'fwd':
                e2[nzpart, idx] = vals
            else:
                e2[idx, nzpart] = vals
        return e1, e2

    j1, j2 = expand_both(comp)
    if not np.array_equal(j1, M):
        bad.append('%s _expand_jac of the compressed products differs from M: %s' % (mode, imat(j1)))
    if not np.array_equal(j2, M):
        bad.append('%s colored_jac_iter of the compressed products differs from M: %s' % (mode, imat(j2)))
    e1, e2 = expand_both(cjs.astype(float))
    res = ser_groups(glist) + [1] + ser_mat(j1) + ser_mat(e1)
    if not np.array_equal(e1, e2):
        bad.append('%s colored_jac_iter and _expand_jac disagree on a compressed matrix: %s vs %s' % (mode, imat(e2), imat(e1)))
    return res, bad, ncolors


def bidir(P, M, direct):
    nr, nc = P.shape
    bad = []
    nzr, nzc = np.nonzero(P)
    Jc = coo_matrix((np.ones(nzr.size, dtype=bool), (nzr, nzc)), shape=P.shape)
    col = MNCO_bidir(Jc, direct=direct)
    fg = [il(g) for g in col._fwd[0]] if col._fwd else []
    rg = [il(g) for g in col._rev[0]] if col._rev else []
    fnz = [[] if (not col._fwd or col._fwd[1][k] is None) else il(col._fwd[1][k]) for k in range(nc)]
    rnz = [[] if (not col._rev or col._rev[1][k] is None) else il(col._rev[1][k]) for k in range(nr)]
    for k in [c for g in fg for c in g]:
        if col._fwd[1][k] is None:
            bad.append('fwd group contains column %d that has no nonzero map' % k)
    for k in [c for g in rg for c in g]:
        if col._rev[1][k] is None:
            bad.append('rev group contains row %d that has no nonzero map' % k)
    subs = []
    if col._subtractions:
        for pos, lst in col._subtractions:
            subs.append([[int(pos[0]), int(pos[1])], [[int(a), int(b)] for a, b in lst]])
    J = reconstruct(col, M)
    if not np.array_equal(J, M):
        bad.append('bidirectional (%s) reconstruction differs from M: %s' % (
            'direct' if direct else 'substitution', imat(J)))
    ff = [c for g in fg for c in g]
    rr = [c for g in rg for c in g]
    if len(set(ff)) != len(ff) or len(set(rr)) != len(rr):
        bad.append('a column/row sits in two colours: fwd %s rev %s' % (fg, rg))
    raw = {'fg': fg, 'fnz': fnz, 'rg': rg, 'rnz': rnz, 'subs': subs}
    return raw, [1] + ser_mat(J), bad, col.total_solves()


def auto(P, M, direct, nbidir):
    nr, nc = P.shape
    bad = []
    col = _compute_coloring(P.copy(), 'auto', direct)
    if col._meta.get('fallback'):
        sel = 1 if col._fwd is not None else 2      # replaced by the one-directional fwd / rev colouring
    else:
        sel = 0
    solves = col.total_solves()
    if solves > min(nr, nc):
        bad.append('auto colouring needs %d solves, uncoloured %d' % (solves, min(nr, nc)))
    J = reconstruct(col, M)
    if not np.array_equal(J, M):
        bad.append('auto (%s) reconstruction differs from M: %s' % ('direct' if direct else 'substitution', imat(J)))
    return [sel, solves], bad


def handle_pat(c):
    P = pattern_of(c)
    M = np.array(c['M'], dtype=float).reshape(P.shape)
    if np.any(M[~P] != 0):
        raise ValueError('M not within pattern')
    cj = np.array(c['cj'], dtype=float).reshape(P.shape)
    bad = []
    rf, b, _ = one_direction(P, M, cj, 'fwd')
    bad += b
    rr, b, _ = one_direction(P, M, cj, 'rev')
    bad += b
    raw_d, rd, b, nd = bidir(P, M, True)
    bad += b
    raw_s, rs, b, ns = bidir(P, M, False)
    bad += b
    ad, b = auto(P, M, True, nd)
    bad += b
    as_, b = auto(P, M, False, ns)
    bad += b
    res = rf + rr + rd + rs + ad + as_
    return {'res': res, 'raw': {'d': raw_d, 's': raw_s, 'nd': nd, 'ns': ns}, 'ok': not bad,
            'msg': '; '.join(bad)[:1500], 'sig': 'pattern-colouring' if bad else '',
            'kind': 'pat %dx%d' % P.shape if max(P.shape) <= 4 else 'pat large'}


# ------------------------------------------------------------------------------------ real problems

def lin_comp(A):
    class Lin(om.ExplicitComponent):
        def setup(self):
            self.add_input('x', np.ones(A.shape[1]))
            self.add_output('y', np.zeros(A.shape[0]))
            r, c = np.nonzero(A)
            self.declare_partials('y', 'x', rows=r, cols=c, val=A[r, c])

        def compute(self, i, o):
            o['y'] = A @ i['x']

        def compute_partials(self, i, p):
            pass
    return Lin()


def totals(A, c, colored):
    n = A.shape[0]
    p = om.Problem()
    p.model.add_subsystem('c', lin_comp(A), promotes=['*'])
    dv = {}
    if c.get('dv_scaler') is not None:
        dv['scaler'] = np.array(c['dv_scaler'], dtype=float)
    p.model.add_design_var('x', **dv)
    p.model.add_objective('y', index=0)
    con = {}
    if c.get('con_scaler') is not None:
        con['scaler'] = np.array(c['con_scaler'], dtype=float)
    if n > 1:
        p.model.add_constraint('y', indices=list(range(1, n)), upper=100., alias='con', **con)
    p.driver = om.ScipyOptimizeDriver()
    if colored:
        p.driver.declare_coloring(direct=bool(c['direct']), show_summary=False, show_sparsity=False,
                                  num_full_jacs=1, tol=1e-20, min_improve_pct=0.)
    p.setup(mode=c['mode'])
    p.run_model()
    info = None
    if colored:
        import openmdao.utils.coloring as cm
        col = cm.dynamic_total_coloring(p.driver)
        if col is not None:
            info = {'fwd': len(col._fwd[0]) if col._fwd else 0, 'rev': len(col._rev[0]) if col._rev else 0,
                    'subs': len(col._subtractions) if col._subtractions else 0}
    of = ['y', 'con'] if n > 1 else ['y']
    J = p.compute_totals(of=of, wrt=['x'], return_format='array', driver_scaling=True)
    return np.array(J), info


def handle_totals(c):
    A = np.array(c['A'], dtype=float)
    J0, _ = totals(A, c, False)
    J1, info = totals(A, c, True)
    ok = np.array_equal(J0, J1)
    msg = ''
    if not ok:
        idx = np.argwhere(J0 != J1)[0]
        msg = ('compute_totals with declare_coloring(direct=%s), mode=%s, constraint scaler %s, desvar scaler %s: '
               'coloured J[%d,%d]=%r, uncoloured %r (colouring %s)' % (
                   c['direct'], c['mode'], c.get('con_scaler'), c.get('dv_scaler'), idx[0], idx[1],
                   float(J1[tuple(idx)]), float(J0[tuple(idx)]), info))
    used = 'colored' if info else 'nocoloring'
    return {'res': '__none__', 'ok': bool(ok), 'msg': msg,
            'sig': 'totals-coloured-vs-uncoloured' + ('-subtractions' if info and info['subs'] else ''),
            'kind': 'totals %s %s %s%s' % (c['mode'], 'direct' if c['direct'] else 'subst', used,
                                           ' subs' if info and info['subs'] else '')}


def handle_partials(c):
    A = np.array(c['A'], dtype=float)
    nr, nc = A.shape

    class Comp(om.ExplicitComponent):
        def setup(self):
            self.add_input('x', np.ones(nc))
            self.add_output('y', np.zeros(nr))
            self.declare_partials('y', 'x', method='fd', step=1.0)
            self.declare_coloring(wrt='*', method='fd', step=1.0, num_full_jacs=1, tol=1e-20,
                                  min_improve_pct=0., show_summary=False, show_sparsity=False,
                                  perturb_size=1.0)

        def compute(self, i, o):
            o['y'] = A @ i['x']
    p = om.Problem()
    comp = p.model.add_subsystem('c', Comp())
    p.setup()
    p.set_val('c.x', np.array(c['x'], dtype=float))
    p.run_model()
    # single-component model: the totals are the component's (coloured, fd-approximated) partials
    J = np.array(p.compute_totals(of=['c.y'], wrt=['c.x'], return_format='array'))
    col = comp._coloring_info.coloring
    ok = np.array_equal(J, A)
    ncol = len(col._fwd[0]) if col is not None and col._fwd else None
    if ncol is not None and ncol > nc:
        ok = False
    msg = '' if ok else 'coloured fd partials %s differ from the exact jacobian %s (colours %s)' % (
        J.tolist(), A.tolist(), ncol)
    return {'res': '__none__', 'ok': bool(ok), 'msg': msg, 'sig': 'partials-coloured',
            'kind': 'partials ' + ('colored' if col is not None else 'nocoloring')}


# ------------------------------------------------------------------------------------ call histories

def _lin2(A, n1, m1):
    """y1, y2 = blocks of A @ [x1; x2]; f = first row of A (scalar objective)"""
    A = np.array(A, dtype=float)
    nr, nc = A.shape

    class Lin2(om.ExplicitComponent):
        def setup(self):
            self.add_input('x1', np.ones(n1))
            self.add_input('x2', np.ones(nc - n1))
            self.add_output('f', 0.0)
            self.add_output('y1', np.zeros(m1))
            self.add_output('y2', np.zeros(nr - 1 - m1))
            for oname, r0, r1 in (('f', 0, 1), ('y1', 1, 1 + m1), ('y2', 1 + m1, nr)):
                for iname, c0, c1 in (('x1', 0, n1), ('x2', n1, nc)):
                    blk = A[r0:r1, c0:c1]
                    r, c = np.nonzero(blk)
                    if r.size:
                        self.declare_partials(oname, iname, rows=r, cols=c, val=blk[r, c])

        def compute(self, i, o):
            x = np.concatenate([i['x1'], i['x2']])
            y = A @ x
            o['f'] = y[0]
            o['y1'] = y[1:1 + m1]
            o['y2'] = y[1 + m1:]

        def compute_partials(self, i, p):
            pass
    return Lin2()


def _hist_problem(c, colored):
    p = om.Problem()
    p.model.add_subsystem('c', _lin2(c['A'], c['n1'], c['m1']), promotes=['*'])
    p.model.add_design_var('x1', scaler=c.get('s1'))
    p.model.add_design_var('x2')
    p.model.add_objective('f')
    p.model.add_constraint('y1', upper=1000.)
    p.model.add_constraint('y2', upper=1000., scaler=c.get('s2'))
    p.driver = om.ScipyOptimizeDriver()
    if colored:
        p.driver.declare_coloring(direct=bool(c['direct']), show_summary=False, show_sparsity=False,
                                  num_full_jacs=1, tol=1e-20, min_improve_pct=0.)
    p.setup(mode=c['mode'])
    p.run_model()
    return p


def handle_totals_hist(c):
    """driver-order compute_totals (computes and caches the driver's colouring), then calls with custom /
    reordered / subset of and wrt lists: every call must equal the uncoloured problem's answer"""
    pc, pu = _hist_problem(c, True), _hist_problem(c, False)
    bad = []
    used = False
    for k, call in enumerate(c['calls']):
        kw = {}
        if call['of'] is not None:
            kw['of'] = call['of']
        if call['wrt'] is not None:
            kw['wrt'] = call['wrt']
        kw['driver_scaling'] = bool(call.get('ds'))
        kw['return_format'] = 'flat_dict'
        ju = pu.compute_totals(**kw)
        try:
            jc = pc.compute_totals(**kw)
        except Exception as e:      # noqa
            bad.append('call %d compute_totals(%s) with a cached driver colouring raised %s: %s' % (
                k, call, type(e).__name__, str(e)[:120]))
            break
        if k == 0:
            col = pc.driver._coloring_info.coloring
            used = col is not None
        for key in ju:
            if key not in jc or not np.array_equal(np.asarray(ju[key]), np.asarray(jc[key])):
                bad.append('call %d compute_totals(of=%s, wrt=%s, driver_scaling=%s) after the driver-order call: '
                           'd%s/d%s coloured %s, uncoloured %s' % (
                               k, call['of'], call['wrt'], kw['driver_scaling'], key[0], key[1],
                               np.asarray(jc.get(key)).tolist(), np.asarray(ju[key]).tolist()))
                break
        if bad:
            break
    return {'res': '__none__', 'ok': not bad, 'msg': '; '.join(bad)[:1500], 'sig': 'totals-call-history',
            'kind': 'totals history ' + ('colored' if used else 'nocoloring')}


EXPRS = {
    'sq': ['y = a*x**2 + w*x'],
    'two': ['y = x**2 + 3.*z', 'v = x*w'],
    'cube': ['y = x*w + z**3'],
    'rev': ['y = x[::-1]*w + x**2'],
}
EXPR_VARS = {'sq': (['x', 'w', 'a'], ['y']), 'two': (['x', 'w', 'z'], ['y', 'v']),
             'cube': (['x', 'w', 'z'], ['y']), 'rev': (['x', 'w'], ['y'])}


def close(a, b, rtol):
    a, b = np.asarray(a, dtype=float), np.asarray(b, dtype=float)
    return a.shape == b.shape and bool(np.all(np.abs(a - b) <= rtol * np.maximum(1.0, np.abs(b))))


def handle_execcomp(c):
    """ExecComp with its built-in partial colouring: sparsity sampled at a point where inputs are exactly 0,
    then re-linearised elsewhere; must agree with do_coloring=False at every point"""
    n = c['n']
    ins, outs = EXPR_VARS[c['expr']]

    def build(do_coloring):
        kw = {v: np.zeros(n) for v in ins + outs}
        p = om.Problem()
        p.model.add_subsystem('c', om.ExecComp(EXPRS[c['expr']], do_coloring=do_coloring, **kw),
                              promotes=['*'])
        p.setup()
        return p
    pc, pu = build(True), build(False)
    bad = []
    for k, pt in enumerate(c['points']):
        js = []
        for p in (pc, pu):
            for v in ins:
                p.set_val(v, np.array(pt[v], dtype=float))
            p.run_model()
            js.append(p.compute_totals(of=outs, wrt=ins, return_format='flat_dict'))
        for key in js[1]:
            if not close(js[0][key], js[1][key], 1e-12):
                bad.append('point %d %s: d%s/d%s with built-in colouring %s, with do_coloring=False %s' % (
                    k, {v: pt[v] for v in ins}, key[0], key[1], np.asarray(js[0][key]).tolist(),
                    np.asarray(js[1][key]).tolist()))
                break
        if bad:
            break
    col = pc.model.c._coloring_info.coloring
    return {'res': '__none__', 'ok': not bad, 'msg': '; '.join(bad)[:1500], 'sig': 'execcomp-coloring-degenerate-point',
            'kind': 'execcomp ' + c['expr'] + (' colored' if col is not None else ' nocoloring')}


def handle_nlcomp(c):
    """component with declare_coloring on approximated (cs / fd) partials whose sparsity is sampled at a
    degenerate point (zero inputs, vanishing derivatives), re-linearised elsewhere"""
    B = np.array(c['B'], dtype=float)
    C = np.array(c['C'], dtype=float)
    nr, nc = B.shape
    method = c['method']

    def build(colored):
        class NL(om.ExplicitComponent):
            def setup(self):
                self.add_input('x', np.zeros(nc))
                self.add_input('w', np.zeros(nc))
                self.add_output('y', np.zeros(nr))
                self.declare_partials('y', ['x', 'w'], method=method)
                if colored:
                    self.declare_coloring(wrt='*', method=method, num_full_jacs=2, tol=1e-20,
                                          min_improve_pct=0., show_summary=False, show_sparsity=False)

            def compute(self, i, o):
                o['y'] = B @ (i['x'] ** 2) + C @ (i['x'] * i['w'])
        p = om.Problem()
        p.model.add_subsystem('c', NL(), promotes=['*'])
        p.setup(force_alloc_complex=(method == 'cs'))
        return p
    pc, pu = build(True), build(False)
    bad = []
    rtol = 1e-12 if method == 'cs' else 1e-7
    for k, pt in enumerate(c['points']):
        js = []
        for p in (pc, pu):
            p.set_val('x', np.array(pt['x'], dtype=float))
            p.set_val('w', np.array(pt['w'], dtype=float))
            p.run_model()
            js.append(p.compute_totals(of=['y'], wrt=['x', 'w'], return_format='flat_dict'))
        for key in js[1]:
            if not close(js[0][key], js[1][key], rtol):
                bad.append('point %d %s: d%s/d%s with declare_coloring(%s) %s, without %s' % (
                    k, pt, key[0], key[1], method, np.asarray(js[0][key]).tolist(),
                    np.asarray(js[1][key]).tolist()))
                break
        if bad:
            break
    col = pc.model.c._coloring_info.coloring
    return {'res': '__none__', 'ok': not bad, 'msg': '; '.join(bad)[:1500], 'sig': 'partial-coloring-degenerate-point',
            'kind': 'nlcomp ' + method + (' colored' if col is not None else ' nocoloring')}


# ------------------------------------------------------------------------------------ several response components

def _rows_comp(A, shape_in):
    """y = A @ x with rows/cols partials (one response component)"""
    A = np.array(A, dtype=float)

    class Rows(om.ExplicitComponent):
        def setup(self):
            self.add_input('x', np.ones(shape_in))
            self.add_output('y', np.zeros(A.shape[0]))
            r, c = np.nonzero(A)
            if r.size:
                self.declare_partials('y', 'x', rows=r, cols=c, val=A[r, c])

        def compute(self, i, o):
            o['y'] = A @ i['x']

        def compute_partials(self, i, p):
            pass
    return Rows()


def _multi_problem(c, colored):
    n = len(c['blocks'][0][0])
    p = om.Problem()
    m = p.model
    m.add_subsystem('ivc', om.IndepVarComp('x', np.array(c['x'], dtype=float)))
    for k, A in enumerate(c['blocks']):
        m.add_subsystem('r%d' % k, _rows_comp(A, n))
        m.connect('ivc.x', 'r%d.x' % k)
    m.add_design_var('ivc.x', scaler=c.get('dv_scaler'))
    for k, A in enumerate(c['blocks']):
        if k == c['obj']:
            m.add_objective('r%d.y' % k, index=0)
            if len(A) > 1:
                m.add_constraint('r%d.y' % k, indices=list(range(1, len(A))), upper=1000., alias='c%d' % k)
        else:
            m.add_constraint('r%d.y' % k, upper=1000., scaler=c.get('con_scaler') if k == 0 else None)
    p.driver = om.ScipyOptimizeDriver()
    if colored:
        p.driver.declare_coloring(direct=bool(c['direct']), show_summary=False, show_sparsity=False,
                                  num_full_jacs=1, tol=1e-20, min_improve_pct=0.)
    if c.get('mode'):
        p.setup(mode=c['mode'])
    else:
        p.setup()                       # default mode ('auto')
    p.run_model()
    return p


def handle_totals_multi(c):
    """several response components fed by one design variable, problem mode left at its default; the driver's
    total colouring may then do fwd AND rev solves in one compute_totals while each rev solve skips the components
    that are not relevant to it.  Coloured totals (driver order, twice) must equal the uncoloured ones."""
    pc, pu = _multi_problem(c, True), _multi_problem(c, False)
    bad = []
    ds = bool(c.get('ds'))
    ju = pu.compute_totals(return_format='flat_dict', driver_scaling=ds)
    info = 'nocoloring'
    for call in range(2):
        try:
            jc = pc.compute_totals(return_format='flat_dict', driver_scaling=ds)
        except Exception as e:      # noqa
            bad.append('coloured compute_totals raised %s: %s' % (type(e).__name__, str(e)[:150]))
            break
        col = pc.driver._coloring_info.coloring
        if col is not None:
            nf = len(col._fwd[0]) if col._fwd else 0
            nr = len(col._rev[0]) if col._rev else 0
            info = 'bidirectional' if (nf and nr) else ('fwd-only' if nf else 'rev-only')
            nresp = sum(len(A) for A in c['blocks'])
            unc = {'fwd': len(c['x']), 'rev': nresp}.get(c.get('mode'), min(len(c['x']), nresp))
            if nf + nr > unc:
                bad.append('colouring needs %d solves, uncoloured %d' % (nf + nr, unc))
        for key in ju:
            if key not in jc or not np.array_equal(np.asarray(ju[key]), np.asarray(jc[key])):
                bad.append('call %d: d%s/d%s coloured (%s, mode %s, direct=%s) %s, uncoloured %s' % (
                    call + 1, key[0], key[1], info, c.get('mode') or 'default', c['direct'],
                    np.asarray(jc.get(key)).tolist(), np.asarray(ju[key]).tolist()))
                break
        if bad:
            break
    return {'res': '__none__', 'ok': not bad, 'msg': '; '.join(bad)[:1500], 'sig': 'totals-several-response-components',
            'kind': 'totals multi-component %s %s' % (c.get('mode') or 'default-mode', info)}


# ------------------------------------------------------------------------------------ re-setup histories

def handle_totals_resetup(c):
    """the SAME Problem (dynamic driver colouring) is set up, run and differentiated several times while the
    sparsity of its component changes (same names and sizes); after every setup the coloured totals must equal
    the uncoloured totals of the model as it is then"""
    mats = [np.array(A, dtype=float) for A in c['mats']]
    nr, nc = mats[0].shape

    class Mut(om.ExplicitComponent):
        def initialize(self):
            self.options.declare('cfg', types=int, default=0)

        def setup(self):
            A = mats[self.options['cfg']]
            self.add_input('x', np.ones(nc))
            self.add_output('y', np.zeros(nr))
            r, k = np.nonzero(A)
            if r.size:
                self.declare_partials('y', 'x', rows=r, cols=k, val=A[r, k])

        def compute(self, i, o):
            o['y'] = mats[self.options['cfg']] @ i['x']

        def compute_partials(self, i, p):
            pass

    def build(colored):
        p = om.Problem()
        p.model.add_subsystem('c', Mut(), promotes=['*'])
        p.model.add_design_var('x')
        p.model.add_objective('y', index=0)
        if nr > 1:
            p.model.add_constraint('y', indices=list(range(1, nr)), upper=1000., alias='con',
                                   scaler=c.get('con_scaler'))
        p.driver = om.ScipyOptimizeDriver()
        if colored:
            p.driver.declare_coloring(direct=bool(c['direct']), show_summary=False, show_sparsity=False,
                                      num_full_jacs=1, tol=1e-20, min_improve_pct=0.)
        return p
    pc, pu = build(True), build(False)
    bad = []
    solves = []
    for k in range(len(mats)):
        js = []
        for p in (pc, pu):
            p.model.c.options['cfg'] = k
            p.setup(mode=c['mode']) if c.get('mode') else p.setup()
            p.run_model()
            try:
                js.append(np.array(p.compute_totals(return_format='array', driver_scaling=bool(c.get('ds')))))
            except Exception as e:      # noqa
                bad.append('setup %d: compute_totals raised %s: %s' % (k + 1, type(e).__name__, str(e)[:150]))
                break
        if bad:
            break
        col = pc.driver._coloring_info.coloring
        solves.append(col.total_solves() if col is not None else None)
        if not np.array_equal(js[0], js[1]):
            idx = np.argwhere(js[0] != js[1])[0]
            bad.append('after setup number %d of the same Problem (sparsity changed, names and sizes did not): '
                       'coloured J[%d,%d]=%r, uncoloured %r; colouring solves per setup %s; matrix %s' % (
                           k + 1, idx[0], idx[1], float(js[0][tuple(idx)]), float(js[1][tuple(idx)]), solves,
                           mats[k].tolist()))
            break
    return {'res': '__none__', 'ok': not bad, 'msg': '; '.join(bad)[:1500], 'sig': 'totals-resetup-history',
            'kind': 'totals re-setup x%d %s' % (len(mats), 'colored' if any(v for v in solves) else 'nocoloring')}


# ------------------------------------------------------------------------------------ colouring on a subset of the inputs

def handle_partial_subset(c):
    """partial colouring declared for only some inputs (wrt='b*', fd with its own step/form) while another input
    keeps an ordinary fd approximation with different options, in both declaration orders; quadratic compute, so a
    forward difference with step h is off by exactly h*coefficient and the options that were used show exactly"""
    B0 = np.array(c['B0'], dtype=float)
    B1 = np.array(c['B1'], dtype=float)
    Cz = np.array(c['Cz'], dtype=float)
    nr, nb = B0.shape
    nz = Cz.shape[1]
    hb, hz = 2.0 ** -c['hb'], 2.0 ** -c['hz']
    fb, fz = c['fb'], c['fz']

    def build(colored):
        class Comp(om.ExplicitComponent):
            def setup(self):
                self.add_input('b0', np.zeros(nb))
                self.add_input('b1', np.zeros(nb))
                self.add_input('z', np.zeros(nz))
                self.add_output('y', np.zeros(nr))

            def setup_partials(self):
                def other():
                    self.declare_partials('y', 'z', method='fd', step=hz, form=fz)

                def colored_part():
                    if colored:
                        self.declare_coloring(wrt='b*', method='fd', step=hb, form=fb, num_full_jacs=2,
                                              tol=1e-20, min_improve_pct=0., show_summary=False,
                                              show_sparsity=False)
                    else:
                        self.declare_partials('y', 'b*', method='fd', step=hb, form=fb)
                if c['order'] == 0:
                    other()
                    colored_part()
                else:
                    colored_part()
                    other()

            def compute(self, i, o):
                o['y'] = B0 @ (i['b0'] ** 2) + B1 @ (i['b1'] ** 2) + Cz @ (i['z'] ** 2)
        p = om.Problem()
        p.model.add_subsystem('c', Comp(), promotes=['*'])
        p.setup()
        return p
    pc, pu = build(True), build(False)
    sg = {'forward': 1.0, 'backward': -1.0, 'central': 0.0}
    bad = []
    for k, pt in enumerate(c['points']):
        js = []
        for p in (pc, pu):
            for v in ('b0', 'b1', 'z'):
                p.set_val(v, np.array(pt[v], dtype=float))
            p.run_model()
            js.append(p.compute_totals(of=['y'], wrt=['b0', 'b1', 'z'], return_format='flat_dict'))
        exact = {('y', 'b0'): B0 * (2 * np.array(pt['b0'], dtype=float) + sg[fb] * hb)[np.newaxis, :],
                 ('y', 'b1'): B1 * (2 * np.array(pt['b1'], dtype=float) + sg[fb] * hb)[np.newaxis, :],
                 ('y', 'z'): Cz * (2 * np.array(pt['z'], dtype=float) + sg[fz] * hz)[np.newaxis, :]}
        for key in exact:
            if not np.array_equal(np.asarray(js[1][key]), exact[key]):
                raise ValueError('harness: uncoloured fd %s is %s, expected %s' % (
                    key, np.asarray(js[1][key]).tolist(), exact[key].tolist()))
            if not np.array_equal(np.asarray(js[0][key]), np.asarray(js[1][key])):
                bad.append('point %d: d%s/d%s with declare_coloring(wrt="b*", fd step %g %s) and y/z declared fd '
                           'step %g %s (order %d) is %s; the same approximations without colouring give %s' % (
                               k, key[0], key[1], hb, fb, hz, fz, c['order'], np.asarray(js[0][key]).tolist(),
                               np.asarray(js[1][key]).tolist()))
                break
        if bad:
            break
    col = pc.model.c._coloring_info.coloring
    return {'res': '__none__', 'ok': not bad, 'msg': '; '.join(bad)[:1500], 'sig': 'partial-coloring-subset-of-inputs',
            'kind': 'partial colouring on a subset order %d %s' % (c['order'], 'colored' if col is not None else 'nocoloring')}


def handle(c):
    k = c['kind']
    if k == 'pat':
        return handle_pat(c)
    if k == 'totals':
        return handle_totals(c)
    if k == 'partials':
        return handle_partials(c)
    if k == 'totals_hist':
        return handle_totals_hist(c)
    if k == 'execcomp':
        return handle_execcomp(c)
    if k == 'nlcomp':
        return handle_nlcomp(c)
    if k == 'totals_multi':
        return handle_totals_multi(c)
    if k == 'totals_resetup':
        return handle_totals_resetup(c)
    if k == 'partial_subset':
        return handle_partial_subset(c)
    raise ValueError(k)


if __name__ == '__main__':
    main(handle)
