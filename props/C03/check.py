"""C03 — simultaneous-derivative colouring reconstructs every Jacobian entry."""
import core
from core import Spec, standard_check


def nl(xs):
    return '[%s]' % '; '.join('%d' % int(v) for v in xs)


def nll(xss):
    return '([%s])%%nat' % '; '.join(nl(x) for x in xss)


def zmat(flat, nr, nc):
    return '[%s]' % '; '.join('[%s]' % '; '.join('(%d)' % int(flat[r * nc + c]) for c in range(nc))
                              for r in range(nr))


def subs_lit(subs):
    return '([%s])%%nat' % '; '.join('((%d, %d), [%s])' % (p[0], p[1], '; '.join('(%d, %d)' % (a, b) for a, b in l))
                                    for p, l in subs)


def words(symbols):
    """pack 10-bit symbols six to a 60-bit word (padding symbol 1023); Gallina literal of type list int"""
    ws = []
    for k in range(0, len(symbols), 6):
        ch = list(symbols[k:k + 6])
        ch += [1023] * (6 - len(ch))
        w = 0
        for j, d in enumerate(ch):
            assert 0 <= d < 1024
            w |= d << (10 * j)
        ws.append(w)
    return '[%s]' % '; '.join('%d' % w for w in ws)


def code_words(code):
    ws = []
    while code:
        ws.append(code & ((1 << 60) - 1))
        code >>= 60
    return '[%s]' % '; '.join('%d' % w for w in ws)


def grp(g):
    ds = []
    for l in g:
        ds += [int(x) + 1 for x in l] + [0]
    return words(ds)


def pat_case(nr, nc, code, rng, zero_prob=0.0):
    M, cj = [], []
    for k in range(nr * nc):
        if (code >> k) & 1:
            v = rng.choice([-9, -7, -5, -3, -2, -1, 1, 2, 3, 4, 5, 6, 7, 8, 9])
            if rng.random() < zero_prob:
                v = 0
            M.append(v)
        else:
            M.append(0)
        cj.append(rng.randrange(-20, 21))
    return {'kind': 'pat', 'nr': nr, 'nc': nc, 'code': code, 'M': M, 'cj': cj}


def structured_code(nr, nc, rng):
    """patterns where bidirectional colouring matters: arrow heads, bands, blocks, dense lines + noise"""
    bits = [[False] * nc for _ in range(nr)]
    style = rng.choice(['arrow', 'band', 'block', 'random', 'random', 'denselines', 'arrow2'])
    if style in ('arrow', 'arrow2'):
        for k in range(min(nr, nc)):
            bits[k][k] = True
        for r in range(rng.randrange(1, 3) if style == 'arrow2' else 1):
            rr = rng.randrange(nr)
            for c in range(nc):
                bits[rr][c] = True
        for c in range(rng.randrange(1, 3) if style == 'arrow2' else 1):
            cc = rng.randrange(nc)
            for r in range(nr):
                bits[r][cc] = True
    elif style == 'band':
        w = rng.randrange(1, 3)
        for r in range(nr):
            for c in range(nc):
                if abs(r - c) <= w:
                    bits[r][c] = True
    elif style == 'block':
        b = rng.randrange(2, 4)
        for r in range(nr):
            for c in range(nc):
                if r // b == c // b:
                    bits[r][c] = True
    elif style == 'denselines':
        for r in rng.sample(range(nr), min(nr, rng.randrange(0, 3))):
            for c in range(nc):
                bits[r][c] = True
        for c in rng.sample(range(nc), min(nc, rng.randrange(0, 3))):
            for r in range(nr):
                bits[r][c] = True
    dens = rng.choice([0.0, 0.03, 0.1, 0.3]) if style != 'random' else rng.choice([0.05, 0.15, 0.3, 0.6])
    drop = rng.choice([0.0, 0.0, 0.1])
    code = 0
    for r in range(nr):
        for c in range(nc):
            b = bits[r][c]
            if rng.random() < dens:
                b = True
            if b and rng.random() < drop:
                b = False
            if b:
                code |= 1 << (r * nc + c)
    return code


def totals_case(rng, n=None):
    n = n or rng.randrange(2, 8)
    style = rng.choice(['arrow', 'arrow', 'random', 'arrowT'])
    A = [[0] * n for _ in range(n)]
    for i in range(n):
        A[i][i] = rng.randrange(1, 10)
    if style in ('arrow', 'arrowT'):
        for i in range(n):
            A[0][i] = rng.randrange(1, 10)
            A[i][0] = rng.randrange(1, 10)
        if style == 'arrowT':
            A = [list(r) for r in zip(*A)]
            A = A[::-1]
            A = [r[::-1] for r in A]
    else:
        for r in range(n):
            for c in range(n):
                if rng.random() < 0.3:
                    A[r][c] = rng.randrange(1, 10)
    sc = lambda m: [rng.choice([1, 2, 4, 8, 3, 5, 0.5, 0.25]) for _ in range(m)]
    return {'kind': 'totals', 'A': A, 'mode': rng.choice(['auto', 'auto', 'fwd', 'rev']),
            'direct': rng.random() < 0.4,
            'con_scaler': rng.choice([None, sc(n - 1), sc(n - 1)]),
            'dv_scaler': rng.choice([None, None, sc(n)])}


def hist_case(rng):
    n1, n2 = rng.randrange(1, 4), rng.randrange(1, 4)
    m1, m2 = rng.randrange(1, 4), rng.randrange(1, 4)
    nr, nc = 1 + m1 + m2, n1 + n2
    A = [[0] * nc for _ in range(nr)]
    for r in range(nr):
        for c in range(nc):
            if r == 0 or c == 0 or (r - 1) % nc == c or rng.random() < 0.15:
                A[r][c] = rng.randrange(1, 10)
    ofs, wrts = ['f', 'y1', 'y2'], ['x1', 'x2']

    def pick(names):
        k = rng.random()
        if k < 0.35:
            return None
        sub = rng.sample(names, rng.randrange(1, len(names) + 1))
        return sub
    calls = [{'of': None, 'wrt': None, 'ds': False}]
    for _ in range(rng.randrange(2, 5)):
        of, wrt = pick(ofs), pick(wrts)
        if rng.random() < 0.6:            # exactly one of the two lists is custom
            if rng.random() < 0.5:
                of, wrt = (of or rng.sample(ofs, 3)), None
            else:
                of, wrt = None, (wrt or rng.sample(wrts, 2))
        calls.append({'of': of, 'wrt': wrt, 'ds': rng.random() < 0.3})
    sc = lambda m: [rng.choice([1, 2, 4, 0.5]) for _ in range(m)]
    return {'kind': 'totals_hist', 'A': A, 'n1': n1, 'm1': m1, 'mode': rng.choice(['auto', 'fwd', 'rev']),
            'direct': rng.random() < 0.5, 's1': rng.choice([None, sc(n1)]), 's2': rng.choice([None, sc(m2)]),
            'calls': calls}


def degenerate_points(rng, names, n):
    """first point: inputs exactly 0.0 (most entries); later points: away from 0"""
    pts = []
    first = {v: [0 if rng.random() < 0.8 else rng.randrange(1, 4) for _ in range(n)] for v in names}
    pts.append(first)
    for _ in range(rng.randrange(1, 3)):
        pts.append({v: [rng.choice([-3, -2, -1, 1, 2, 3, 4]) for _ in range(n)] for v in names})
    return pts


def execcomp_case(rng):
    expr = rng.choice(['sq', 'two', 'cube', 'rev'])
    names = {'sq': ['x', 'w', 'a'], 'two': ['x', 'w', 'z'], 'cube': ['x', 'w', 'z'], 'rev': ['x', 'w']}[expr]
    n = rng.randrange(2, 6)
    return {'kind': 'execcomp', 'expr': expr, 'n': n, 'points': degenerate_points(rng, names, n)}


def nlcomp_case(rng):
    nr, nc = rng.randrange(2, 6), rng.randrange(2, 6)
    mk = lambda: [[rng.randrange(1, 5) if (r % nc == c or rng.random() < 0.2) else 0 for c in range(nc)]
                  for r in range(nr)]
    method = rng.choice(['cs', 'cs', 'cs', 'fd'])
    pts = degenerate_points(rng, ['x', 'w'], nc)
    if method == 'fd':
        # a forward difference cannot resolve the product of two ~1e-9 perturbations around 0 (sampling
        # limit of fd, present in the pinned source as well): fd histories start away from 0
        pts = pts[1:] + [pts[1]]
    return {'kind': 'nlcomp', 'B': mk(), 'C': mk(), 'method': method, 'points': pts}


def multi_case(rng):
    """arrow-head total jacobian split over several response components that share the design variable:
    a diagonal + dense-column block (constraints) in one component, dense rows (objective, more constraints)
    in others; bidirectional colouring needs fewer solves than min(n_dv, n_resp)"""
    n = rng.randrange(4, 9)
    canonical = rng.random() < 0.6        # one dense column, one dense-row objective, default mode
    dense_cols = rng.sample(range(n), 1 if canonical else rng.choice([1, 1, 2]))
    v = lambda: rng.randrange(1, 10)
    diag_rows = [i for i in range(n) if i not in dense_cols] if rng.random() < 0.5 else list(range(n - 1))
    D = []
    for i in diag_rows:
        row = [0] * n
        row[i] = v()
        for dc in dense_cols:
            row[dc] = v()
        if rng.random() < 0.1:
            row[rng.randrange(n)] = v()
        D.append(row)
    blocks = [D]
    for _ in range(1 if canonical else rng.choice([1, 1, 2])):            # components with dense rows
        blocks.append([[v() for _ in range(n)] for _ in range(1 if canonical else rng.choice([1, 1, 2]))])
    if not canonical and rng.random() < 0.3:                            # a second sparse component
        blocks.append([[v() if (j == i or j in dense_cols) else 0 for j in range(n)]
                       for i in rng.sample(range(n), 2)])
    order = list(range(len(blocks)))
    if rng.random() < 0.5:
        rng.shuffle(order)
        blocks = [blocks[k] for k in order]
    dense_idx = [k for k, B in enumerate(blocks) if all(all(x != 0 for x in r) for r in B)]
    sc = lambda m: [rng.choice([1, 2, 4, 0.5]) for _ in range(m)]
    return {'kind': 'totals_multi', 'blocks': blocks, 'obj': rng.choice(dense_idx) if dense_idx else 0,
            'x': [rng.randrange(-3, 4) for _ in range(n)], 'direct': rng.random() < 0.5,
            'mode': None if canonical else rng.choice([None, None, 'fwd', 'rev']),
            'dv_scaler': rng.choice([None, None, sc(n)]),
            'con_scaler': rng.choice([None, None, sc(len(blocks[0]))]), 'ds': rng.random() < 0.3}


def resetup_case(rng):
    """2-4 configurations of one n x n jacobian with the same shape: diagonal, banded, arrow-head, permuted,
    random -- sparsity growing, shrinking and permuting between the setups of one Problem"""
    n = rng.randrange(3, 9)
    v = lambda: rng.randrange(1, 10)

    def diag():
        return [[v() if r == c else 0 for c in range(n)] for r in range(n)]

    def band(w):
        return [[v() if abs(r - c) <= w else 0 for c in range(n)] for r in range(n)]

    def arrow():
        k = rng.randrange(n)
        return [[v() if (r == c or r == k or c == k) else 0 for c in range(n)] for r in range(n)]

    def perm():
        p = list(range(n))
        rng.shuffle(p)
        return [[v() if c == p[r] else 0 for c in range(n)] for r in range(n)]

    def rnd():
        d = rng.choice([0.15, 0.3, 0.5])
        return [[v() if (r == c or rng.random() < d) else 0 for c in range(n)] for r in range(n)]
    makers = [diag, lambda: band(1), lambda: band(2), arrow, perm, rnd]
    mats = [rng.choice(makers)() for _ in range(rng.randrange(2, 5))]
    if rng.random() < 0.5:
        mats[0] = diag()                      # cheap first colouring, richer sparsity afterwards
    sc = lambda m: [rng.choice([1, 2, 4, 0.5]) for _ in range(m)]
    return {'kind': 'totals_resetup', 'mats': mats, 'mode': rng.choice([None, 'fwd', 'rev', 'auto']),
            'direct': rng.random() < 0.5, 'con_scaler': rng.choice([None, None, sc(n - 1)]),
            'ds': rng.random() < 0.3}


def subset_case(rng):
    nr, nb, nz = rng.randrange(2, 6), rng.randrange(2, 6), rng.randrange(1, 3)
    mk = lambda m: [[rng.randrange(1, 5) if (r % m == c or rng.random() < 0.2) else 0 for c in range(m)]
                    for r in range(nr)]
    hb = rng.randrange(1, 5)
    hz = rng.choice([h for h in range(0, 5) if h != hb])
    pts = [{'b0': [rng.choice([-3, -2, -1, 1, 2, 3]) for _ in range(nb)],
            'b1': [rng.choice([-3, -2, -1, 1, 2, 3]) for _ in range(nb)],
            'z': [rng.choice([-2, -1, 1, 2]) for _ in range(nz)]} for _ in range(rng.randrange(1, 3))]
    return {'kind': 'partial_subset', 'B0': mk(nb), 'B1': mk(nb), 'Cz': mk(nz), 'hb': hb, 'hz': hz,
            'fb': rng.choice(['forward', 'backward', 'central']), 'fz': rng.choice(['forward', 'backward', 'central']),
            'order': rng.randrange(2), 'points': pts}


class C03(Spec):
    pid = 'C03'
    imports = ['C03.Model']
    impl_script = 'props/C03/impl.py'
    exactness = ('E1 (integer-exact): colour groups, visiting-order check, expanded / reconstructed integer matrices, '
                 'selection made by mode=auto; the Coq validator must accept every bidirectional colouring produced '
                 'by the real MNCO_bidir')
    shard = 1500
    impl_jobs = 8
    prelude = 'From Coq Require Import Uint63.\nOpen Scope uint63_scope.\n'
    rule = ('exhaustive boolean patterns of every shape up to 3x3 / 2x4 / 4x2 (quick; 3x4, 4x3, 4x4 sampled) and up to '
            '4x4 = 65536 patterns (thorough), structured random patterns up to 12x12 and up to 40x40; each through the '
            'real _compute_coloring fwd, rev, auto x {direct, substitution} and the raw MNCO_bidir x {direct, '
            'substitution}, with an integer matrix of that pattern reconstructed through the real '
            '_expand_jac / colored_jac_iter / simul_coloring_jac_setter / _apply_subtractions and an arbitrary integer '
            'compressed matrix expanded; plus real om.Problem coloured-vs-uncoloured compute_totals with per-element '
            'scalers and coloured fd partials; histories of compute_totals calls (driver order first, so that the driver '
            'colouring is cached, then custom / reordered / subset of and wrt lists) coloured vs uncoloured; ExecComp '
            'built-in colouring and declare_coloring on cs/fd partials with the sparsity sampled at a degenerate point '
            '(inputs exactly 0, vanishing derivatives) and re-linearised elsewhere, vs the uncoloured twin; arrow-head '
            'totals split over several response components sharing one design variable with the problem mode left at '
            'its default (bidirectional driver colouring, fwd and rev solves in one compute_totals); histories of 2-4 '
            'setups of the same Problem with the component sparsity changed in between (same names and sizes); partial '
            'colouring declared on a subset of the inputs next to fd partials with other options, both orders; a case is '
            'non-trivial when distinct')
    assumptions = ['the linear solves that produce the compressed products are replaced by exact matrix products '
                   '(M @ seed); their correctness is property C01',
                   'MNCO_bidir is not modelled: every one of its outputs is checked by the proved-sound validator']

    def __init__(self):
        self._res = {}

    def gen(self, tier, rng):
        cases = []
        quick = tier == 'quick'
        for nr in range(1, 5):
            for nc in range(1, 5):
                n = nr * nc
                if n <= 9 or not quick:
                    for code in range(1 << n):          # exhaustive
                        cases.append(pat_case(nr, nc, code, rng, zero_prob=0.05))
                else:                                   # quick: 3x4, 4x3, 4x4 sampled
                    for _ in range(1200):
                        cases.append(pat_case(nr, nc, rng.getrandbits(n), rng, zero_prob=0.05))
        for _ in range(300 if quick else 2000):
            nr, nc = rng.randrange(3, 13), rng.randrange(3, 13)
            cases.append(pat_case(nr, nc, structured_code(nr, nc, rng), rng))
        for _ in range(12 if quick else 80):
            nr, nc = rng.randrange(13, 41), rng.randrange(13, 41)
            cases.append(pat_case(nr, nc, structured_code(nr, nc, rng), rng))
        for _ in range(80 if quick else 600):
            cases.append(totals_case(rng))
        for _ in range(30 if quick else 300):
            nr, nc = rng.randrange(1, 8), rng.randrange(1, 8)
            code = structured_code(nr, nc, rng)
            A = [[rng.randrange(1, 10) if (code >> (r * nc + c)) & 1 else 0 for c in range(nc)] for r in range(nr)]
            cases.append({'kind': 'partials', 'A': A, 'x': [rng.randrange(-4, 5) for _ in range(nc)]})
        for _ in range(40 if quick else 300):
            cases.append(hist_case(rng))
        for _ in range(40 if quick else 300):
            cases.append(execcomp_case(rng))
        for _ in range(30 if quick else 200):
            cases.append(nlcomp_case(rng))
        for _ in range(50 if quick else 400):
            cases.append(multi_case(rng))
        for _ in range(40 if quick else 300):
            cases.append(resetup_case(rng))
        for _ in range(40 if quick else 300):
            cases.append(subset_case(rng))
        return cases

    def search_gen(self, tier, rng):
        return self.gen('quick', rng)

    def compare_case(self, case, res):
        if res.get('res', '__none__') == '__none__':
            return False
        self._res[id(case)] = res
        return True

    def got_term(self, c):
        res = self._res[id(c)]
        raw = res['raw']
        nr, nc = c['nr'], c['nc']

        def bid(r, n):
            subs = [p + [v for ab in l for v in ab] for p, l in r['subs']]
            return '%s %s %s %s %s %d' % (grp(r['fg']), grp(r['fnz']), grp(r['rg']), grp(r['rnz']), grp(subs), n)
        return '(run_pat %d %d %s %s %s  %s  %s  %s)' % (
            nr, nc, code_words(c['code']), words([v + 512 for v in c['M']]), words([v + 512 for v in c['cj']]),
            bid(raw['d'], raw['nd']), bid(raw['s'], raw['ns']), words(res['res']))

    def want_term(self, c, res):
        return '(VB true)'

    def shrink(self, c):
        # few candidates per round: every candidate builds two real Problems
        if c['kind'] == 'totals':
            if c.get('dv_scaler') is not None:
                yield dict(c, dv_scaler=None)
            A = c['A']
            if any(v not in (0, 1) for r in A for v in r):
                yield dict(c, A=[[1 if v else 0 for v in r] for r in A])
            sc = c.get('con_scaler')
            if sc is not None and sum(1 for v in sc if v != 1) > 1:
                for k, v in enumerate(sc):
                    if v != 1:
                        yield dict(c, con_scaler=[v if j == k else 1 for j in range(len(sc))])


def main(tier):
    return standard_check(C03(), tier)
