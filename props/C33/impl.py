"""C33 implementation side: real DefaultVectors of a real om.Problem, driven by the generated op sequence.

Oracle (the property's text): every vector operation acts on the flat data exactly like the corresponding
NumPy operation on a plain ndarray mirror (offsets/ranges of sub-system vectors and named variables are
taken from the generator's independent layout prediction), named views alias the right slices, and a
scale_to_norm / scale_to_phys pair returns the original data."""
import warnings
from fractions import Fraction
import numpy as np
from implutil import main, q

warnings.simplefilter('ignore')
import openmdao.api as om  # noqa: E402
from openmdao.utils.units import add_unit, add_offset_unit  # noqa: E402
from openmdao.utils.om_warnings import reset_warning_registry  # noqa: E402,F401

warnings.filterwarnings('ignore')
add_unit('dyA', '4*m')
add_unit('dyB', '0.5*m')
add_offset_unit('dyO', 'm', 2.0, 8.0)

KINDS = ['input', 'output', 'residual']
VECS = ['nonlinear', 'linear']


def fr(x):
    if isinstance(x, dict):
        return Fraction(x['q'][0], x['q'][1])
    return Fraction(x)


def fl(x):
    if isinstance(x, list):
        return np.array([float(fr(v)) for v in x])
    return float(fr(x))


def cval(v, cplx):
    a, b = float(fr(v[0])), float(fr(v[1]))
    return complex(a, b) if (cplx or b != 0) else a


def carr(vs, cplx):
    return np.array([cval(v, cplx) for v in vs], dtype=complex if cplx else float)


class Comp(om.ExplicitComponent):
    def __init__(self, node):
        super().__init__()
        self.node = node

    def setup(self):
        for v in self.node['inputs']:
            self.add_input(v['name'], np.ones(tuple(v['shape'])), units=v['units'])
        for v in self.node['outputs']:
            kw = {}
            if v['res_ref'] is not None:
                r = fl(v['res_ref'])
                kw['res_ref'] = r.reshape(tuple(v['shape'])) if isinstance(r, np.ndarray) else r
            ref, ref0 = fl(v['ref']), fl(v['ref0'])
            if isinstance(ref, np.ndarray):
                ref = ref.reshape(tuple(v['shape']))
            if isinstance(ref0, np.ndarray):
                ref0 = ref0.reshape(tuple(v['shape']))
            self.add_output(v['name'], np.ones(tuple(v['shape'])), ref=ref, ref0=ref0, units=v['units'], **kw)

    def compute(self, inputs, outputs):
        pass


def add_tree(group, tree):
    for n in tree:
        if n['type'] == 'comp':
            group.add_subsystem(n['name'], Comp(n))
        else:
            add_tree(group.add_subsystem(n['name'], om.Group()), n['children'])


def prod(sh):
    n = 1
    for d in sh:
        n *= d
    return n


def node_layout(node, path, io):
    if node['type'] == 'comp':
        return [(path + '.' + v['name'], prod(v['shape']), tuple(v['shape'])) for v in node[io + 's']]
    out = []
    for ch in sorted(node['children'], key=lambda n: n['name']):
        out += node_layout(ch, (path + '.' if path else '') + ch['name'], io)
    return out


def io_of(kind):
    return 'input' if kind == 'input' else 'output'


def slot(kind, vn):
    return 2 * KINDS.index(kind) + VECS.index(vn)


def py_idx(ix):
    t = ix['t']
    if t == 'full':
        return slice(None)
    if t == 'slice':
        return slice(*ix['v'])
    if t == 'int':
        return int(ix['v'])
    return np.array(ix['v'], dtype=int)


def canon_c(arr):
    a = np.asarray(arr).ravel()
    return [[q(float(z.real)) for z in a], [q(float(z.imag)) for z in a]]


def obs_data(arr):
    a = np.asarray(arr).ravel()
    im = [float(z.imag) for z in a]
    return [[q(float(z.real)) for z in a], [] if all(v == 0 for v in im) else [q(v) for v in im]]


class Fail(Exception):
    def __init__(self, sig, msg):
        self.sig, self.msg = sig, msg


def same(a, b):
    a, b = np.asarray(a), np.asarray(b)
    return a.shape == b.shape and bool(np.all(a == b))


def handle(case):
    spec = case['spec']
    root_node = {'type': 'group', 'children': spec['tree'], 'name': ''}
    p = om.Problem()
    add_tree(p.model, spec['tree'])
    for s, t in spec['conns']:
        p.model.connect(s, t)
    p.setup(force_alloc_complex=bool(spec['alloc_complex']))
    p.final_setup()
    m = p.model

    # ---- predicted layout (independent of the vector classes) must be the system's variable order
    nodes = {'': root_node}

    def walk(tree, prefix):
        for n in tree:
            nodes[prefix + n['name']] = n
            if n['type'] == 'group':
                walk(n['children'], prefix + n['name'] + '.')
    walk(spec['tree'], '')
    lay = {(path, io): node_layout(n, path, io) for path, n in nodes.items() for io in ('input', 'output')}
    for io in ('input', 'output'):
        got = [(nm, int(meta['size'])) for nm, meta in m._var_abs2meta[io].items() if not nm.startswith('_auto_ivc.')]
        if got != [(nm, sz) for nm, sz, _ in lay[('', io)]]:
            raise RuntimeError('generator layout prediction differs from system metadata: %r vs %r' % (got, lay[('', io)]))
    if any(nm.startswith('_auto_ivc.') for nm in m._var_abs2meta['output']):
        raise RuntimeError('unexpected auto_ivc variables')
    root_pos = {io: {} for io in ('input', 'output')}
    for io in ('input', 'output'):
        s = 0
        for nm, sz, sh in lay[('', io)]:
            root_pos[io][nm] = (s, s + sz)
            s += sz

    def sysobj(path):
        return m._get_subsystem(path) if path else m

    def vec(path, kind, vn):
        return sysobj(path)._vectors[kind][vn]

    def span(path, io):
        l = lay[(path, io)]
        if not l:
            return (0, 0)
        return (root_pos[io][l[0][0]][0], root_pos[io][l[-1][0]][1])

    roots = {slot(k, v): m._vectors[k][v] for k in KINDS for v in VECS}
    mirror = {}
    for s, rv in roots.items():
        cplx = spec['alloc_complex'] and s % 2 == 0
        if np.iscomplexobj(rv._data) != bool(cplx):
            raise RuntimeError('complex allocation differs from prediction')
        init = carr(case['init'][str(s)], cplx)
        if len(init) != len(rv._data):
            raise RuntimeError('root size differs from prediction')
        rv._data[:] = init
        mirror[s] = init.copy()

    def mview(path, kind, vn, cs):
        a, b = span(path, io_of(kind))
        v = mirror[slot(kind, vn)][a:b]
        if len(lay[(path, io_of(kind))]) == 0:
            v = np.zeros(0)
        return v if cs else v.real

    # scaling arrays of the real root vectors (inputs of the model's scale operations)
    aux = {'steps': [], 'scal': [], 'set_scaling': []}
    for s in range(6):
        sc = roots[s]._scaling
        if sc is None:
            aux['scal'].append([None, None])
        else:
            aux['scal'].append([[q(float(x)) for x in sc[0]], None if sc[1] is None else [q(float(x)) for x in sc[1]]])
    do_adder = {'input': m._has_input_adder, 'output': m._has_output_adder, 'residual': m._has_resid_scaling}
    want_scaling = []
    for kind in KINDS:
        nl, ln = m._vectors[kind]['nonlinear'], m._vectors[kind]['linear']
        if nl._scaling is None:
            aux['set_scaling'].append(None)
            want_scaling.append(None)
            continue
        facs = []
        for nm, _, _ in lay[('', io_of(kind))]:
            f = (m._scale_factors or {}).get(nm, {})
            if kind in f:
                a0, a1, factor, offset = f[kind]
                facs.append([nm, [[q(float(x)) for x in np.atleast_1d(a0).ravel()],
                                  [q(float(x)) for x in np.atleast_1d(a1).ravel()],
                                  None if factor is None else [q(float(factor)), q(float(offset))]]])
        aux['set_scaling'].append({'factors': facs, 'do_adder': bool(do_adder[kind]),
                                   'solver_ref': bool(ln._has_solver_ref)})
        want_scaling.append([[q(float(x)) for x in nl._scaling[0]],
                             None if nl._scaling[1] is None else [q(float(x)) for x in nl._scaling[1]],
                             [q(float(x)) for x in ln._scaling[0]]])

    ok, msg, sig = True, '', ''
    obs_list = []
    saved = None
    try:
        for k, st in enumerate(case['steps']):
            op = st['op']
            path, kind, vn, cs = st['sys'], st['kind'], st['vec'], bool(st['cs'])
            v = vec(path, kind, vn)
            s = slot(kind, vn)
            cplx = np.iscomplexobj(v._data)
            a = {}
            aux['steps'].append(a)
            if op == 'cs':
                v.set_complex_step_mode(bool(st['on']))
                continue
            if v._under_complex_step != cs:
                raise RuntimeError('complex-step flag bookkeeping')
            mv = mview(path, kind, vn, cs)                      # asarray()-like view of the mirror
            a0, b0 = span(path, io_of(kind))
            mraw = mirror[s][a0:b0] if lay[(path, io_of(kind))] else np.zeros(0)   # _data-like view
            obs = None
            desc = '%s on %s/%s/%s' % (op, path or '<root>', kind, vn)
            if op in ('set_val', 'iadd', 'isub', 'imul'):
                idx = py_idx(st['idx'])
                vc = cplx if op == 'set_val' else cs
                val = cval(st['val'][0], vc) if st['scalar'] else carr(st['val'], vc)
                if op == 'set_val':
                    v.set_val(val, idx) if st['idx']['t'] != 'full' or k % 2 else v.set_val(val)
                    mraw[idx] = val
                elif op == 'iadd':
                    v.iadd(val, idx)
                    mv[idx] += val
                elif op == 'isub':
                    v.isub(val, idx)
                    mv[idx] -= val
                else:
                    v.imul(val, idx)
                    mv[idx] *= val
            elif op == 'inpl_val':
                val = cval(st['val'][0], cs) if st['scalar'] else carr(st['val'], cs)
                if st['k'] == 'add':
                    v += val
                    mv += val
                elif st['k'] == 'sub':
                    v -= val
                    mv -= val
                else:
                    v *= val
                    mv *= val
            elif op in ('inpl_vec', 'add_scal_vec', 'set_vec', 'dot'):
                o = vec(st['o_sys'], st['o_kind'], st['o_vec'])
                if o._under_complex_step != bool(st['o_cs']):
                    raise RuntimeError('complex-step flag bookkeeping (operand)')
                mo = mview(st['o_sys'], st['o_kind'], st['o_vec'], bool(st['o_cs']))
                if op == 'inpl_vec':
                    if st['k'] == 'add':
                        v += o
                        mv += mo
                    elif st['k'] == 'sub':
                        v -= o
                        mv -= mo
                    else:
                        v *= o
                        mv *= mo
                elif op == 'add_scal_vec':
                    c = cval(st['c'], cs)
                    v.add_scal_vec(c, o)
                    mv += c * mo
                elif op == 'set_vec':
                    v.set_vec(o)
                    mraw[:] = mo
                else:
                    r = v.dot(o)
                    ref = np.dot(mv, mo)
                    if not (r == ref):
                        raise Fail('dot', '%s: dot returned %r, NumPy %r' % (desc, r, ref))
                    obs = [q(float(np.real(r))), q(float(np.imag(r)))]
            elif op == 'norm':
                r = v.get_norm()
                ref = np.linalg.norm(mv)
                if not (r == ref):
                    raise Fail('norm', '%s: get_norm returned %r, NumPy %r' % (desc, r, ref))
                a['norm'] = q(float(r))
                obs = True
            elif op in ('get', 'abs_set', 'set_var'):
                nm = st['name']
                io = io_of(kind)
                ra, rb = root_pos[io][nm]
                shape = tuple(st['shape'])
                rel = nm[len(path) + 1:] if path else nm
                mfull = mirror[s][ra:rb]
                if op == 'get':
                    how = st['how']
                    if how == 'abs_flat':
                        r = v._abs_get_val(nm, flat=True)
                        ref = mfull if cs else mfull.real
                    elif how == 'abs':
                        r = v._abs_get_val(nm, flat=False)
                        ref = (mfull if cs else mfull.real).reshape(shape)
                    elif how == 'getitem':
                        r = v[rel]
                        ref = (mfull if cs else mfull.real).reshape(shape)
                    else:
                        r = v.get_val(nm, flat=False)
                        ref = (mfull if cs else mfull.real).reshape(shape)
                    if not same(r, ref):
                        raise Fail('named-get', '%s %s(%s) returned %r, the slice [%d:%d] of the flat data is %r' % (
                            desc, how, nm, np.asarray(r).tolist(), ra, rb, np.asarray(ref).tolist()))
                    if not np.shares_memory(r, roots[s]._data):
                        raise Fail('named-get-alias', '%s %s(%s) is not a view of the root array' % (desc, how, nm))
                    obs = canon_c(r)
                elif op == 'abs_set':
                    idx = py_idx(st['idx'])
                    val = cval(st['val'][0], cs) if st['scalar'] else carr(st['val'], cs)
                    tgt = mfull if cs else mfull.real
                    if st['idx']['t'] == 'full':
                        if not st['scalar']:
                            val = val.reshape(shape)
                        v._abs_set_val(nm, val)
                        tgt.reshape(shape)[...] = val
                    else:
                        v._abs_set_val(nm, val, idx)
                        tgt[idx] = val
                else:
                    how = st['how']
                    val = cval(st['val'][0], cplx) if st['scalar'] else carr(st['val'], cplx)
                    if how == 'flat':
                        idx = py_idx(st['idx'])
                        v.set_var(rel, val, idx, flat=True)
                        mfull[idx] = val
                    else:
                        if not st['scalar']:
                            val = val.reshape(shape)
                        if how == 'setitem':
                            v[rel] = val
                        else:
                            v.set_var(rel, val)
                        mfull.reshape(shape)[...] = val
            elif op == 'get_slice':
                r = v.get_slice(slice(st['a'], st['b']))
                ref = mv[st['a']:st['b']]
                if not same(r, ref):
                    raise Fail('get_slice', '%s returned %r, NumPy %r' % (desc, r.tolist(), ref.tolist()))
                obs = canon_c(r)
            elif op == 'add_to_slice':
                val = carr(st['val'], cs)
                v.add_to_slice(slice(st['a'], st['b']), val)
                mv[st['a']:st['b']] += val
            elif op == 'set_vals':
                vals = [carr(x, cplx).reshape(sh) for x, (_, _, sh) in zip(st['vals'], lay[(path, io_of(kind))])]
                v.set_vals(vals)
                if vals:
                    mraw[:] = np.concatenate([x.ravel() for x in vals])
            elif op == 'scale':
                if v._scaling is None:
                    a['skip'] = True
                    continue
                a['sref'] = bool(v._has_solver_ref)
                if st['pair'] == 0:
                    saved = roots[s]._data.copy()
                (v.scale_to_norm if st['to'] == 'norm' else v.scale_to_phys)(st['mode'])
                if st['pair'] == 1:
                    if not same(roots[s]._data, saved):
                        raise Fail('scale-roundtrip', '%s: scaling there and back (mode %s, ending with to_%s) changed the data: %r -> %r' % (
                            desc, st['mode'], st['to'], saved.tolist(), roots[s]._data.tolist()))
                    mirror[s][:] = roots[s]._data
                else:
                    mirror[s][:] = roots[s]._data        # intermediate state: covered by the model comparison
            else:
                raise RuntimeError('unknown op ' + op)
            # the whole root array must equal the NumPy mirror after every operation
            if not (op == 'scale' and st['pair'] == 0) and not same(roots[s]._data, mirror[s]):
                raise Fail(op, '%s (step %d): root data %r, NumPy reference %r' % (
                    desc, k, roots[s]._data.tolist(), mirror[s].tolist()))
            obs_list.append([obs, obs_data(v._data)])
        # ---- at the end: no other array was disturbed, every named view of every vector aliases its slice
        for s2 in range(6):
            if not same(roots[s2]._data, mirror[s2]):
                raise Fail('side-effect', 'root array of slot %d is %r, NumPy reference %r' % (
                    s2, roots[s2]._data.tolist(), mirror[s2].tolist()))
        for path in nodes:
            for kind in KINDS:
                for vn in VECS:
                    v = vec(path, kind, vn)
                    s2 = slot(kind, vn)
                    names = [nm for nm, _, _ in lay[(path, io_of(kind))]]
                    if list(v._views) != names:
                        raise Fail('views', 'vector %s/%s/%s holds %r, expected %r' % (path, kind, vn, list(v._views), names))
                    a0, b0 = span(path, io_of(kind))
                    if names and not (same(v._data, mirror[s2][a0:b0]) and np.shares_memory(v._data, roots[s2]._data)):
                        raise Fail('subvector-alias', 'vector %s/%s/%s is not the slice [%d:%d] of the root array' % (
                            path, kind, vn, a0, b0))
                    for nm, sz, sh in lay[(path, io_of(kind))]:
                        ra, rb = root_pos[io_of(kind)][nm]
                        vi = v._views[nm]
                        if not (same(vi.flat, mirror[s2][ra:rb]) and same(vi.view, mirror[s2][ra:rb].reshape(sh))
                                and np.shares_memory(vi.flat, roots[s2]._data)
                                and tuple(r + a0 for r in vi.range) == (ra, rb)):
                            raise Fail('view-alias', 'view %s of vector %s/%s/%s does not alias root[%d:%d]' % (
                                nm, path, kind, vn, ra, rb))
    except Fail as f:
        ok, msg, sig = False, f.msg, f.sig
    if not ok:
        return {'res': '__none__', 'ok': False, 'msg': msg, 'sig': 'C33:' + sig, 'kind': 'ops'}
    final = [obs_data(roots[s]._data) for s in range(6)]
    res = [[obs_list, final]] + want_scaling
    return {'res': res, 'ok': True, 'msg': '', 'sig': '', 'kind': 'ops:' + ('cplx' if spec['alloc_complex'] else 'real'),
            'aux': aux}


if __name__ == '__main__':
    main(handle)
