"""C33 — vector arithmetic, named views, sub-vector views and scaling round-trips (DefaultVector / Vector)."""
import copy
from fractions import Fraction
import core
from core import Spec, standard_check, qlit, boollit

SHAPES = [[1], [2], [3], [2, 2], [1, 2], [2, 1, 2], [4]]
NAMES = ['a', 'b', 'c', 'd', 'e', 'f', 'g', 'h', 'k', 'm', 'q', 'z', 'aa', 'ab', 'b2', 'c_x', 'zz', 'e1']
KINDS = ['input', 'output', 'residual']
VECS = ['nonlinear', 'linear']
UNITS = [None, 'm', 'dyA', 'dyB', 'dyO']


def prod(sh):
    n = 1
    for d in sh:
        n *= d
    return n


# ----------------------------------------------------------------------------- model specs

def gen_spec(rng):
    profile = rng.choice(['none', 'out', 'units', 'full', 'full', 'full'])
    names = rng.sample(NAMES, 8)
    ncomp = rng.randrange(2, 6)
    comps = []

    def mk_comp(name):
        c = {'name': name, 'type': 'comp', 'inputs': [], 'outputs': []}
        comps.append(c)
        return c

    tree, k = [], 0
    left = ncomp
    while left > 0:
        if left >= 2 and rng.random() < 0.5:
            g = {'name': names[k], 'type': 'group', 'children': []}
            k += 1
            sub = rng.sample(NAMES, 4)
            n_in = rng.randrange(1, min(3, left) + 1)
            for j in range(n_in):
                if j == 0 and left - n_in >= 0 and n_in >= 2 and rng.random() < 0.3:
                    gg = {'name': sub[j], 'type': 'group', 'children': [mk_comp(rng.choice(NAMES))]}
                    g['children'].append(gg)
                else:
                    g['children'].append(mk_comp(sub[j]))
            left -= n_in
            tree.append(g)
        else:
            tree.append(mk_comp(names[k]))
            k += 1
            left -= 1

    P = [Fraction(1, 4), Fraction(1, 2), Fraction(1), Fraction(2), Fraction(4), Fraction(8)]
    P = P + [-x for x in P]
    # (ref, ref0) with ref, ref - ref0 both +-2^j: every scaler (ref - ref0, and ref as the default res_ref)
    # is a power of two, so that scaling arithmetic is exact in binary64
    PAIRS = [(r, r0) for r in P for r0 in P + [Fraction(0)] * 6 if (r - r0) in P]

    def dy(rng_):
        return rng_.choice(P)

    # outputs first
    for c in comps:
        for j in range(rng.randrange(1, 4)):
            sh = rng.choice(SHAPES)
            o = {'name': 'o%d' % j, 'shape': sh, 'ref': 1, 'ref0': 0, 'res_ref': None, 'units': None}
            if profile in ('out', 'full') and rng.random() < 0.7:
                n = prod(sh)
                if rng.random() < 0.3:
                    prs = [rng.choice(PAIRS) for _ in range(n)]
                    o['ref'] = [a for a, _ in prs]
                    o['ref0'] = [b for _, b in prs] if rng.random() < 0.6 else 0
                    if o['ref0'] == 0:
                        o['ref'] = [dy(rng) for _ in range(n)]
                else:
                    o['ref'], o['ref0'] = rng.choice(PAIRS)
                if rng.random() < 0.5:
                    o['res_ref'] = [dy(rng) for _ in range(n)] if rng.random() < 0.3 else dy(rng)
            if profile in ('units', 'full') and rng.random() < 0.7:
                o['units'] = rng.choice(UNITS)
            c['outputs'].append(o)
    # inputs: each copies the shape of an output of ANOTHER component and is connected to it
    conns = []
    paths = comp_paths(tree)
    for c in comps:
        others = [(paths[id(d)], o) for d in comps if d is not c for o in d['outputs']]
        for j in range(rng.randrange(1, 4)):
            sp, so = rng.choice(others)
            u = None
            if so['units'] is not None and rng.random() < 0.8:
                u = rng.choice(UNITS[1:])
            c['inputs'].append({'name': 'i%d' % j, 'shape': so['shape'], 'units': u})
            conns.append([sp + '.' + so['name'], paths[id(c)] + '.i%d' % j])
    spec = {'tree': tree, 'conns': conns, 'alloc_complex': rng.random() < 0.5}
    return jsonable(spec)


def jsonable(x):
    if isinstance(x, Fraction):
        return {'q': [x.numerator, x.denominator]}
    if isinstance(x, dict):
        return {k: jsonable(v) for k, v in x.items()}
    if isinstance(x, (list, tuple)):
        return [jsonable(v) for v in x]
    return x


def comp_paths(tree, prefix=''):
    out = {}
    for n in tree:
        p = prefix + n['name']
        if n['type'] == 'comp':
            out[id(n)] = p
        else:
            out.update(comp_paths(n['children'], p + '.'))
    return out


def systems(tree, prefix=''):
    """[(path, node)] of all systems below the root, depth first."""
    out = []
    for n in tree:
        p = prefix + n['name']
        out.append((p, n))
        if n['type'] == 'group':
            out += systems(n['children'], p + '.')
    return out


def node_layout(node, path, io):
    """Predicted variable order of a system: children sorted by name at every level, variables of a
    component in declaration order (Group._setup_var_data sorts sub-systems alphabetically)."""
    if node['type'] == 'comp':
        return [(path + '.' + v['name'], prod(v['shape']), v['shape']) for v in node[io + 's']]
    out = []
    for ch in sorted(node['children'], key=lambda n: n['name']):
        out += node_layout(ch, (path + '.' if path else '') + ch['name'], io)
    return out


def chain_layouts(spec, path, io):
    """layouts from the root vector down to the vector of system `path` ('' = root)."""
    root = {'type': 'group', 'children': spec['tree'], 'name': ''}
    chain = [node_layout(root, '', io)]
    if path:
        node, cur = root, ''
        for part in path.split('.'):
            node = [c for c in node['children'] if c['name'] == part][0]
            cur = (cur + '.' if cur else '') + part
            chain.append(node_layout(node, cur, io))
    return chain


def io_of(kind):
    return 'input' if kind == 'input' else 'output'


# ----------------------------------------------------------------------------- op sequences

def rnd_val(rng, cplx):
    v = rng.randrange(-6, 7)
    if rng.random() < 0.15:
        v = Fraction(rng.randrange(-9, 10), 2)
    if cplx:
        return [v, rng.randrange(-4, 5)]
    return [v, 0]


def rnd_idx(rng, L):
    """(python-side description, positions)"""
    k = rng.random()
    if k < 0.3 or L == 0:
        return {'t': 'full'}, list(range(L))
    if k < 0.6:
        a = rng.choice([None] + list(range(-L, L + 1)))
        b = rng.choice([None] + list(range(-L, L + 1)))
        st = rng.choice([None, None, 1, 2, -1])
        return {'t': 'slice', 'v': [a, b, st]}, list(range(L)[slice(a, b, st)])
    if k < 0.7:
        i = rng.randrange(-L, L)
        return {'t': 'int', 'v': i}, [i % L]
    n = rng.randrange(0, 5)
    arr = [rng.randrange(-L, L) for _ in range(n)]
    return {'t': 'arr', 'v': arr}, [i % L for i in arr]


def gen_steps(spec, rng):
    syss = [('', None)] + systems(spec['tree'])
    alloc = spec['alloc_complex']
    cs = {}
    steps = []
    nsteps = rng.randrange(3, 11)

    def vec_info(path, kind, vn):
        chain = chain_layouts(spec, path, io_of(kind))
        return chain, sum(s for _, s, _ in chain[-1])

    def is_cplx(vn):
        return alloc and vn == 'nonlinear'

    def pick_other(L, allow_cs):
        cands = []
        for p2, _ in syss:
            for k2 in KINDS:
                for v2 in VECS:
                    ch2, L2 = vec_info(p2, k2, v2)
                    if L2 == L and (allow_cs or not cs.get((p2, k2, v2), False)):
                        cands.append((p2, k2, v2))
        return rng.choice(cands)

    # complex-step phase (complex allocation only): one nonlinear vector, and often its output/residual twin, is
    # switched into complex-step mode first and most of the following operations go through it, so that every
    # vector operation is also exercised on data with non-zero imaginary parts
    focus = None
    if alloc and rng.random() < 0.6:
        cands = [(p_, k_) for p_, _ in syss for k_ in KINDS if vec_info(p_, k_, 'nonlinear')[1] > 0]
        fp, fk = rng.choice(cands)
        focus = (fp, fk, 'nonlinear')
        cs[focus] = True
        steps.append({'sys': fp, 'kind': fk, 'vec': 'nonlinear', 'cs': False, 'op': 'cs', 'on': True})
        if fk != 'input' and rng.random() < 0.6:
            k2 = 'residual' if fk == 'output' else 'output'
            cs[(fp, k2, 'nonlinear')] = True
            steps.append({'sys': fp, 'kind': k2, 'vec': 'nonlinear', 'cs': False, 'op': 'cs', 'on': True})
        nsteps += len(steps) + 1
    FOCUS_OPS = ['dot', 'dot', 'dot', 'norm', 'add_scal_vec', 'imul', 'iadd', 'isub', 'set_val', 'inpl_vec',
                 'inpl_val', 'set_vec', 'get', 'get_slice', 'add_to_slice', 'abs_set', 'scale', 'cs']

    while len(steps) < nsteps:
        on_focus = focus is not None and rng.random() < 0.75
        if on_focus:
            path, kind, vn = focus
        else:
            path = rng.choice(syss)[0]
            kind, vn = rng.choice(KINDS), rng.choice(VECS)
        chain, L = vec_info(path, kind, vn)
        if L == 0 and rng.random() < 0.8:
            continue
        key = (path, kind, vn)
        mycs = cs.get(key, False)
        cplx = is_cplx(vn)
        base = {'sys': path, 'kind': kind, 'vec': vn, 'cs': mycs}
        lay = chain[-1]
        op = rng.choice(FOCUS_OPS) if on_focus else rng.choice(
            ['set_val', 'set_val', 'iadd', 'isub', 'imul', 'inpl_val', 'inpl_vec', 'inpl_vec',
             'add_scal_vec', 'set_vec', 'dot', 'norm', 'get', 'get', 'abs_set', 'set_var',
             'get_slice', 'add_to_slice', 'set_vals', 'scale', 'scale', 'cs'])
        if op == 'cs':
            if not cplx:
                continue
            cs[key] = not mycs
            steps.append(dict(base, op='cs', on=cs[key]))
            continue
        if op in ('set_val', 'iadd', 'isub', 'imul'):
            idx, pos = rnd_idx(rng, L)
            vc = cplx if op == 'set_val' else mycs
            if idx['t'] == 'int' or rng.random() < 0.35:
                val = [rnd_val(rng, vc)]
                scalar = True
            else:
                val = [rnd_val(rng, vc) for _ in pos]
                scalar = False
                if len(val) == 1 and rng.random() < 0.5:
                    scalar = True
            if not scalar and len(val) == 0 and idx['t'] != 'full':
                pass
            steps.append(dict(base, op=op, idx=idx, pos=pos, val=val, scalar=scalar))
        elif op == 'inpl_val':
            k = rng.choice(['add', 'sub', 'mul'])
            scalar = rng.random() < 0.5
            val = [rnd_val(rng, mycs)] if scalar else [rnd_val(rng, mycs) for _ in range(L)]
            steps.append(dict(base, op=op, k=k, val=val, scalar=scalar))
        elif op in ('inpl_vec', 'add_scal_vec', 'set_vec', 'dot'):
            # an operand under complex step is a complex array: in-place ops need self under complex step,
            # set_vec writes self._data and needs complex storage, dot accepts anything
            allow = {'inpl_vec': mycs, 'add_scal_vec': mycs, 'set_vec': cplx, 'dot': True}[op]
            p2, k2, v2 = pick_other(L, allow)
            st = dict(base, op=op, o_sys=p2, o_kind=k2, o_vec=v2, o_cs=cs.get((p2, k2, v2), False))
            if op == 'inpl_vec':
                st['k'] = rng.choice(['add', 'sub', 'mul'])
            if op == 'add_scal_vec':
                st['c'] = rnd_val(rng, mycs)
            steps.append(st)
        elif op == 'norm':
            steps.append(dict(base, op=op))
        elif op in ('get', 'abs_set', 'set_var'):
            if not lay:
                continue
            vi = rng.randrange(len(lay))
            nm, sz, sh = lay[vi]
            st = dict(base, op=op, name=nm, shape=sh)
            if op == 'get':
                st['how'] = rng.choice(['abs_flat', 'abs', 'getitem', 'get_val'])
            elif op == 'abs_set':
                if len(sh) == 1 and rng.random() < 0.6:
                    idx, pos = rnd_idx(rng, sz)
                else:
                    idx, pos = {'t': 'full'}, list(range(sz))
                scalar = idx['t'] == 'int' or rng.random() < 0.3
                st.update(idx=idx, pos=pos, scalar=scalar,
                          val=[rnd_val(rng, mycs)] if scalar else [rnd_val(rng, mycs) for _ in pos])
            else:
                how = rng.choice(['setitem', 'set_var', 'flat'])
                if how == 'flat':
                    idx, pos = rnd_idx(rng, sz)
                    if idx['t'] == 'int':
                        idx, pos = {'t': 'arr', 'v': [idx['v']]}, pos
                    st.update(idx=idx, pos=pos, scalar=False, val=[rnd_val(rng, cplx) for _ in pos])
                else:
                    scalar = rng.random() < 0.3
                    st.update(idx={'t': 'full'}, pos=list(range(sz)), scalar=scalar,
                              val=[rnd_val(rng, cplx)] if scalar else [rnd_val(rng, cplx) for _ in range(sz)])
                st['how'] = how
            steps.append(st)
        elif op in ('get_slice', 'add_to_slice'):
            a = rng.randrange(0, L + 1)
            b = rng.randrange(a, L + 1)
            st = dict(base, op=op, a=a, b=b)
            if op == 'add_to_slice':
                st['val'] = [rnd_val(rng, mycs) for _ in range(b - a)]
            steps.append(st)
        elif op == 'set_vals':
            steps.append(dict(base, op=op, vals=[[rnd_val(rng, cplx) for _ in range(sz)] for _, sz, _ in lay]))
        elif op == 'scale':
            mode = rng.choice(['fwd', 'rev'])
            first = rng.choice(['norm', 'phys'])
            steps.append(dict(base, op='scale', to=first, mode=mode, pair=0))
            steps.append(dict(base, op='scale', to='phys' if first == 'norm' else 'norm', mode=mode, pair=1))
    return steps


def gen_case(rng):
    spec = gen_spec(rng)
    init = {}
    for ki, kind in enumerate(KINDS):
        L = sum(s for _, s, _ in chain_layouts(spec, '', io_of(kind))[0])
        for vi, vn in enumerate(VECS):
            cplx = spec['alloc_complex'] and vn == 'nonlinear'
            init['%d' % (2 * ki + vi)] = [[rng.randrange(-5, 6), rng.randrange(-3, 4) if cplx else 0] for _ in range(L)]
    return jsonable({'kind': 'ops', 'spec': spec, 'init': init, 'steps': gen_steps(spec, rng)})


# ----------------------------------------------------------------------------- Gallina emitters

def fr(x):
    if isinstance(x, dict):
        return Fraction(x['q'][0], x['q'][1])
    return Fraction(x)


def clit(v):
    return '(%s, %s)' % (qlit(fr(v[0])), qlit(fr(v[1])))


def zl(xs):
    return '[%s]' % '; '.join(('(%d)' % v) if v < 0 else '%d' % v for v in xs)


def lcd(xs):
    from math import gcd
    d = 1
    for x in xs:
        d = d * x.denominator // gcd(d, x.denominator)
    return d


def clist(vs):
    vs = [(fr(v[0]), fr(v[1])) for v in vs]
    if not vs:
        return '[]'
    d = lcd([x for v in vs for x in v])
    if all(b == 0 for _, b in vs):
        return '(crd %d %s)' % (d, zl([(a * d).numerator for a, _ in vs]))
    return '(ccd %d [%s])' % (d, '; '.join('(%d, %d)' % ((a * d).numerator, (b * d).numerator) for a, b in vs))


def qlist(vs):
    vs = [fr(v) for v in vs]
    if not vs:
        return '[]'
    d = lcd(vs)
    return '(qd %d %s)' % (d, zl([(a * d).numerator for a in vs]))


def want_val(x):
    """compact rendering of the implementation's canonical value"""
    if isinstance(x, list):
        if x and all(isinstance(e, dict) and 'q' in e for e in x):
            vs = [fr(e) for e in x]
            d = lcd(vs)
            return '(vqd %d %s)' % (d, zl([(a * d).numerator for a in vs]))
        return '(VL [%s])' % '; '.join(want_val(e) for e in x)
    return core.to_val(x)


def natlist(xs):
    return '(nl %s)' % zl([int(v) for v in xs])


class Emit:
    def __init__(self, spec):
        self.spec = spec
        self.ids = {}
        for io in ('input', 'output'):
            for k, (nm, _, _) in enumerate(chain_layouts(spec, '', io)[0]):
                self.ids[nm] = k
        self.hcache = {}

    def layout(self, lay):
        return '(lay [%s])' % '; '.join('(%d, %d)' % (self.ids[nm], sz) for nm, sz, _ in lay)

    def handle(self, path, kind):
        key = (path, io_of(kind))
        if key not in self.hcache:
            ch = chain_layouts(self.spec, path, io_of(kind))
            self.hcache[key] = ('h%d' % len(self.hcache),
                                '(mkH %s [%s])' % (self.layout(ch[0]), '; '.join(self.layout(l) for l in ch[1:])))
        return self.hcache[key][0]

    def lets(self, body):
        for nm, term in sorted(self.hcache.values(), reverse=True):
            body = '(let %s := %s in\n %s)' % (nm, term, body)
        return body

    @staticmethod
    def slot(kind, vn):
        return 2 * KINDS.index(kind) + VECS.index(vn)

    def vref(self, st):
        return '(mkV %d%%nat %s %s)' % (self.slot(st['o_kind'], st['o_vec']), self.handle(st['o_sys'], st['o_kind']),
                                        boollit(st['o_cs']))

    def idx(self, st):
        return 'None' if st['idx']['t'] == 'full' else '(Some %s)' % natlist(st['pos'])

    def step(self, st, aux):
        op = st['op']
        K = {'add': 'BAdd', 'sub': 'BSub', 'mul': 'BMul', 'iadd': 'BAdd', 'isub': 'BSub', 'imul': 'BMul'}
        if op == 'set_val':
            o = '(OSetVal %s %s)' % (clist(st['val']), self.idx(st))
        elif op in ('iadd', 'isub', 'imul'):
            o = '(OIdx %s %s %s)' % (K[op], clist(st['val']), self.idx(st))
        elif op == 'inpl_val':
            o = '(OInplVal %s %s)' % (K[st['k']], clist(st['val']))
        elif op == 'inpl_vec':
            o = '(OInplVec %s %s)' % (K[st['k']], self.vref(st))
        elif op == 'add_scal_vec':
            o = '(OAddScalVec %s %s)' % (clit(st['c']), self.vref(st))
        elif op == 'set_vec':
            o = '(OSetVec %s)' % self.vref(st)
        elif op == 'dot':
            o = '(ODot %s)' % self.vref(st)
        elif op == 'norm':
            o = '(ONorm %s)' % qlit(fr(aux['norm']))
        elif op == 'get':
            o = '(OGet %d%%nat)' % self.ids[st['name']]
        elif op == 'abs_set':
            o = '(OAbsSet %d%%nat %s %s)' % (self.ids[st['name']], clist(st['val']), self.idx(st))
        elif op == 'set_var':
            o = '(OSetVar %d%%nat %s %s)' % (self.ids[st['name']], clist(st['val']), self.idx(st))
        elif op == 'get_slice':
            o = '(OGetSlice %d%%nat %d%%nat)' % (st['a'], st['b'])
        elif op == 'add_to_slice':
            o = '(OAddToSlice %d%%nat %d%%nat %s)' % (st['a'], st['b'], clist(st['val']))
        elif op == 'set_vals':
            o = '(OSetVals [%s])' % '; '.join(clist(v) for v in st['vals'])
        elif op == 'scale':
            o = '(OScale %s %s %s)' % (boollit(st['to'] == 'norm'), boollit(st['mode'] == 'rev'), boollit(aux['sref']))
        else:
            raise ValueError(op)
        return '(mkS %d%%nat %s %s %s)' % (self.slot(st['kind'], st['vec']), self.handle(st['sys'], st['kind']),
                                           boollit(st['cs']), o)


def qopt_list(x):
    return 'None' if x is None else '(Some %s)' % qlist([v for v in x])


class C33(Spec):
    pid = 'C33'
    imports = ['C33.Model']
    impl_script = 'props/C33/impl.py'
    exactness = ('E3 dyadic-exact: small-integer / half-integer data, scalers +-2^j, dyadic unit factors and offsets; '
                 'every float operation of the implementation is exact and must equal the Q model; the norm is '
                 'accepted iff it is a correctly rounded square root of the exact sum of squares')
    shard = 60
    impl_jobs = 4
    rule = ('random model trees (2-5 components, nested groups, alphabetically re-ordered names, 1-3 inputs/outputs '
            'of rank 1-3, ref/ref0/res_ref scalars and arrays, dyadic units with offsets, optional complex '
            'allocation) x random sequences of 3-10 vector operations on root and sub-system vectors of the six '
            '(kind, vec_name) arrays, with index forms full/slice/int/array (duplicates, negatives), '
            'Vector/array/scalar operands, named access in four forms, complex-step toggles and scaling pairs; with complex '
            'allocation 60% of the sequences start a complex-step phase on one nonlinear vector (and its twin) through '
            'which most operations (dot, norm, add_scal_vec, imul, ...) then run on data with imaginary parts; '
            'a case is non-trivial when distinct')
    assumptions = ['NumPy is the reference for the oracle (a plain ndarray mirror of the six root arrays)',
                   'the variable order of a system (sub-systems sorted by name, variables in declaration order) is '
                   'predicted by the generator and checked against system._var_abs2meta',
                   'MPI / PETSc vectors out of scope']

    def __init__(self):
        self.aux = {}

    def gen(self, tier, rng):
        n = 400 if tier == 'quick' else 4000
        return [gen_case(rng) for _ in range(n)]

    def search_gen(self, tier, rng):
        return [gen_case(rng) for _ in range(1500)]

    def compare_case(self, case, res):
        # the model needs two values only the implementation can supply (the float returned by
        # get_norm(), and the _has_solver_ref flag / root scaling arrays of the real vectors)
        if res.get('res', '__none__') == '__none__':
            return False
        self.aux[id(case)] = res['aux']
        return True

    def got_term(self, case):
        aux = self.aux[id(case)]
        em = Emit(case['spec'])
        steps = []
        for k, st in enumerate(case['steps']):
            a = aux['steps'][k]
            if st['op'] == 'cs' or a.get('skip'):
                continue
            steps.append(em.step(st, a))
        data = '[%s]' % '; '.join(clist(case['init']['%d' % s]) for s in range(6))
        used = set()
        for st in case['steps']:
            if st['op'] == 'scale':
                s_ = em.slot(st['kind'], st['vec'])
                used.update((s_, s_ - 1) if s_ % 2 else (s_,))
        scal = '[%s]' % '; '.join(
            ('(%s, %s)' % (qlist([v for v in (aux['scal'][s][0] or [])]), qopt_list(aux['scal'][s][1])))
            if s in used else '([], None)' for s in range(6))
        run = '(run (mkSt %s %s) [%s])' % (data, scal, ';\n   '.join(steps))
        parts = [run]
        for ki, kind in enumerate(KINDS):
            ss = aux['set_scaling'][ki]
            if ss is None:
                parts.append('VN')
                continue
            lay = em.layout(chain_layouts(case['spec'], '', io_of(kind))[0])
            facs = []
            for nm, (a0, a1, fo) in ss['factors']:
                facs.append('(%d%%nat, (%s, %s, %s))' % (
                    em.ids[nm], qlist([v for v in a0]), qlist([v for v in a1]),
                    'None' if fo is None else '(Some (%s, %s))' % (qlit(fr(fo[0])), qlit(fr(fo[1])))))
            parts.append('(run_set_scaling %s %s %s %s [%s])' % (
                boollit(kind == 'input'), boollit(ss['do_adder']), boollit(ss['solver_ref']), lay, '; '.join(facs)))
        return em.lets('(VL [%s])' % ';\n  '.join(parts))

    def want_term(self, case, res):
        return want_val(res['res'])

    def nontrivial(self, case, res):
        return True

    def shrink(self, case):
        st = case['steps']
        for k in range(len(st)):
            if st[k]['op'] == 'scale':
                continue
            c = copy.deepcopy(case)
            del c['steps'][k]
            # complex-step flags recorded in later steps stay consistent only if no toggle was removed
            if st[k]['op'] != 'cs':
                yield c


def main(tier):
    return standard_check(C33(), tier)
