"""C09 — iterative solvers honour their termination contract."""
import itertools
import json
import math
import core
from core import Spec, standard_check, boollit

NL = ['newton', 'broyden', 'nlbgs', 'nlbgs_apply', 'nlbj']
LIN = ['lnbgs', 'lnbj']
KIND = {'newton': 'KAlways', 'broyden': 'KAlways', 'nlbgs': '(KGS false)', 'nlbgs_apply': '(KGS true)',
        'nlbj': 'KBase', 'lnbgs': 'KLin', 'lnbj': 'KLin'}


def hx(x):
    return float(x).hex()


def flit(h):
    """Python float.hex() string -> Gallina PrimFloat literal (exact)."""
    if h == 'nan':
        return 'nan'
    if h == 'inf':
        return 'infinity'
    if h == '-inf':
        return 'neg_infinity'
    if h.startswith('-'):
        return '(PrimFloat.opp %s%%float)' % h[1:]
    return '%s%%float' % h


# ---- abstract alphabet -> concrete floats (for given atol, rtol)
# Z zero, A below atol, R below rtol only (relative to a first norm of 1000), H above both (distinct per
# position), E equal to the previous norm, N NaN, I +inf
LETTERS = 'ZARHENI'
STOPPERS = 'ZAN'      # reading one of these always ends the loop (norm > atol is false)


def concretize(word, atol, rtol):
    out, prev = [], None
    for k, ch in enumerate(word):
        if ch == 'Z':
            v = 0.0
        elif ch == 'A':
            v = atol * 0.5
        elif ch == 'R':
            v = rtol * 1000.0 * 0.5
        elif ch == 'H':
            v = 1000.0 - 7.0 * k
        elif ch == 'E':
            v = prev if prev is not None else 1000.0
        elif ch == 'N':
            v = float('nan')
        else:
            v = float('inf')
        out.append(v)
        prev = v
    return out


def words(cap, first_stops):
    """All words over LETTERS of length <= cap in which only the last letter may be a stopper (a word that
    reaches the cap may end with anything); first_stops=False: the letter at position 0 never ends the word
    (forced iteration under complex step)."""
    res = []

    def rec(w):
        if len(w) == cap:
            res.append(w)
            return
        for ch in LETTERS:
            w2 = w + ch
            if ch in STOPPERS and (first_stops or len(w2) > 1):
                # pad with H so that a longer-than-expected run would not exhaust the script
                res.append(w2 + 'H' * (cap - len(w2)))
            else:
                rec(w2)
    rec('')
    return res


def mk(cls, maxiter, atol, rtol, stall, err, cs, norms, kind):
    lim, rel, tol = stall
    return {'cls': cls, 'maxiter': maxiter, 'atol': hx(atol), 'rtol': hx(rtol), 'stall_limit': lim,
            'stall_rel': rel, 'stall_tol': hx(tol), 'err': err, 'cs': cs,
            'norms': [hx(v) for v in norms], 'kind': kind}


TOLS = [(1.0, 0.01), (1e-10, 1e-10)]
STALLS = [(0, False, 1e-12), (1, False, 1e-3), (2, False, 1e-3), (2, True, 1e-6), (1, False, 10.0), (2, True, 0.05)]


def rand_float(rng, atol, rtol, prev, first):
    k = rng.random()
    if k < 0.06:
        return float('nan')
    if k < 0.12:
        return float('inf')
    if k < 0.18:
        return 0.0
    if k < 0.30 and prev is not None:
        return prev
    if k < 0.40 and prev is not None and math.isfinite(prev):
        return prev * (1.0 + rng.choice([-1, 1]) * 10.0 ** rng.randrange(-16, -2))
    if k < 0.55:
        # at / next to the absolute tolerance
        return rng.choice([atol, math.nextafter(atol, math.inf), math.nextafter(atol, -math.inf) if atol > 0 else 0.0,
                           atol * 2, atol / 2])
    if k < 0.70 and first is not None and math.isfinite(first):
        # at / next to the relative tolerance
        b = rtol * first
        return rng.choice([b, math.nextafter(b, math.inf), math.nextafter(b, -math.inf) if b > 0 else 0.0, b * 2, b / 2])
    if k < 0.75:
        return rng.choice([5e-324, 2.2250738585072014e-308, 1.7976931348623157e308, 1e300, 1e-300])
    return 10.0 ** rng.uniform(-14, 6) * rng.choice([1.0, 1.0, 1.0, rng.random()])


# ---- ArmijoGoldsteinLS: objective histories relative to the sufficient-decrease window at each step length
# A inside the window (accepted), T exactly the upper threshold, J the float just above it, H far above,
# L below the Goldstein lower limit (accepted by Armijo only), N NaN, I +inf
LS_LETTERS = 'ATJHLNI'
LS_OPTS = [(0.5, 0.1, 1.0), (0.3, 0.1, 0.7), (1.0, 0.25, 2.0)]    # (rho, c, alpha)


def ls_concretize(word, phi0raw, rho, c, alpha):
    phi0 = phi0raw if phi0raw != 0.0 else 1.0
    out, a = [phi0raw], alpha
    for j, ch in enumerate(word):
        if j >= 2:
            a = a * rho
        up = phi0 + (c * a) * (-phi0)
        low = phi0 + ((1 - c) * a) * (-phi0)
        if ch == 'A':
            v = (low + up) / 2 if low <= up else up - 1.0
        elif ch == 'T':
            v = up
        elif ch == 'J':
            v = math.nextafter(up, math.inf)
        elif ch == 'H':
            v = 3.0 * phi0 + 1.0 + j
        elif ch == 'L':
            v = low - 1.0
        elif ch == 'N':
            v = float('nan')
        else:
            v = float('inf')
        out.append(v)
    return out


def mk_ls(maxiter, rho, c, alpha, gold, norms, kind):
    return {'cls': 'ag', 'maxiter': maxiter, 'rho': hx(rho), 'c': hx(c), 'alpha': hx(alpha), 'goldstein': gold,
            'norms': [hx(v) for v in norms], 'kind': kind}


def ls_cases(tier, rng):
    quick = tier == 'quick'
    cases = []
    for maxiter in range(0, 4):
        letters = LS_LETTERS if (maxiter <= 1 or not quick) else ('ATJHLN' if maxiter == 2 else 'AJLN')
        for (rho, c, alpha) in LS_OPTS:
            for gold in (False, True):
                for phi0 in ((10.0, 0.0) if (maxiter <= 2 or not quick) else (10.0,)):
                    for w in itertools.product(letters, repeat=maxiter + 1):
                        cases.append(mk_ls(maxiter, rho, c, alpha, gold,
                                           ls_concretize(w, phi0, rho, c, alpha) + [1000.0],
                                           'ag:maxiter=%d' % maxiter))
    for _ in range(1000 if quick else 30000):
        maxiter = rng.choice([-1, 0, 1, 2, 3, 5, 8])
        rho = rng.choice([0.0, 0.5, 1.0, rng.random(), rng.random()])
        c = rng.choice([0.0, 0.1, 0.5, 1.0, rng.random()])
        alpha = rng.choice([1.0, 0.5, 2.0, 10.0 ** rng.uniform(-3, 0.6)])
        phi0 = rng.choice([0.0, 1.0, 10.0 ** rng.uniform(-8, 8)])
        word = ''.join(rng.choice('AATJJHHLNI') for _ in range(max(maxiter, 0) + 1))
        norms = ls_concretize(word, phi0, rho, c, alpha)
        norms = [v if rng.random() < 0.8 else (v * (1 + rng.choice([-1, 1]) * 2.0 ** -rng.randrange(30, 53)) if math.isfinite(v) else v)
                 for v in norms]
        cases.append(mk_ls(maxiter, rho, c, alpha, rng.random() < 0.5, norms + [1000.0], 'ag:random'))
    return cases


class C09(Spec):
    pid = 'C09'
    imports = ['C09.Model', 'C09.ModelLS']
    impl_script = 'props/C09/impl.py'
    exactness = 'E5/E1: bit-exact binary64 norms and options (hex literals), integer-exact iteration counts, outcome class, raised-or-not'
    shard = 5000
    impl_jobs = 4
    prelude = ('From Coq Require Import PrimFloat.\n'
               'Definition W (a b c d : Z) (e : bool) : val := VL [VZ a; VZ b; VZ c; VZ d; VB e].\n')
    rule = ('all norm histories over the alphabet {zero, <atol, <rtol-only, above (distinct), equal-to-previous, NaN, +inf} '
            'up to maxiter+1 (+1 under complex step) norms, pruned only where a letter certainly ends the loop; '
            'x maxiter x (atol, rtol) x stall option grid x err_on_non_converge x 7 solver-class variants; plus random '
            'binary64 histories with thresholds next to the tolerances; duplicates removed: every case is a distinct '
            '(class, options, concrete history)')
    assumptions = ['the norm values are scripted (the wrapper calls the real _iter_get_norm, then returns the scripted float); '
                   'everything else in the loop is the real code of the real solver object on a real 2-component model',
                   'single process (no MPI); recording off']

    def gen(self, tier, rng):
        cases = []
        quick = tier == 'quick'
        big = ['newton', 'lnbgs'] if quick else ['newton', 'lnbgs', 'nlbgs', 'broyden']
        top_big = 3 if quick else 4
        top_small = 2 if quick else 3
        if quick:
            big = ['newton', 'lnbgs']
        wcache = {}

        def W(cap, fs):
            if (cap, fs) not in wcache:
                wcache[(cap, fs)] = words(cap, fs)
            return wcache[(cap, fs)]

        for cls in NL + LIN:
            top = top_big if cls in big else top_small
            stalls = (STALLS if (cls in big or not quick) else STALLS[:5]) if cls in NL else [(0, False, 1e-12)]
            for maxiter in range(0, top + 1):
                for (atol, rtol) in (TOLS[:1] if quick and maxiter >= 3 else TOLS):
                    for st in (stalls[::2] if quick and maxiter >= 3 else stalls):
                        for err in (False, True):
                            for w in W(maxiter + 1, True):
                                cases.append(mk(cls, maxiter, atol, rtol, st, err, False,
                                                concretize(w, atol, rtol) + [1000.0],
                                                '%s:maxiter=%d:stall=%d' % (cls, maxiter, st[0])))
        # forced iteration under complex step
        for cls in (['newton', 'nlbgs'] if quick else NL):
            for maxiter in range(0, 3 if quick else 4):
                for st in [(0, False, 1e-12), (1, False, 10.0)]:
                    for err in (False, True):
                        atol, rtol = TOLS[0]
                        for w in W(maxiter + 2, False):
                            cases.append(mk(cls, maxiter, atol, rtol, st, err, True, concretize(w, atol, rtol) + [1000.0],
                                            '%s:cs:maxiter=%d' % (cls, maxiter)))
        # random binary64 histories
        for _ in range(2000 if quick else 100000):
            cls = rng.choice(NL + LIN)
            maxiter = rng.choice([-1, 0, 1, 1, 2, 2, 3, 4, 5, 6, 8])
            atol = rng.choice([0.0, 1e-10, 1e-6, 1.0, 10.0 ** rng.uniform(-12, 1)])
            rtol = rng.choice([0.0, 1e-10, 1e-3, 0.5, 10.0 ** rng.uniform(-12, 0)])
            st = (rng.choice([0, 0, 1, 2, 3, 5]), rng.random() < 0.5, rng.choice([0.0, 1e-12, 1e-6, 1e-2, 10.0, 10.0 ** rng.uniform(-14, 2)]))
            if cls in LIN:
                st = (0, False, 1e-12)
            cs = cls in NL and rng.random() < 0.15
            norms, prev, first = [], None, None
            for _k in range(max(maxiter, 0) + 3):
                v = rand_float(rng, atol, rtol, prev, first)
                norms.append(v)
                prev = v
                if first is None:
                    first = v if v != 0.0 else 1.0
            cases.append(mk(cls, maxiter, atol, rtol, st, rng.random() < 0.5, cs, norms, '%s:random' % cls))
        cases += ls_cases(tier, rng)
        # different words can denote the same concrete history (E after H at position 0, ...): keep one
        seen, out = set(), []
        for c in cases:
            key = json.dumps([c[k] for k in sorted(c) if k != 'kind'])
            if key not in seen:
                seen.add(key)
                out.append(c)
        return out

    def search_gen(self, tier, rng):
        return self.gen(tier, rng)

    def opts_term(self, c):
        return '(mkopts %s (%d) %s %s (%d) %s %s %s %s)' % (
            KIND[c['cls']], c['maxiter'], flit(c['atol']), flit(c['rtol']), c['stall_limit'], flit(c['stall_tol']),
            boollit(c['stall_rel']), boollit(c['err']), boollit(c['cs']))

    def got_term(self, c):
        if c['cls'] == 'ag':
            return '(run_ls (mklsopts (%d) %s %s %s %s) [%s])' % (
                c['maxiter'], flit(c['rho']), flit(c['c']), flit(c['alpha']), boollit(c['goldstein']),
                '; '.join(flit(v) for v in c['norms']))
        return '(run %s [%s])' % (self.opts_term(c), '; '.join(flit(v) for v in c['norms']))

    def want_term(self, c, res):
        if c['cls'] == 'ag':
            return core.to_val(res['res'])
        a, b, k, d, e = res['res']
        return '(W (%d) (%d) (%d) (%d) %s)' % (a, b, k, d, boollit(e))

    def shrink(self, c):
        if c['cls'] == 'ag':
            if len(c['norms']) > 3:
                yield dict(c, norms=c['norms'][:-1])
            return
        if len(c['norms']) > 2:
            yield dict(c, norms=c['norms'][:-1])
        if c['maxiter'] > 1:
            yield dict(c, maxiter=c['maxiter'] - 1)
        if c['cs']:
            yield dict(c, cs=False)


def main(tier):
    return standard_check(C09(), tier)
