"""C09 implementation side: the REAL solver classes of /repo on a tiny real model, with the residual
norms scripted from here.

Only the norm VALUE is replaced: the wrapper around `_iter_get_norm` still calls the real method (for its
side effects) and returns the next scripted float; `_single_iteration`, `_run_apply`, `_iter_initialize`,
`_solve`, `report_failure` are the real ones (wrapped only to count calls / record their arguments).
"""
import warnings
import numpy as np

warnings.simplefilter('ignore')
import openmdao.api as om  # noqa: E402
from openmdao.core.analysis_error import AnalysisError  # noqa: E402
from implutil import main, q  # noqa: E402

np.seterr(all='ignore')

CLASSES = {
    'newton': (om.NewtonSolver, dict(solve_subsystems=False)),
    'broyden': (om.BroydenSolver, {}),
    'nlbgs': (om.NonlinearBlockGS, {}),
    'nlbgs_apply': (om.NonlinearBlockGS, dict(use_apply_nonlinear=True)),
    'nlbj': (om.NonlinearBlockJac, {}),
    'lnbgs': (om.LinearBlockGS, {}),
    'lnbj': (om.LinearBlockJac, {}),
}
LINEAR = ('lnbgs', 'lnbj')
SWEEPING = ('nlbgs', 'nlbgs_apply', 'nlbj')   # one iteration = one sweep over the subsystems


class Affine(om.ExplicitComponent):
    """y = a*x + b with analytic partials (usable under complex step)."""

    def initialize(self):
        self.options.declare('a', default=1.0)
        self.options.declare('b', default=0.0)

    def setup(self):
        self.add_input('x', 1.0)
        self.add_output('y', 1.0)
        self.declare_partials('y', 'x', val=self.options['a'])

    def compute(self, inputs, outputs):
        outputs['y'] = self.options['a'] * inputs['x'] + self.options['b']


def fh(s):
    return float.fromhex(s)


class Exhausted(Exception):
    pass


class Script(object):
    """Instance-level wrappers around the real bound methods of one solver object."""

    def __init__(self, solver):
        self.s = solver
        self.real_norm = solver._iter_get_norm
        self.real_single = solver._single_iteration
        self.real_fail = solver.report_failure
        self.real_init = solver._iter_initialize
        solver._iter_get_norm = self.norm
        solver._single_iteration = self.single
        solver.report_failure = self.fail
        solver._iter_initialize = self.init
        self.reset([])

    def reset(self, norms):
        self.norms = [np.float64(v) for v in norms]
        self.k = 0
        self.nsingle = 0
        self.msgs = []
        self.init_ret = None
        self.loop_norms = []      # norms handed out inside the loop (after _iter_initialize returned)
        self.in_init = False
        self.sweeps = 0           # block solvers: how often the first subsystem was solved

    def watch_sweeps(self, subsys):
        real = subsys._solve_nonlinear

        def counted():
            self.sweeps += 1
            return real()
        subsys._solve_nonlinear = counted

    def norm(self):
        self.real_norm()          # keep the side effects of the real method (Broyden caches fxm, ...)
        if self.k >= len(self.norms):
            raise Exhausted('history too short')
        v = self.norms[self.k]
        self.k += 1
        if not self.in_init:
            self.loop_norms.append(v)
        return v

    def single(self):
        self.nsingle += 1
        return self.real_single()

    def fail(self, msg):
        self.msgs.append(msg)
        return self.real_fail(msg)

    def init(self):
        self.in_init = True
        try:
            r = self.real_init()
        finally:
            self.in_init = False
        self.init_ret = r
        return r


_PROBS = {}


def get_problem(cls, cs):
    key = (cls, cs)
    if key in _PROBS:
        return _PROBS[key]
    klass, kw = CLASSES[cls]
    p = om.Problem()
    m = p.model
    m.add_subsystem('a', Affine(a=0.5, b=1.0))
    m.add_subsystem('b', Affine(a=0.25, b=-2.0))
    m.connect('a.y', 'b.x')
    m.connect('b.y', 'a.x')
    if cls in LINEAR:
        m.nonlinear_solver = om.NonlinearBlockGS(maxiter=50, atol=1e-14, rtol=1e-14)
        m.linear_solver = klass(**kw)
        solver = m.linear_solver
    else:
        m.nonlinear_solver = klass(**kw)
        m.linear_solver = om.DirectSolver()
        solver = m.nonlinear_solver
    p.setup(force_alloc_complex=cs)
    p.set_solver_print(-1)
    p.final_setup()
    if cls in LINEAR:
        p.run_model()
        p.model.run_linearize()
    if cs:
        p.set_complex_step_mode(True)
    sc = Script(solver)
    if cls in SWEEPING:
        sc.watch_sweeps(p.model.a)
    _PROBS[key] = (p, solver, sc)
    return _PROBS[key]


_LS = {}


def get_ls_problem():
    """Real Newton + real ArmijoGoldsteinLS on the 2-component model; only the VALUE returned by
    _line_search_objective is scripted."""
    if 'p' in _LS:
        return _LS['p']
    p = om.Problem()
    m = p.model
    m.add_subsystem('a', Affine(a=0.5, b=1.0))
    m.add_subsystem('b', Affine(a=0.25, b=-2.0))
    m.connect('a.y', 'b.x')
    m.connect('b.y', 'a.x')
    nl = m.nonlinear_solver = om.NewtonSolver(solve_subsystems=False, maxiter=1, atol=1e-300, rtol=1e-300)
    m.linear_solver = om.DirectSolver()
    ls = nl.linesearch = om.ArmijoGoldsteinLS()
    p.setup()
    p.set_solver_print(-1)
    p.final_setup()
    st = {'norms': [], 'k': 0, 'nsingle': 0, 'solves': 0}
    real_obj, real_single, real_solve = ls._line_search_objective, ls._single_iteration, ls._solve

    def obj():
        real_obj()
        if st['k'] >= len(st['norms']):
            raise Exhausted('history too short')
        v = st['norms'][st['k']]
        st['k'] += 1
        return v

    def single():
        st['nsingle'] += 1
        return real_single()

    def solve():
        st['solves'] += 1
        return real_solve()

    ls._line_search_objective = obj
    ls._single_iteration = single
    ls._solve = solve
    _LS['p'] = (p, ls, st)
    return _LS['p']


def do_ls(c):
    p, ls, st = get_ls_problem()
    maxiter = int(c['maxiter'])
    rho, cc, alpha = fh(c['rho']), fh(c['c']), fh(c['alpha'])
    ls.options['maxiter'] = maxiter
    ls.options['rho'] = rho
    ls.options['c'] = cc
    ls.options['alpha'] = alpha
    ls.options['method'] = 'Goldstein' if c['goldstein'] else 'Armijo'
    ls.options['iprint'] = -1
    p.model._outputs.set_val(1.0)
    st.update(norms=[np.float64(fh(v)) for v in c['norms']], k=0, nsingle=0, solves=0)
    p.run_model()
    iters = int(ls._iter_count)
    a_fin = float(ls.alpha)
    if a_fin != a_fin:
        a_res = 'nan'
    elif a_fin in (float('inf'), float('-inf')):
        a_res = 'inf' if a_fin > 0 else '-inf'
    else:
        a_res = q(a_fin)
    res = [iters, st['nsingle'], st['k'], a_res]
    # ---- oracle: at most maxiter backtracking iterations; the accepted objective is the first that passes
    # the sufficient-decrease test
    ok, msg, sig = True, '', ''
    desc = 'ArmijoGoldsteinLS(maxiter=%d, rho=%r, c=%r, alpha=%r, method=%s), objective values %r' % (
        maxiter, rho, cc, alpha, ls.options['method'], [float(v) for v in st['norms'][:st['k']]])
    if st['solves'] != 1:
        ok, sig, msg = False, 'harness', 'line search was run %d times' % st['solves']
    elif iters > max(maxiter, 0) or st['nsingle'] != iters:
        ok, sig = False, 'ls-more-than-maxiter'
        msg = '%d line-search iterations (%d _single_iteration calls) with maxiter=%d: %s' % (iters, st['nsingle'], maxiter, desc)
    return {'res': res, 'ok': ok, 'msg': msg, 'sig': sig, 'kind': c.get('kind', 'ag')}


def met(x, norm0, atol, rtol):
    """The iterate meets atol or rtol (and is a number)."""
    x = np.float64(x)
    if np.isnan(x) or np.isinf(x):
        return False
    return not (x > atol and x / np.float64(norm0) > rtol)


def handle(c):
    if c['cls'] == 'ag':
        return do_ls(c)
    cls, cs = c['cls'], bool(c.get('cs'))
    p, solver, sc = get_problem(cls, cs)
    maxiter = int(c['maxiter'])
    atol, rtol = fh(c['atol']), fh(c['rtol'])
    solver.options['maxiter'] = maxiter
    solver.options['atol'] = atol
    solver.options['rtol'] = rtol
    solver.options['err_on_non_converge'] = bool(c['err'])
    solver.options['iprint'] = -1
    if cls not in LINEAR:
        solver.options['stall_limit'] = int(c['stall_limit'])
        solver.options['stall_tol'] = fh(c['stall_tol'])
        solver.options['stall_tol_type'] = 'rel' if c['stall_rel'] else 'abs'
        # start every case from the same state
        p.model._outputs.set_val(1.0)
    sc.reset([fh(v) for v in c['norms']])
    raised = False
    try:
        if cls in LINEAR:
            p.model._dresiduals.set_val(1.0)
            p.model._doutputs.set_val(0.0)
            p.model.run_solve_linear('fwd')
        elif cs:
            p.model._solve_nonlinear()
        else:
            p.run_model()
    except AnalysisError:
        raised = True
    iters = int(solver._iter_count)
    msgs = sc.msgs
    if len(msgs) == 0:
        code = 0
    elif len(msgs) > 1:
        code = 9
    elif "contain 'inf' or 'NaN'" in msgs[0]:
        code = 1
    elif 'stalled after' in msgs[0]:
        code = 2
    elif 'failed to converge' in msgs[0]:
        code = 3
    else:
        code = 8
    res = [iters, sc.nsingle, sc.k, code, raised]

    # ---- the property's oracle, evaluated on what the real solver did
    norm0, n_init = sc.init_ret
    iterates = [n_init] + sc.loop_norms
    final_met = met(iterates[-1], norm0, atol, rtol)
    failure = len(msgs) > 0
    ok, msg, sig = True, '', ''
    desc = '%s(maxiter=%d, atol=%r, rtol=%r, stall_limit=%s, stall_tol=%s, stall_tol_type=%s, err_on_non_converge=%s%s), norms %r' % (
        cls, maxiter, atol, rtol, c.get('stall_limit'), fh(c['stall_tol']) if 'stall_tol' in c else None,
        'rel' if c.get('stall_rel') else 'abs', c['err'], ', under complex step' if cs else '',
        [float(v) for v in iterates])
    forced = cs and cls not in LINEAR
    if not (iters <= max(maxiter, 0) or (forced and sc.nsingle == 1)) or sc.nsingle > iters:
        ok, sig = False, 'more-than-maxiter'
        msg = '%d iterations (%d _single_iteration calls) with maxiter=%d: %s' % (iters, sc.nsingle, maxiter, desc)
    if ok and cls in SWEEPING and not (sc.sweeps <= max(maxiter, 0) or (forced and sc.sweeps == 1)):
        ok, sig = False, 'more-than-maxiter'
        msg = '%d sweeps over the subsystems with maxiter=%d (_iter_count=%d): %s' % (sc.sweeps, maxiter, iters, desc)
    if ok:
        for k in range(len(iterates) - 1):
            if met(iterates[k], norm0, atol, rtol) and not (forced and k == 0):
                ok, sig = False, 'continued-past-met'
                msg = 'iterate %d (norm %r) meets a tolerance but the solver iterated again: %s' % (k, float(iterates[k]), desc)
                break
    if ok and failure == final_met:
        ok = False
        if final_met:
            sig = 'failure-on-converged:' + {1: 'infnan', 2: 'stall', 3: 'maxiter'}.get(code, str(code))
            msg = 'failure reported (%s) although the final norm %r meets a tolerance (norm0 %r): %s' % (
                msgs[0], float(iterates[-1]), float(norm0), desc)
        else:
            sig = 'success-on-unconverged'
            msg = 'success reported although the final norm %r is above both tolerances or not finite: %s' % (
                float(iterates[-1]), desc)
    if ok and raised != (failure and bool(c['err'])):
        ok, sig = False, 'raise-mismatch'
        msg = 'AnalysisError raised=%s, failure reported=%s, err_on_non_converge=%s: %s' % (raised, failure, c['err'], desc)
    return {'res': res, 'ok': ok, 'msg': msg, 'sig': sig, 'kind': c.get('kind', cls)}


if __name__ == '__main__':
    main(handle)
