"""C29 implementation side: the real InputFileGenerator writes values into a template, the real FileParser
reads the generated file back.

Per case: outcome of every generator operation, the generator's lines, the result of every parser operation,
and the token list of every line of the generated file (correspondence with the Gallina model), plus the
property's oracle: every written value reads back from the same location as the same value (floats to 16
significant digits, inf / nan as such) and every other field of the file reads as it did in the template.
"""
import math
import os
import warnings

import numpy as np
from implutil import main, err

warnings.simplefilter('ignore')
import pyparsing  # noqa: E402
from openmdao.utils import file_wrap  # noqa: E402
from openmdao.utils.file_wrap import InputFileGenerator, FileParser  # noqa: E402


class FloatTok(float):
    """the float a _ToFloat converter returned, remembering the token text it was made from"""
    def __new__(cls, x, text):
        o = float.__new__(cls, x)
        o.text = text
        return o


_orig_tofloat = file_wrap._ToFloat.postParse


def _tofloat(self, instring, loc, tokenlist):
    return FloatTok(_orig_tofloat(self, instring, loc, tokenlist), str(tokenlist[0]))


file_wrap._ToFloat.postParse = _tofloat     # wraps (still runs) the real converter

ERR = [(OverflowError, 1), (IndexError, 3), (pyparsing.ParseException, 5), (ValueError, 2), (RuntimeError, 4)]


def err_code(e):
    for k, c in ERR:
        if isinstance(e, k):
            return c
    return 99


def pyval(v):
    if 'i' in v:
        return int(v['i'])
    if 's' in v:
        return str(v['s'])
    t = v['f']
    if t in ('inf', '-inf', 'nan'):
        return float(t)
    return float.fromhex(t)


def canon_tok(t):
    if isinstance(t, FloatTok):
        return ['f', t.text]
    if isinstance(t, bool):
        return ['?bool']
    if isinstance(t, int):
        return int(t)
    if isinstance(t, float):
        if math.isnan(t):
            return ['nan']
        if math.isinf(t):
            return ['inf', t < 0]
        return ['?float', repr(t)]
    if isinstance(t, str):
        return t
    return ['?', repr(t)]


def same_written(written, got):
    """the property's notion of 'the same value'"""
    if isinstance(written, float):
        if not isinstance(got, float):
            # an integer-valued rendering without a fraction cannot occur ("%.1f"); "%.16g" of a big non-integer
            # may print without a point: the parser then returns an int with the same 16 digits
            if isinstance(got, int) and not isinstance(got, bool) and math.isfinite(written):
                return '%.16g' % float(got) == '%.16g' % written
            return False
        if math.isnan(written):
            return math.isnan(got)
        if math.isinf(written):
            return got == written
        return '%.16g' % float(got) == '%.16g' % written
    if isinstance(written, bool) or isinstance(got, bool):
        return False
    if isinstance(written, int):
        return isinstance(got, int) and got == written
    return isinstance(got, str) and got == written


def same_untouched(a, b):
    if type(a) is not type(b) and not (isinstance(a, float) and isinstance(b, float)):
        return False
    if isinstance(a, float):
        return (math.isnan(a) and math.isnan(b)) or a == b
    return a == b


def handle(c):
    delim = c['delim']
    with open('template.txt', 'w') as f:
        f.write(''.join(c['template']))
    gen = InputFileGenerator()
    gen.set_template_file('template.txt')
    gen.set_generated_file('generated.txt')
    gen.set_delimiters(delim)

    par0 = FileParser()
    par0.set_delimiters(delim)

    def parse(line):
        return list(par0._parse_line().parseString(line))

    # oracle bookkeeping: what every field of every line should read as
    oracle = bool(c.get('oracle'))
    expected = None
    if oracle:
        expected = []
        for line in gen._data:
            try:
                expected.append([('t', x) for x in parse(line)])
            except pyparsing.ParseException:
                expected.append([])

    outs = []
    for op in c['gops']:
        k = op['k']
        try:
            base = gen._current_row
            if k == 'anchor':
                gen.mark_anchor(op['a'], op['occ'])
            elif k == 'reset':
                gen.reset_anchor()
            elif k == 'var':
                v = pyval(op['v'])
                if oracle:
                    expected[base + op['row']][op['field'] - 1] = ('w', v)
                gen.transfer_var(v, op['row'], op['field'])
            elif k == 'array':
                vals = [pyval(v) for v in op['vals']]
                if oracle:
                    # documented placement: consecutive fields from (row_start, field_start), next rows from their
                    # first field, up to field_end of row_end; what is left over is appended to the last row
                    re_ = op['rs'] if op['re'] is None else op['re']
                    i = 0
                    for row in range(op['rs'], re_ + 1):
                        ex = expected[base + row]
                        lo = op['fs'] if row == op['rs'] else 1
                        hi = op['fe'] if row == re_ else len(ex)
                        for fld in range(lo, hi + 1):
                            if i < len(vals):
                                ex[fld - 1] = ('w', vals[i])
                                i += 1
                    for v in vals[i:]:
                        expected[base + re_].append(('w', v))
                arr = np.array(vals) if op.get('np') else vals
                gen.transfer_array(arr, op['rs'], op['fs'], op['fe'], op['re'], op['sep'])
            elif k == 'clear':
                if oracle:
                    expected[base + op['row']] = []
                gen.clearline(op['row'])
            outs.append(None)
        except Exception as e:   # noqa
            outs.append(err(err_code(e)))
    gen.generate()
    gdata = [str(x) for x in gen._data]

    par = FileParser()
    par.set_delimiters(delim)
    par.set_file('generated.txt')
    pres, readback_fail = [], []
    for op in c['pops']:
        k = op['k']
        try:
            if k == 'anchor':
                par.mark_anchor(op['a'], op['occ'])
                pres.append(None)
            elif k == 'reset':
                par.reset_anchor()
                pres.append(None)
            elif k == 'var':
                got = par.transfer_var(op['row'], op['field'])
                pres.append(canon_tok(got))
                if oracle and 'w' in op and not same_written(pyval(op['w']), got):
                    readback_fail.append('transfer_var(%d, %d) after the same anchors returns %r, written %r'
                                         % (op['row'], op['field'], got, pyval(op['w'])))
            elif k == 'line':
                pres.append(['t', par.transfer_line(op['row'])])
        except Exception as e:   # noqa
            pres.append(err(err_code(e)))

    file_tokens, raw_tokens = [], []
    for line in par._data:
        try:
            toks = parse(line)
            raw_tokens.append(toks)
            file_tokens.append([canon_tok(t) for t in toks])
        except pyparsing.ParseException:
            raw_tokens.append([])
            file_tokens.append(err(5))

    ok, msg, sig = True, '', ''
    if oracle:
        failed = [o for n, o in enumerate(outs) if o is not None and c['gops'][n]['k'] in ('var', 'array', 'clear')]
        if [o for n, o in enumerate(outs) if o is not None and c['gops'][n]['k'] not in ('var', 'array', 'clear')]:
            ok, sig, msg = False, 'harness-anchor', 'an anchor of an oracle case was not found: %r' % (outs,)
        elif failed:
            # a write of the property's domain (int / float incl. inf, nan / str at an existing location) was refused
            i = [n for n, o in enumerate(outs) if o is not None and c['gops'][n]['k'] in ('var', 'array', 'clear')][0]
            ok, sig = False, 'write-refused'
            op = c['gops'][i]
            msg = 'generator operation %r failed (error class %s)' % (op, failed[0])
            if op['k'] in ('var', 'array'):
                vs = [op['v']] if op['k'] == 'var' else op['vals']
                if any(v.get('f') in ('inf', '-inf', 'nan') for v in vs):
                    sig = 'write-refused:special-float'
        elif len(raw_tokens) != len(expected):
            ok, sig = False, 'lines-merged'
            msg = 'the generated file has %d lines, the template %d: %r' % (len(raw_tokens), len(expected), par._data)
        else:
            for j, (ex, got) in enumerate(zip(expected, raw_tokens)):
                if len(ex) != len(got):
                    ok, sig = False, 'field-count'
                    msg = 'line %d reads %r, expected %r' % (j, got, [x for _, x in ex])
                    break
                for f, ((kind, want), g) in enumerate(zip(ex, got)):
                    good = same_written(want, g) if kind == 'w' else same_untouched(want, g)
                    if not good:
                        ok = False
                        sig = 'readback:' + (type(want).__name__ if kind == 'w' else 'other-field')
                        if kind == 'w' and isinstance(want, float) and not math.isfinite(want):
                            sig = 'readback:special-float'
                        msg = 'line %d field %d: %s %r reads back as %r (line %r)' % (
                            j, f + 1, 'written value' if kind == 'w' else 'untouched field', want, g, par._data[j])
                        break
                if not ok:
                    break
    if oracle and ok and readback_fail:
        ok, sig, msg = False, 'readback:transfer_var', readback_fail[0]
    for fn in ('template.txt', 'generated.txt'):
        try:
            os.remove(fn)
        except OSError:
            pass
    return {'res': [outs, gdata, pres, file_tokens], 'ok': ok, 'msg': msg, 'sig': sig,
            'kind': c.get('kind', '')}


if __name__ == '__main__':
    main(handle)
