"""C29 — wrapped input files parse back to the values written."""
import json
import math
import os

import core
from core import Spec, standard_check, boollit

HERE = os.path.dirname(os.path.abspath(__file__))

# ---------------------------------------------------------------- Gallina emission


def cstr(s):
    """Coq string term for a Python str (newline / tab through named constants)"""
    parts, cur = [], ''
    for ch in s:
        if ch in '\n\t':
            if cur:
                parts.append('"%s"' % cur.replace('"', '""'))
                cur = ''
            parts.append('NL' if ch == '\n' else 'TAB')
        else:
            assert 32 <= ord(ch) < 127, repr(s)
            cur += ch
    if cur or not parts:
        parts.append('"%s"' % cur.replace('"', '""'))
    return parts[0] if len(parts) == 1 else '(%s)%%string' % ' ++ '.join(parts)


def pyval(v):
    if 'i' in v:
        return int(v['i'])
    if 's' in v:
        return str(v['s'])
    t = v['f']
    return float(t) if t in ('inf', '-inf', 'nan') else float.fromhex(t)


def value_term(v):
    """the value with the renderings Python's % operator gives it (the digits are external to the model)"""
    x = pyval(v)
    if isinstance(x, int):
        return '(VInt (%d))' % x
    if isinstance(x, str):
        return '(VStr %s)' % cstr(x)
    if math.isnan(x):
        k = 'FNan'
    elif math.isinf(x):
        k = 'FInf'
    else:
        k = 'FIntegral' if x == math.floor(x) else 'FFraction'
    return '(VFloat %s %s %s)' % (k, cstr('%.1f' % x), cstr('%.16g' % x))


def zopt(x):
    return 'None' if x is None else '(Some (%d))' % x


def gop_term(op):
    k = op['k']
    if k == 'anchor':
        return '(GAnchor %s (%d))' % (cstr(op['a']), op['occ'])
    if k == 'reset':
        return 'GReset'
    if k == 'var':
        return '(GVar %s (%d) %d%%nat)' % (value_term(op['v']), op['row'], op['field'])
    if k == 'array':
        # str(val) of every element (numpy arrays are only built from floats: str(np.float64(x)) == repr(x))
        strs = [str(pyval(v)) for v in op['vals']]
        return '(GArray [%s] [%s] (%d) %d%%nat %d%%nat %s %s)' % (
            '; '.join(value_term(v) for v in op['vals']), '; '.join(cstr(s) for s in strs),
            op['rs'], op['fs'], op['fe'], zopt(op['re']), cstr(op['sep']))
    if k == 'clear':
        return '(GClear (%d))' % op['row']
    raise ValueError(k)


def pop_term(op):
    k = op['k']
    if k == 'anchor':
        return '(PAnchor %s (%d))' % (cstr(op['a']), op['occ'])
    if k == 'reset':
        return 'PReset'
    if k == 'var':
        return '(PVar (%d) %d%%nat)' % (op['row'], op['field'])
    if k == 'line':
        return '(PLine (%d))' % op['row']
    raise ValueError(k)


# ---------------------------------------------------------------- generator

DELIMS = [' ', ' ', ' \t', ',', ', ', ';', ': ', ' =']
INT_TOK = ['0', '7', '-3', '+12', '1000000', '-0', '007', '123456789012345678901234567890']
FLT_TOK = ['1.5', '-2.', '.5', '3e5', '1.0E+03', '2.5D-3', '6.02e23', '-0.0', '1.e5', '+.25', '12.75d2', '1E-7', '4e-12']
SPC_TOK = ['NaN', 'nan', 'Inf', '-Inf', 'NaNQ', '1.#QNAN']
WORDS = ['alpha', 'x1', 'Beta_2', 'zeta', 'w', 'Hello', 'k9', 'end', 'e5', 'D2', 'b_c_d']
ANCHORS = ['SectionA', 'BLOCK', 'Marker7']
JUNK = ['12abc', '1.5.3', 'x=3', 'nano', '1e', '--5', '+.5e3', 'Information', 'NaNQx', '1e+', '.', '-', '+x', '3.x',
        'a-b', '(1)', '1,2', 'q;r', 'a:b', 'e=mc2', '5.', '1.#SNAN', '-1.#IND', 'inf', '-inf', 'INF', 'sNaN', '0x1F', '1_000',
        '-2e-05', '+3e5', '-3E5', '-1E+3', '-4d-2', '-e5', '-2e', '2e-', '-2e-x']


def F(x):
    return {'f': float(x).hex()}


INTS = [{"i": v} for v in (0, 1, -1, 42, -17, 100000, 2 ** 31, -2 ** 63, 10 ** 20, 7, 9, 10, -10, 99, 100, 10 ** 30 + 7, -(10 ** 25), 2 ** 64 - 1)]
FLOATS = [F(v) for v in (0.0, -0.0, 1.0, 2.0, -3.0, 1e16, 1e22, 123456789.0, 0.5, 0.1, -0.1, 1 / 3, 2 / 3, 1e-7, 3.14159,
                         123456.789, 5e-324, 1.7976931348623157e308, 2.2250738585072014e-308, 1e15 + 0.5,
                         4503599627370495.5, 0.30000000000000004, 1e-300, 6.02214076e23, -2.5e-5,
                         # one significant digit and an exponent: '%.16g' prints them without a decimal point
                         2e-05, -2e-05, 4e-12, -4e-12, 1e-05, -1e-05, -7e-10, 9e-05, -9e-05, 3e-300, -3e-300, -1e-20,
                         5e-07, -5e-07, 8e-100, -8e-100)]
SPECIALS = [{'f': 'inf'}, {'f': '-inf'}, {'f': 'nan'}]
STRS = [{'s': w} for w in ('abc', 'x_1', 'Hello', 'zeta2', 'w', 'value', 'e5', 'D2', 'T')]


def rnd_value(rng, special_p=0.12):
    r = rng.random()
    if r < special_p:
        return rng.choice(SPECIALS)
    if r < 0.35:
        return rng.choice(INTS) if rng.random() < 0.7 else {'i': rng.randrange(-10 ** 6, 10 ** 6)}
    if r < 0.8:
        if rng.random() < 0.6:
            return rng.choice(FLOATS)
        m = rng.choice([rng.random(), rng.uniform(-1e3, 1e3), rng.randrange(-50, 50) / 8.0, rng.uniform(-1, 1) * 10 ** rng.randrange(-12, 13),
                        float(rng.randrange(-10 ** 6, 10 ** 6)),
                        # k * 10^-n and k.d * 10^-n: exponent notation with one or two significant digits
                        float('%se-%02d' % (rng.choice(['', '-']) + str(rng.randrange(1, 10)), rng.randrange(5, 40))),
                        float('%s.%de-%02d' % (rng.choice(['', '-']) + str(rng.randrange(1, 10)), rng.randrange(1, 10), rng.randrange(5, 40)))])
        return F(m)
    return rng.choice(STRS)


def mk_sep(rng, delim, lead=False):
    n = rng.choice([1, 1, 1, 2, 3]) if not lead else rng.choice([0, 0, 1, 2])
    return ''.join(rng.choice(delim) for _ in range(n))


def atomic_token(rng):
    r = rng.random()
    if r < 0.3:
        return rng.choice(INT_TOK)
    if r < 0.6:
        return rng.choice(FLT_TOK)
    if r < 0.68:
        return rng.choice(SPC_TOK)
    return rng.choice(WORDS)


def mk_line(rng, delim, toks, eol=True):
    s = mk_sep(rng, delim, lead=True)
    for i, t in enumerate(toks):
        if i:
            s += mk_sep(rng, delim)
        s += t
    if rng.random() < 0.2:
        s += mk_sep(rng, delim)
    return s + ('\n' if eol else '')


def oracle_case(rng):
    """a template of atomic fields, writes at existing locations (each data line used by at most one write),
    mirrored reads"""
    delim = rng.choice(DELIMS)
    nanch = rng.choice([0, 1, 1, 2])
    anchors = rng.sample(ANCHORS, nanch)
    lines, meta = [], []           # meta: ('anchor', name) | ('data', ntok)
    for a in anchors + [None]:
        if a is not None:
            lines.append(a if rng.random() < 0.6 else mk_line(rng, delim, [a] + [atomic_token(rng) for _ in range(rng.randrange(0, 3))], False))
            meta.append(('anchor', a))
        for _ in range(rng.randrange(1, 4)):
            n = rng.randrange(1, 7)
            lines.append(mk_line(rng, delim, [atomic_token(rng) for _ in range(n)], False))
            meta.append(('data', n))
    if rng.random() < 0.5:
        # sections in the other order: data first
        pass
    last_eol = rng.random() < 0.7
    template = [l if l.endswith('\n') else l + '\n' for l in lines]
    if not last_eol:
        template[-1] = template[-1][:-1]
    gops, pops, used = [], [], set()
    cur, kinds, anchored = 0, set(), False
    data_rows = [i for i, m in enumerate(meta) if m[0] == 'data']
    for _ in range(rng.randrange(1, 5)):
        r = rng.random()
        if r < 0.25 and anchors:
            a = rng.choice(anchors)
            row = [i for i, m in enumerate(meta) if m == ('anchor', a)][0]
            if rng.random() < 0.7:
                if row < cur or (row == cur and anchored):
                    gops.append({'k': 'reset'})
                    pops.append({'k': 'reset'})
                op = {'k': 'anchor', 'a': a, 'occ': 1}
            else:
                op = {'k': 'anchor', 'a': a, 'occ': -1}
            gops.append(op)
            pops.append(dict(op))
            cur, anchored = row, True
            continue
        free = [i for i in data_rows if i not in used]
        if not free:
            break
        j = rng.choice(free)
        n = meta[j][1]
        if r < 0.7:
            used.add(j)
            f = rng.randrange(1, n + 1)
            v = rnd_value(rng)
            gops.append({'k': 'var', 'v': v, 'row': j - cur, 'field': f})
            pops.append({'k': 'var', 'row': j - cur, 'field': f, 'w': v})
            kinds.add('var')
        else:
            # array over consecutive free data lines starting at j
            rows = [j]
            while rng.random() < 0.4 and rows[-1] + 1 in free and meta[rows[-1] + 1][0] == 'data':
                rows.append(rows[-1] + 1)
            for x in rows:
                used.add(x)
            fs = rng.randrange(1, n + 1)
            nlast = meta[rows[-1]][1]
            cap_first = n - fs + 1 if len(rows) > 1 else None
            if len(rows) == 1:
                fe = rng.randrange(fs, n + 1)
                cap = fe - fs + 1
            else:
                fe = rng.randrange(1, nlast + 1)
                cap = cap_first + sum(meta[x][1] for x in rows[1:-1]) + fe
            extra = 0
            if fe == nlast and rng.random() < 0.4:
                extra = rng.randrange(1, 4)
            sp = 0.0 if False else 0.12
            allfloat = rng.random() < 0.4
            vals = []
            for _k in range(cap + extra):
                v = rnd_value(rng, sp)
                while allfloat and 'f' not in v:
                    v = rnd_value(rng, sp)
                vals.append(v)
            sep = rng.choice([delim[0], delim[0] + ' ' if ' ' in delim else delim[0], delim])
            gops.append({'k': 'array', 'vals': vals, 'rs': rows[0] - cur, 'fs': fs, 'fe': fe,
                         're': None if len(rows) == 1 else rows[-1] - cur, 'sep': sep, 'np': allfloat and rng.random() < 0.5})
            kinds.add('array+stretch' if extra else 'array')
    # a few plain reads
    for _ in range(rng.randrange(0, 3)):
        j = rng.randrange(0, len(template))
        pops.append({'k': rng.choice(['line', 'var']), 'row': j - cur, 'field': rng.randrange(1, 4)})
    return {'delim': delim, 'template': template, 'gops': gops, 'pops': pops, 'oracle': True,
            'kind': 'oracle:' + '+'.join(sorted(kinds)) if kinds else 'oracle:none'}


def ref_mark(lines, cur, anchored, a, occ):
    """where mark_anchor is documented to land (used only to build operations that succeed)"""
    inst = 0
    if occ > 0:
        for count, idx in enumerate(range(cur, len(lines))):
            line = lines[idx]
            if count == 0 and anchored:
                line = line.split(a)[-1]
            if a in line:
                inst += 1
                if inst == occ:
                    return cur + count
        return None
    last = len(lines) - 1
    for idx in range(last, -1, -1):
        line = lines[idx]
        if idx == last and anchored:
            line = line.split(a)[0]
        if a in line:
            inst -= 1
            if inst == occ:
                return idx
    return None


def anchor_case(rng):
    """anchors that occur several times in a line and in several lines, mark_anchor called repeatedly without
    reset (forward from a mid-line anchor, backward from the end), then one write and the mirrored read"""
    delim = rng.choice(DELIMS)
    a = rng.choice(ANCHORS)
    nlines = rng.randrange(4, 9)
    lines, ntok = [], []
    for i in range(nlines):
        toks = [rng.choice(WORDS + INT_TOK[:5] + FLT_TOK[:6]) for _ in range(rng.randrange(1, 5))]
        k = rng.choice([0, 0, 1, 1, 2, 2, 3])
        for _ in range(k):
            toks.insert(rng.randrange(0, len(toks) + 1), a if rng.random() < 0.85 else a + a)
        lines.append(mk_line(rng, delim, toks, True))
        ntok.append([k + 1 for k, t in enumerate(toks) if a not in t])     # fields that may be overwritten
    if rng.random() < 0.3:
        lines[-1] = lines[-1][:-1]
    gops, pops = [], []
    cur, anchored = 0, False
    for _ in range(rng.randrange(1, 5)):
        r = rng.random()
        if r < 0.1:
            op, nxt = {'k': 'reset'}, (0, False)
        else:
            occ = rng.choice([1, 1, 1, 1, 2, 3, -1, -1, -2])
            row = ref_mark(lines, cur, anchored, a, occ)
            if row is None:
                continue
            op, nxt = {'k': 'anchor', 'a': a, 'occ': occ}, (row, True)
        gops.append(op)
        pops.append(dict(op))
        cur, anchored = nxt
    j = rng.randrange(0, nlines)      # (every line has at least one field that is not the anchor)
    f = rng.choice(ntok[j])
    v = rnd_value(rng)
    gops.append({'k': 'var', 'v': v, 'row': j - cur, 'field': f})
    pops.append({'k': 'var', 'row': j - cur, 'field': f, 'w': v})
    pops.append({'k': 'line', 'row': 0})
    return {'delim': delim, 'template': lines, 'gops': gops, 'pops': pops, 'oracle': True, 'kind': 'oracle:anchors'}


def junk_case(rng):
    """anything goes: glued tokens, missing fields and rows, odd occurrences, values that contain delimiters"""
    delim = rng.choice(DELIMS)
    lines = []
    for _ in range(rng.randrange(1, 6)):
        n = rng.randrange(0, 6)
        toks = [rng.choice(JUNK) if rng.random() < 0.5 else (rng.choice(ANCHORS) if rng.random() < 0.25 else atomic_token(rng))
                for _ in range(n)]
        lines.append(mk_line(rng, delim, toks, True))
    if rng.random() < 0.3:
        lines[-1] = lines[-1][:-1]
    if rng.random() < 0.15:
        lines.insert(rng.randrange(0, len(lines) + 1), '\n')
    template = ''.join(lines).splitlines(keepends=True) or ['x\n']     # what set_template_file's readlines() will see
    nl = len(template)
    gops, pops = [], []
    strs_bad = [{'s': s} for s in ('a b', '', 'x,y', '3', '-2.5', 'nan', 'two words', 'SectionA')]
    for _ in range(rng.randrange(1, 6)):
        r = rng.random()
        if r < 0.3:
            gops.append({'k': 'anchor', 'a': rng.choice(ANCHORS + ['1', 'a']), 'occ': rng.choice([1, 1, 2, -1, -2, 0, 3])})
        elif r < 0.36:
            gops.append({'k': 'reset'})
        elif r < 0.7:
            v = rng.choice(strs_bad) if rng.random() < 0.3 else rnd_value(rng)
            gops.append({'k': 'var', 'v': v, 'row': rng.randrange(-nl - 1, nl + 1), 'field': rng.randrange(0, 7)})
        elif r < 0.93:
            rs = rng.randrange(-1, nl)
            re_ = None if rng.random() < 0.5 else rs + rng.randrange(0, 3)
            vals = [rng.choice(strs_bad) if rng.random() < 0.15 else rnd_value(rng) for _ in range(rng.randrange(0, 7))]
            gops.append({'k': 'array', 'vals': vals, 'rs': rs, 'fs': rng.randrange(0, 5), 'fe': rng.randrange(0, 7),
                         're': re_, 'sep': rng.choice([', ', ' ', ',', delim]), 'np': False})
        else:
            gops.append({'k': 'clear', 'row': rng.randrange(-1, nl)})
    for _ in range(rng.randrange(1, 6)):
        r = rng.random()
        if r < 0.3:
            pops.append({'k': 'anchor', 'a': rng.choice(ANCHORS + ['1', 'a']), 'occ': rng.choice([1, 1, 2, -1, -2, 0])})
        elif r < 0.36:
            pops.append({'k': 'reset'})
        elif r < 0.8:
            pops.append({'k': 'var', 'row': rng.randrange(-nl - 1, nl + 1), 'field': rng.randrange(1, 8)})
        else:
            pops.append({'k': 'line', 'row': rng.randrange(-nl, nl)})
    return {'delim': delim, 'template': template, 'gops': gops, 'pops': pops, 'oracle': False, 'kind': 'junk'}


def sweep_cases():
    """every value of the pools written as a scalar into the middle field of a three-field line, for every
    delimiter; every junk / atomic token read back as a line of its own"""
    cases = []
    for delim in sorted(set(DELIMS)):
        d0 = delim[0]
        for v in INTS + FLOATS + SPECIALS + STRS:
            template = ['head%sx%s0.0%sy\n' % (delim, d0, d0), 'tail%s1\n' % d0]
            cases.append({'delim': delim, 'template': template,
                          'gops': [{'k': 'var', 'v': v, 'row': 0, 'field': 3}],
                          'pops': [{'k': 'var', 'row': 0, 'field': 3, 'w': v}, {'k': 'var', 'row': 1, 'field': 2}],
                          'oracle': True, 'kind': 'oracle:sweep-scalar'})
        for t in JUNK + INT_TOK + FLT_TOK + SPC_TOK + WORDS:
            if any(ch in delim for ch in t):
                continue
            cases.append({'delim': delim, 'template': ['a%s%s%sb\n' % (d0, t, d0)], 'gops': [],
                          'pops': [{'k': 'var', 'row': 0, 'field': 2}, {'k': 'var', 'row': 0, 'field': 3}],
                          'oracle': False, 'kind': 'tokens'})
    return cases


class C29(Spec):
    pid = 'C29'
    imports = ['C29.Model']
    impl_script = 'props/C29/impl.py'
    exactness = ('E1 (exact text): outcome class of every generator / parser operation, every line of the generated '
                 'file, the kind and text of every token the parser returns for every line '
                 '(float tokens by their text; float() itself is external)')
    shard = 150
    impl_jobs = 4
    prelude = 'From Coq Require Import Ascii. Definition NL := String "010"%char "". Definition TAB := String "009"%char "".'
    rule = ('scalar sweep: every int / float (incl. extremes, -0.0, inf, -inf, nan) / str of the pools x every delimiter '
            'set; token sweep: every atomic and glued token x delimiter; random templates of atomic fields with anchors, '
            'scalar writes, single-row / multi-row / stretched arrays (lists and numpy arrays) and mirrored reads '
            '(oracle applies); templates whose anchor occurs several times per line and in several lines with mark_anchor '
            'called repeatedly without reset (forward, backward), one write and the mirrored read (oracle applies); '
            'random junk templates and out-of-range operations (correspondence only)')
    assumptions = ["Python's % formatting and float() are external: the model receives '%.1f' % v and '%.16g' % v as text "
                   "and only chooses; float tokens are compared by their text",
                   'the oracle applies to templates whose fields are single parser tokens and to written strings that '
                   'are plain words (a field like 12abc is two parser tokens: generator and parser count fields differently)',
                   'delimiters: space, tab, comma, semicolon, colon, equals (characters that are safe inside the '
                   "generator's regular-expression character class); 'columns' mode, transfer_keyvar, 2-D arrays and comment "
                   'characters are not covered']

    def __init__(self):
        cfg = json.load(open(os.path.join(HERE, 'model_cfg.json')))
        self.cfg = '(mkcfg %s %s %s)' % (boollit(cfg['special_floats_roundtrip']), boollit(cfg['stretch_keeps_newline']),
                                        boollit(cfg['mixed_exp_leading_sign']))

    def gen(self, tier, rng):
        cases = sweep_cases()
        n = 400 if tier == "quick" else 10000
        for _ in range(n):
            cases.append(oracle_case(rng))
        for _ in range(n // 2):
            cases.append(junk_case(rng))
        for _ in range(n // 2):
            cases.append(anchor_case(rng))
        return cases

    def search_gen(self, tier, rng):
        return [oracle_case(rng) for _ in range(900)] + [anchor_case(rng) for _ in range(300)]

    def got_term(self, c):
        return '(v_run %s %s [%s] [%s] [%s])' % (
            self.cfg, cstr(c['delim']), '; '.join(cstr(l) for l in c['template']),
            '; '.join(gop_term(o) for o in c['gops']), '; '.join(pop_term(o) for o in c['pops']))

    def shrink(self, c):
        for i in range(len(c['gops'])):
            g2 = c['gops'][:i] + c['gops'][i + 1:]
            if c['gops'][i]['k'] in ('var', 'array', 'clear'):
                yield dict(c, gops=g2, pops=[p for p in c['pops'] if 'w' not in p or p.get('row') != c['gops'][i].get('row')])
        for i in range(len(c['pops'])):
            if c['pops'][i]['k'] in ('var', 'line') and 'w' not in c['pops'][i]:
                yield dict(c, pops=c['pops'][:i] + c['pops'][i + 1:])
        for i, o in enumerate(c['gops']):
            if o['k'] == 'array' and len(o['vals']) > 1 and o['re'] is None and o['fe'] > o['fs']:
                yield dict(c, gops=c['gops'][:i] + [dict(o, vals=o['vals'][:-1], fe=o['fe'] - 1)] + c['gops'][i + 1:])


def main(tier):
    return standard_check(C29(), tier)
