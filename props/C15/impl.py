"""C15 implementation side: the real InterpND / MetaModelStructuredComp / InterpAlgorithm.bracket of /repo.

Per case the property's own oracle is evaluated on the real code:
  * extrapolate=False: an error is raised exactly when some coordinate lies outside its grid, and the error
    is the documented one (OutOfBoundsError; AnalysisError from the component);
  * in-bounds points on grid nodes return the table value;
  * tables of a function the method is exact for (multilinear / tensor quadratic / tensor cubic) are
    reproduced at every in-bounds point;
  * fixed-dimension variants agree with the general method; the component agrees with InterpND.
Exact rational arithmetic (fractions) is the reference; dyadic 'exact' cases are compared with ==.
"""
import warnings
from fractions import Fraction as Fr
import numpy as np
from implutil import main, q, err

warnings.simplefilter('ignore')
import openmdao.api as om  # noqa: E402
from openmdao.components.interp_util.interp import InterpND  # noqa: E402
from openmdao.components.interp_util.interp import INTERP_METHODS  # noqa: E402
from openmdao.components.interp_util.outofbounds_error import OutOfBoundsError  # noqa: E402
from openmdao.core.analysis_error import AnalysisError  # noqa: E402

TOL = 1e-9
DEG = {'slinear': 1, 'lagrange2': 2, 'lagrange3': 3, 'akima': 1, 'cubic': 1}


def fr(p):
    return Fr(int(p[0]), int(p[1]))


def close(a, b, exact, extra=0):
    """a: float from the code, b: Fraction reference; extra: additional absolute tolerance (rounding bound)."""
    if exact:
        return Fr(float(a)) == b
    return abs(Fr(float(a)) - b) <= max(Fr(TOL) * max(1, abs(b)), Fr(extra))


KEPS = 64 * 2.0 ** -52


def coef_form_bound(method, gfr, tfr, pt):
    """Rounding bound for the fixed-dimension classes (1D/2D/3D-slinear/lagrange2/lagrange3).

    These classes expand the cell polynomial into monomials, a[m,n,p] = sum_ijk termx[m,i] termy[n,j]
    termz[p,k] v[i,j,k], and evaluate sum a[m,n,p] tx^m ty^n tz^p with t = x - (first stencil node)
    (slinear: raw coordinates).  Every elementary product appears in
        S = sum_ijk |v_ijk| * prod_d A_d,i ,   A_d,i = sum_m |c_d,i,m| |t_d|^m
    (c_d,i,m the monomial coefficients of the i-th Lagrange basis polynomial of the stencil in t), so the
    computed value differs from the exact one by at most ~ n_ops * u * S; we allow 64 * 2^-52 * S (the largest
    error observed over 13000 points of the thorough stream is 1.9 * 2^-52 * S).
    S is computed here with exact rationals, maximised over the cells a point on a node may be assigned to."""
    import itertools
    nd = len(gfr)
    width = {'slinear': 2, 'lagrange2': 3, 'lagrange3': 4}[method]
    per_dim = []
    for d in range(nd):
        g, x = gfr[d], pt[d]
        n = len(g)
        cells = [i for i in range(n - 1) if g[i] <= x <= g[i + 1]]
        if not cells:
            cells = [0] if x < g[0] else [n - 2]
        opts = []
        for i in cells:
            if method == 'slinear':
                lo, shift = i, Fr(0)
            elif method == 'lagrange2':
                lo = min(i, n - 3)
                shift = g[lo]
            else:
                lo = min(max(i, 1), n - 3) - 1
                shift = g[lo]
            nodes = list(range(lo, lo + width))
            t = abs(x - shift)
            A = []
            for s_ in nodes:
                coef = [Fr(1)]                    # monomial coefficients (lowest first) of prod (T - r_k)/(g_s - g_k)
                for r in nodes:
                    if r == s_:
                        continue
                    root, den = g[r] - shift, g[s_] - g[r]
                    new = [Fr(0)] * (len(coef) + 1)
                    for m, cm in enumerate(coef):
                        new[m + 1] += cm / den
                        new[m] -= cm * root / den
                    coef = new
                A.append(sum(abs(cm) * t ** m for m, cm in enumerate(coef)))
            opts.append((nodes, A))
        per_dim.append(opts)
    best = Fr(0)
    for combo in itertools.product(*per_dim):
        S = Fr(0)
        for idx in itertools.product(*[range(width)] * nd):
            v = tfr
            w = Fr(1)
            for d in range(nd):
                v = v[combo[d][0][idx[d]]]
                w *= combo[d][1][idx[d]]
            S += abs(v) * w
        best = max(best, S)
    return float(best) * KEPS


def nested_get(t, ks):
    for k in ks:
        t = t[k]
    return t


def poly_eval(poly, xs):
    s = Fr(0)
    for coef, exps in poly:
        term = fr(coef)
        for x, e in zip(xs, exps):
            term *= x ** e
        s += term
    return s


def run_interp(method, grids, table, extrap, pts, history=False, calls=None):
    it = InterpND(method=method, points=tuple(grids), values=table, extrapolate=extrap)
    if calls:
        # one interpolant object, a sequence of calls with one or several points each
        out, k = [], 0
        for n in calls:
            out += [float(v) for v in np.ravel(it.interpolate(pts[k:k + n].copy()))]
            k += n
        return out
    if history:
        # one interpolant object, one single-point call per query (the object keeps its bracket indices
        # and coefficient caches from call to call)
        return [float(np.ravel(it.interpolate(pts[j].reshape(1, -1).copy()))[0]) for j in range(len(pts))]
    return it.interpolate(pts)


def run_comp(method, grids, table, extrap, pts, history=False, calls=None):
    nd = len(grids)
    if history:
        comp = om.MetaModelStructuredComp(method=method, extrapolate=extrap, vec_size=1)
        for i in range(nd):
            comp.add_input('x%d' % i, 0.0, grids[i])
        comp.add_output('f', 0.0, table)
        prob = om.Problem()
        prob.model.add_subsystem('comp', comp, promotes=['*'])
        prob.setup()
        out = []
        for j in range(len(pts)):
            for i in range(nd):
                prob.set_val('x%d' % i, pts[j, i])
            prob.run_model()
            out.append(float(np.ravel(prob.get_val('f'))[0]))
        return out
    comp = om.MetaModelStructuredComp(method=method, extrapolate=extrap, vec_size=len(pts))
    for i in range(nd):
        comp.add_input('x%d' % i, 0.0, grids[i])
    comp.add_output('f', 0.0, table)
    prob = om.Problem()
    prob.model.add_subsystem('comp', comp, promotes=['*'])
    prob.setup()
    for i in range(nd):
        prob.set_val('x%d' % i, pts[:, i])
    prob.run_model()
    return np.array(prob.get_val('f')).ravel()


def handle_bracket(c):
    grid = np.array([float(fr(p)) for p in c['grid']])
    cls = INTERP_METHODS['slinear']
    t = cls((grid,), np.zeros(len(grid)), cls)
    t.last_index = int(c['last'])
    x = fr(c['x'])
    idx, flag = t.bracket(float(x))
    idx, flag = int(idx), int(flag)
    g = [fr(p) for p in c['grid']]
    hb = len(g) - 1
    # oracle: the returned interval contains x; the flag says on which side x left the grid
    if x < g[0]:
        ok = flag == -1
    elif x > g[hb]:
        ok = flag == 1
    else:
        ok = flag == 0 and 0 <= idx <= hb and g[idx] <= x <= g[min(idx + 1, hb)]
    return {'res': [idx, flag], 'ok': ok, 'kind': 'bracket',
            'sig': 'bracket', 'msg': '' if ok else 'bracket(grid=%s,last=%d,x=%s) -> (%d,%d)' % (
                [str(v) for v in g], c['last'], x, idx, flag)}


def handle(c):
    if c['kind'] == 'bracket':
        return handle_bracket(c)
    method, nd = c['method'], len(c['grids'])
    gfr = [[fr(p) for p in g] for g in c['grids']]
    pfr = [[fr(p) for p in pt] for pt in c['pts']]
    grids = [np.array([float(v) for v in g]) for g in gfr]

    def conv(t, d):
        return [conv(s, d - 1) for s in t] if d > 0 else fr(t)
    tfr = conv(c['table'], nd)
    table = np.array(conv(c['table'], nd), dtype=object).astype(float)
    pts = np.array([[float(v) for v in pt] for pt in pfr])
    extrap = bool(c['extrap'])
    exact = c['cmp'] == 'exact'
    name = method if c['variant'] == 'general' else '%dD-%s' % (nd, method)
    kind = '%s/%s/%dD/%s/%s%s' % (name, c['via'], nd, 'extrap' if extrap else 'strict', c.get('pkind', ''),
                               ('/calls' if c.get('calls') else '/history') if c.get('history') else '')

    outside = [(j, i) for j, pt in enumerate(pfr) for i in range(nd)
               if pt[i] < gfr[i][0] or pt[i] > gfr[i][-1]]
    expect_err = (not extrap) and bool(outside)
    first_dim = min(i for _, i in outside) if outside else None

    runner = run_comp if c['via'] == 'comp' else run_interp
    vals, exc = None, None
    try:
        vals = np.array(runner(name, grids, table, extrap, pts, bool(c.get('history')), c.get('calls')), dtype=float).ravel()
    except Exception as e:   # noqa
        exc = e

    ok, msg, sig = True, '', ''
    if exc is not None:
        proper = isinstance(exc, OutOfBoundsError) or isinstance(exc, AnalysisError)
        if isinstance(exc, OutOfBoundsError):
            dim = int(exc.idx)
        elif isinstance(exc, AnalysisError):
            s = str(exc)
            k = s.find("input 'comp.x")
            dim = int(s[k + 13]) if k >= 0 else -1
        else:
            dim = -1
        res = [err(1 if proper else 2), dim]
        if not expect_err:
            ok = False
            sig = 'in-bounds-rejected' if not extrap else 'error-with-extrapolate'
            msg = '%s on grids %s (extrapolate=%s), calls %s: point(s) %s must not raise (in-bounds, or extrapolation allowed) but %s was raised: %s' % (
                name, [[str(v) for v in g] for g in gfr], extrap, c.get('calls') or ('one point per call' if c.get('history') else 'one call'),
                [[str(v) for v in p] for p in pfr], type(exc).__name__, str(exc)[:120])
        elif not proper:
            ok = False
            sig = 'wrong-error-class'
            msg = '%s: out-of-bounds point reported with %s: %s' % (name, type(exc).__name__, str(exc)[:120])
        elif dim != first_dim:
            ok = False
            sig = 'wrong-error-dimension'
            msg = '%s: out-of-bounds error names dimension %d, first violated dimension is %d' % (name, dim, first_dim)
        return {'res': res, 'ok': ok, 'msg': msg, 'sig': sig, 'kind': kind}

    res = [q(v) for v in vals]
    if expect_err:
        return {'res': res, 'ok': False, 'sig': 'out-of-bounds-accepted', 'kind': kind,
                'msg': '%s on grids %s with extrapolate=False accepted the out-of-bounds point(s) %s' % (
                    name, [[str(v) for v in g] for g in gfr], [[str(v) for v in p] for p in pfr])}
    if len(vals) != len(pfr) or not np.all(np.isfinite(vals)):
        return {'res': '__none__', 'ok': False, 'sig': 'bad-result', 'kind': kind,
                'msg': '%s returned %r' % (name, vals)}

    gen_vals = None
    if c['variant'] == 'fixed' or c['via'] == 'comp':
        try:
            gen_vals = np.array(run_interp(method if c['variant'] == 'fixed' else name, grids, table, True, pts),
                                dtype=float).ravel()
        except Exception as e:   # noqa
            gen_vals = None
    coef_form = c['variant'] == 'fixed' and method in ('slinear', 'lagrange2', 'lagrange3')
    bounds = [coef_form_bound(method, gfr, tfr, pt) if coef_form else 0.0 for pt in pfr]
    relb = max([b / max(1.0, abs(float(v))) for b, v in zip(bounds, vals)] + [0.0])
    for j, pt in enumerate(pfr):
        inb = all(gfr[i][0] <= pt[i] <= gfr[i][-1] for i in range(nd))
        if not inb:
            continue
        xb = bounds[j]
        # node exactness
        if all(pt[i] in gfr[i] for i in range(nd)):
            want = nested_get(tfr, [gfr[i].index(pt[i]) for i in range(nd)])
            if not close(vals[j], want, exact, xb):
                ok, sig = False, 'node-value'
                msg = '%s at grid node %s returned %r, table value is %s' % (name, [str(v) for v in pt], vals[j], want)
                break
        # reproduction of the functions the method is exact for
        if c.get('poly') is not None:
            want = poly_eval(c['poly'], pt)
            if not close(vals[j], want, exact, xb):
                ok, sig = False, 'reproduction'
                msg = '%s on the table of %s at %s returned %r, the function value is %s' % (
                    name, c['poly'], [str(v) for v in pt], vals[j], want)
                break
        # fixed-dimension variant agrees with the general one / component agrees with InterpND
        if gen_vals is not None:
            a, b = float(vals[j]), float(gen_vals[j])
            if c['via'] == 'comp' and c['variant'] == 'general':
                same = a == b
            else:
                same = abs(a - b) <= max(TOL * max(1.0, abs(b)), xb)
            if not same:
                ok, sig = False, 'variant-disagrees'
                msg = '%s (%s) at %s returned %r, InterpND %s returns %r' % (
                    name, c['via'], [str(v) for v in pt], a, method, b)
                break
    return {'res': res, 'ok': ok, 'msg': msg, 'sig': sig, 'kind': kind, 'relbound': relb}


if __name__ == '__main__':
    main(handle)
