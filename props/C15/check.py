"""C15 -- table interpolation is exact on nodes and reproduces its polynomial degree."""
import json
import os
import random
from fractions import Fraction as Fr

import core
from core import Spec, qlit, boollit

METHODS = ['slinear', 'lagrange2', 'lagrange3', 'akima', 'cubic']
COQ_M = {'slinear': 'Slinear', 'lagrange2': 'Lagrange2', 'lagrange3': 'Lagrange3', 'akima': 'Akima', 'cubic': 'Cubic'}
KMIN = {'slinear': 2, 'lagrange2': 3, 'lagrange3': 4, 'akima': 4, 'cubic': 4}
DEG = {'slinear': 1, 'lagrange2': 2, 'lagrange3': 3, 'akima': 1, 'cubic': 1}
FIXED = {('slinear', 1), ('slinear', 2), ('slinear', 3), ('lagrange2', 1), ('lagrange2', 2), ('lagrange2', 3),
         ('lagrange3', 1), ('lagrange3', 2), ('lagrange3', 3), ('akima', 1)}
SIGNS = ['neg', 'negzero', 'straddle0', 'straddle', 'zeropos', 'pos']


def pj(x):
    x = Fr(x)
    return [x.numerator, x.denominator]


def fj(p):
    return Fr(p[0], p[1])


def gen_grid(rng, n, mode, sign):
    if mode == 'uniform':
        sp = [Fr(2) ** rng.choice([-2, -1, 0, 0, 1])] * (n - 1)
    elif mode == 'pow2':
        sp = [Fr(2) ** rng.choice([-2, -1, 0, 1, 2]) for _ in range(n - 1)]
    else:
        sp = [Fr(rng.randrange(1, 13), 4) for _ in range(n - 1)]
    rel = [Fr(0)]
    for s in sp:
        rel.append(rel[-1] + s)
    span = rel[-1]
    if sign == 'straddle0' and n < 3:
        sign = 'straddle'
    if sign == 'neg':
        gn = -rng.choice([Fr(1, 4), Fr(1, 2), Fr(1), Fr(2), Fr(3), Fr(5)])
        while (span - gn) / (-gn) > 24:       # keeps 1e-14*|g_n| well above one ulp of g_0
            gn *= 2
        off = gn - span
    elif sign == 'negzero':
        off = -span
    elif sign == 'straddle0':
        off = -rel[rng.randrange(1, n - 1)]
    elif sign == 'straddle':
        j = rng.randrange(0, n - 1)
        off = -(rel[j] + sp[j] * rng.choice([Fr(1, 4), Fr(1, 2), Fr(3, 4)]))
    elif sign == 'zeropos':
        off = Fr(0)
    else:
        off = rng.choice([Fr(1, 4), Fr(1, 2), Fr(1), Fr(2), Fr(7)])
    return [off + r for r in rel]


def gen_coord(rng, g, kind):
    n = len(g)
    if kind == 'node':
        return g[rng.randrange(n)]
    if kind == 'lo':
        return g[0]
    if kind == 'hi':
        return g[-1]
    if kind == 'cell':
        i = rng.randrange(n - 1)
        return g[i] + (g[i + 1] - g[i]) * Fr(rng.randrange(1, 4), 4)
    d = rng.choice([Fr(1, 4), Fr(1, 2), Fr(1), Fr(3)])
    return g[0] - d if kind == 'below' else g[-1] + d


def gen_points(rng, grids, want_out):
    npts = rng.choice([1, 1, 2, 3, 4])
    pts, kinds = [], set()
    for j in range(npts):
        pt = []
        for g in grids:
            k = rng.choice(['node', 'node', 'lo', 'hi', 'cell', 'cell', 'cell'])
            pt.append(k)
        pts.append(pt)
    if want_out:
        j, i = rng.randrange(npts), rng.randrange(len(grids))
        pts[j][i] = rng.choice(['below', 'above'])
        if rng.random() < 0.3:
            j, i = rng.randrange(npts), rng.randrange(len(grids))
            pts[j][i] = rng.choice(['below', 'above'])
    out = []
    for pt in pts:
        out.append([gen_coord(rng, g, k) for g, k in zip(grids, pt)])
        kinds.update(pt)
    return out, kinds


def gen_poly(rng, nd, deg):
    terms = []
    for _ in range(rng.randrange(1, 5)):
        exps = [rng.randrange(0, deg + 1) for _ in range(nd)]
        terms.append([pj(rng.choice([-3, -2, -1, 1, 2, 3, Fr(1, 2)])), exps])
    return terms


def poly_eval(poly, xs):
    s = Fr(0)
    for coef, exps in poly:
        t = fj(coef)
        for x, e in zip(xs, exps):
            t *= x ** e
        s += t
    return s


def tabulate(grids, f, prefix=()):
    if len(prefix) == len(grids):
        return f(list(prefix))
    return [tabulate(grids, f, prefix + (a,)) for a in grids[len(prefix)]]


def flat(t):
    return [v for s in t for v in flat(s)] if isinstance(t, list) else [t]


def to_json(t):
    return [to_json(s) for s in t] if isinstance(t, list) else pj(t)


def fits53(v):
    v = Fr(v)
    d = v.denominator
    return d & (d - 1) == 0 and abs(v.numerator).bit_length() <= 50 and d.bit_length() <= 40


def gen_case(rng, method, nd, variant, via, tier):
    exact_ok = method in ('slinear', 'lagrange2')
    mode = rng.choice(['uniform', 'pow2', 'any'])
    if exact_ok and rng.random() < 0.6:
        mode = 'uniform' if method == 'lagrange2' else rng.choice(['uniform', 'pow2'])
    extra = 3 if nd == 1 else (2 if nd == 2 else 1)
    grids = [gen_grid(rng, KMIN[method] + rng.randrange(0, extra + 1), mode, rng.choice(SIGNS)) for _ in range(nd)]
    poly = None
    if rng.random() < 0.5:
        poly = gen_poly(rng, nd, DEG[method])
        table = tabulate(grids, lambda xs: poly_eval(poly, xs))
    else:
        table = tabulate(grids, lambda xs: Fr(rng.randrange(-40, 41), 4))
    if not all(fits53(v) and abs(v) <= 1024 for v in flat(table)):
        return None
    extrap = rng.random() < 0.35
    want_out = rng.random() < (0.5 if extrap else 0.3)
    pts, kinds = gen_points(rng, grids, want_out)
    exact = exact_ok and (mode == 'uniform' or (method == 'slinear' and mode == 'pow2'))
    return {'kind': 'interp', 'method': method, 'variant': variant, 'via': via,
            'grids': [[pj(v) for v in g] for g in grids], 'table': to_json(table), 'poly': poly,
            'extrap': extrap, 'pts': [[pj(v) for v in p] for p in pts],
            'cmp': 'exact' if exact else 'tol',
            'pkind': ('out' if kinds & {'below', 'above'} else 'in') + ('+poly' if poly else '+table')}


def gen_history(rng, method, nd, variant, via):
    """One interpolant object, a sequence of single-point calls; with extrapolate=True out-of-table points
    are queried before and between in-bounds points (caches keyed by cell must not leak between them)."""
    c = None
    while c is None:
        c = gen_case(rng, method, nd, variant, via, 'quick')
    grids = [[fj(v) for v in g] for g in c['grids']]
    extrap = rng.random() < 0.7
    npts = rng.randrange(3, 7)
    pts = []
    for j in range(npts):
        pt = []
        for g in grids:
            if extrap and (rng.random() < (0.7 if j == 0 else 0.3)):
                k = rng.choice(['below', 'above'])
            else:
                k = rng.choice(['node', 'lo', 'hi', 'cell', 'cell', 'end'])
            if k == 'end':      # interior of the first / last cell, next to the extrapolation regions
                i = rng.choice([0, len(g) - 2])
                pt.append(g[i] + (g[i + 1] - g[i]) * Fr(rng.randrange(1, 4), 4))
            else:
                pt.append(gen_coord(rng, g, k))
        pts.append(pt)
    out = any(p[i] < g[0] or p[i] > g[-1] for p in pts for i, g in enumerate(grids))
    if via == 'interp' and rng.random() < 0.45:
        # mixed history: calls with several points (vectorised path of the fixed classes) followed by
        # one-point calls on the same object
        sizes, left = [], npts
        while left > 0:
            n = min(left, rng.choice([1, 1, 2, 3]) if sizes else rng.choice([2, 2, 3]))
            sizes.append(n)
            left -= n
        c['calls'] = sizes
    c.update({'extrap': extrap, 'pts': [[pj(v) for v in p] for p in pts], 'history': True,
              'pkind': ('out' if out else 'in') + ('+poly' if c['poly'] else '+table')})
    return c


def boundary_cases():
    """Boundary nodes of grids of every sign class, every method (the documented in-bounds extremes)."""
    out = []
    for method in METHODS:
        n = KMIN[method]
        for start in (-n - 1, -n, -n + 1, -1, 0, 2):      # all-negative, ending at -1, ending at 0, ...
            g = [Fr(start + k) for k in range(n)]
            tab = [Fr((k * k) % 5 - 1) for k in range(n)]
            for p in (g[0], g[-1], g[1]):
                for via in ('interp', 'comp'):
                    out.append({'kind': 'interp', 'method': method, 'variant': 'general', 'via': via,
                                'grids': [[pj(v) for v in g]], 'table': to_json(tab), 'poly': None,
                                'extrap': False, 'pts': [[pj(p)]],
                                'cmp': 'exact' if method in ('slinear', 'lagrange2') else 'tol',
                                'pkind': 'boundary+table'})
    return out


def bracket_cases(rng, tier):
    out = []
    nmax = 6 if tier == 'quick' else 8
    for n in range(2, nmax + 1):
        for rep in range(4):
            g = gen_grid(rng, n, rng.choice(['uniform', 'pow2', 'any']), SIGNS[(rep + n) % len(SIGNS)])
            xs = set(g)
            for i in range(n - 1):
                xs.add((g[i] + g[i + 1]) / 2)
            xs.update([g[0] - 1, g[0] - Fr(1, 4), g[-1] + Fr(1, 4), g[-1] + 2])
            for last in range(n):
                for x in sorted(xs):
                    out.append({'kind': 'bracket', 'grid': [pj(v) for v in g], 'last': last, 'x': pj(x)})
    return out


def tensor_term(t):
    if isinstance(t[0], list):
        return '(Node [%s])' % '; '.join(tensor_term(s) for s in t)
    return '(Leaf %s)' % qlit(fj(t))


def qlist_term(ps):
    return '[%s]' % '; '.join(qlit(fj(p)) for p in ps)


class C15(Spec):
    pid = 'C15'
    imports = ['C15.Model', 'C15.ModelFixed']
    impl_script = 'props/C15/impl.py'
    impl_jobs = 4
    exactness = 'E3 dyadic-exact (slinear on power-of-two spacings, lagrange2 on uniform grids, bracket search); E4 1e-9 otherwise'
    rule = ('random strictly increasing dyadic grids of six sign classes (all negative, ending at 0, 0 as interior node, '
            '0 inside a cell, starting at 0, all positive), uniform / power-of-two / arbitrary spacings, dimension 1-3, '
            'five methods, general and fixed-dimension variants, InterpND and MetaModelStructuredComp, tables of random '
            'values and of tensor polynomials of the method degree, 1-4 query points per call drawn from nodes, '
            'boundary nodes, cell interiors and outside points, extrapolate on/off; histories: one interpolant object, '
            '3-6 single-point calls (or mixed multi-point / single-point calls) mixing out-of-table (extrapolate=True) and in-bounds points; bracket search exhaustive over '
            'cached index x node/midpoint/outside queries; every case is a distinct configuration')

    def gen(self, tier, rng):
        cases = boundary_cases() + bracket_cases(rng, tier)
        count = 1000 if tier == 'quick' else 20000
        nh = 450 if tier == 'quick' else 3600
        for k in range(nh):
            method = METHODS[k % len(METHODS)]
            nd = rng.choice([1, 1, 1, 2, 3]) if method != 'akima' else rng.choice([1, 1, 1, 1, 2])
            variant = 'fixed' if (method, nd) in FIXED and rng.random() < 0.7 else 'general'
            via = 'comp' if rng.random() < 0.1 else 'interp'
            cases.append(gen_history(rng, method, nd, variant, via))
        k = 0
        while k < count:
            method = METHODS[k % len(METHODS)]
            nd = rng.choice([1, 1, 2, 2, 3])
            variant = 'fixed' if (method, nd) in FIXED and rng.random() < 0.35 else 'general'
            via = 'comp' if rng.random() < 0.08 else 'interp'
            c = gen_case(rng, method, nd, variant, via, tier)
            if c is not None:
                cases.append(c)
                k += 1
        return cases

    def search_gen(self, tier, rng):
        return self.gen('quick', rng)

    def got_term(self, c):
        if c['kind'] == 'bracket':
            return '(run_bracket %s (%d) %s)' % (qlist_term(c['grid']), c['last'], qlit(fj(c['x'])))
        if c['variant'] == 'fixed' and len(c['grids']) == 1 and c['method'] in ('slinear', 'lagrange2', 'lagrange3'):
            # the 1-D fixed classes have their own executable model (coefficient form + their cell search),
            # proved equal to the general method over Q (C15_fixed1_eq_general)
            if c.get('calls'):
                xs, k, groups = [p[0] for p in c['pts']], 0, []
                for n in c['calls']:
                    groups.append(qlist_term(xs[k:k + n]))
                    k += n
                return '(run_fixed1_calls %s %s %s %s [%s])' % (
                    COQ_M[c['method']], qlist_term(c['grids'][0]), tensor_term(c['table']), boollit(c['extrap']),
                    '; '.join(groups))
            return '(run_fixed1 %s %s %s %s %s %s)' % (
                COQ_M[c['method']], qlist_term(c['grids'][0]), tensor_term(c['table']), boollit(c['extrap']),
                boollit(bool(c.get('history'))), qlist_term([p[0] for p in c['pts']]))
        return '(run_fixed %s [%s] %s %s [%s])' % (
            COQ_M[c['method']], '; '.join(qlist_term(g) for g in c['grids']), tensor_term(c['table']),
            boollit(c['extrap']), '; '.join(qlist_term(p) for p in c['pts']))

    def shrink(self, c):
        if c['kind'] != 'interp':
            return
        if c.get('calls'):
            return
        if len(c['pts']) > 1 and c.get('history'):
            for j in range(len(c['pts'])):
                yield dict(c, pts=c['pts'][:j] + c['pts'][j + 1:])
        elif len(c['pts']) > 1:
            for j in range(len(c['pts'])):
                yield dict(c, pts=[c['pts'][j]])
        if c['via'] == 'comp':
            yield dict(c, via='interp')
        if c['variant'] == 'fixed':
            yield dict(c, variant='general')


def main(tier):
    spec = C15()
    seed = core.seed_from_env()
    rng = random.Random(seed * 1000003 + sum(map(ord, spec.pid)))
    wd = core.workdir(spec.pid, tier)
    v = core.Verdict(spec.pid, tier, seed)
    v.cov['rule'] = spec.rule
    v.assumptions = ['binary64 rounding is not modelled: the model is exact rational arithmetic; exact comparison on '
                     'dyadic data where every float operation of the code is exact, relative tolerance 1e-9 elsewhere',
                     'fixed-dimension variants (1D/2D/3D-*) and MetaModelStructuredComp are tied to the model of the '
                     'general method by the correspondence, not modelled separately',
                     'NaN inputs, complex tables and the scipy_* wrappers are outside the model']
    gate = core.proof_gate(spec.pid, wd)
    v.add_proof(gate)
    cases = core.load_corpus(spec.pid) + list(spec.gen(tier, rng))
    results, log = core.run_impl(spec.impl_script, cases, wd, jobs=spec.impl_jobs)
    if results is None:
        v.broke('correspondence:implementation-run-failed')
        v.cov['broken_detail'] = log[-3000:]
        return v.finish()
    core._oracle_pass(spec, v, cases, results, wd)

    bad_cases = []
    def group(c, r):
        # in-bounds values: 1e-9 (or exact).  Two sources of legitimate float error get a wider, still
        # per-case justified tolerance: (1) out-of-table points of non-dyadic cases (cancellation in
        # extrapolation): 1e-6; (2) the coefficient-form fixed-dimension classes: the rounding bound
        # 64*2^-52*S computed per case with exact rationals by impl.coef_form_bound (relative to max(1,|value|)).
        g = c.get('cmp', 'exact')
        if c.get('kind') != 'interp' or g == 'exact':
            return g
        if c.get('pkind', '').startswith('out'):
            g = 'loose'
        rb = r.get('relbound', 0.0) or 0.0
        if rb > 1e-3:
            return 'skip'          # too ill-conditioned for a meaningful comparison (oracle still applies its bound)
        if rb > 1e-6:
            return 'vloose'
        if rb > 1e-9:
            return 'loose'
        return g
    for grp, tol in (('exact', None), ('tol', Fr(1, 10 ** 9)), ('loose', Fr(1, 10 ** 6)), ('vloose', Fr(1, 10 ** 3))):
        idx = [i for i in range(len(cases)) if spec.compare_case(cases[i], results[i]) and
               group(cases[i], results[i]) == grp]
        got = [spec.got_term(cases[i]) for i in idx]
        want = [spec.want_term(cases[i], results[i]) for i in idx]
        bad, errors, cmd = core.coq_mismatches(wd, spec.imports, got, want, shard=320, tol=tol, tag='cases_' + grp)
        v.add_correspondence('model-vs-implementation (%s)' % grp, len(idx), len(bad),
                             'E3 exact' if tol is None else 'E4 rel %s' % {'tol': '1e-9', 'loose': '1e-6 (out-of-table points / coefficient-form rounding bound)',
                                                                        'vloose': '1e-3 (coefficient-form rounding bound above 1e-6)'}[grp], cmd)
        if errors:
            v.broke('correspondence:model-evaluation-failed (%s)' % grp)
            v.cov['broken_detail'] = json.dumps(errors[:2])[-3000:]
        if bad:
            v.broke('correspondence:model-vs-implementation %s (%d of %d cases differ)' % (grp, len(bad), len(idx)))
            show = [idx[b] for b in bad[:3]]
            bad_cases += [cases[idx[b]] for b in bad[:100]]
            v.cov['broken_detail'] = json.dumps(
                {'first_mismatching_cases': [cases[i] for i in show],
                 'implementation': [results[i].get('res') for i in show],
                 'model': core.coq_show(wd, spec.imports, [spec.got_term(cases[i]) for i in show])})[-6000:]
    if v.broken and not v.violations:
        rng2 = random.Random(seed + 77)
        extra = bad_cases + list(spec.search_gen(tier, rng2))
        res2, _ = core.run_impl(spec.impl_script, extra, wd, tag='search', jobs=spec.impl_jobs)
        if res2 is not None:
            core._oracle_pass(spec, v, extra, res2, wd)
    if v.violations:
        v.violations[0]['case'] = core._shrink(spec, v.violations[0]['case'], wd, v)
    return v.finish()


def replay(rep):
    case = rep.get('case')
    wd = core.workdir('C15', 'replay')
    res, log = core.run_impl('props/C15/impl.py', [case], wd, jobs=1)
    print(json.dumps({'case': case, 'result': res, 'log': log[-500:]}, indent=1)[:4000])
    return 0 if res and res[0].get('ok') else 1
