"""C13 — derivative checks report exactly what they compare."""
from fractions import Fraction
import core
from core import Spec, standard_check, qlit

KINDS = {'dense': 0, 'rowscols': 1, 'coo': 1, 'csr': 2, 'csc': 3, 'diag': 4}
THR = '(1 # 10000000000000000)'


def qm(m, mask=None):
    """matrix of half-integers -> Gallina list (list Q); entries outside mask are zero"""
    rows = []
    for r, row in enumerate(m):
        rows.append('[%s]' % '; '.join(qlit(Fraction(v, 2) if (mask is None or mask[r][k]) else 0)
                                       for k, v in enumerate(row)))
    return '[%s]' % '; '.join(rows)


def entries(pat):
    return '([%s])%%nat' % '; '.join('(%d, %d)' % (r, c) for r, c in pat)


def rnd_matrix(rng, nr, nc, dens):
    vals = [-6, -5, -4, -3, -2, -1, 1, 2, 3, 4, 5, 6, 7, 8, 9, 12]      # halves
    return [[rng.choice(vals) if rng.random() < dens else 0 for _ in range(nc)] for _ in range(nr)]


def partial_case(rng, fmt=None, under=None):
    fmt = fmt or rng.choice(['dense', 'rowscols', 'rowscols', 'diag', 'coo', 'csr', 'csc'])
    if fmt == 'diag':
        nr = nc = rng.randrange(1, 6)
    else:
        nr, nc = rng.randrange(1, 6), rng.randrange(1, 6)
    fd = rnd_matrix(rng, nr, nc, rng.choice([0.3, 0.6, 0.9]))
    under = rng.random() < 0.5 if under is None else under
    if fmt == 'dense':
        pat = [[r, c] for r in range(nr) for c in range(nc)]
    elif fmt == 'diag':
        pat = [[i, i] for i in range(nr)]
        if not under:
            fd = [[fd[r][c] if r == c else 0 for c in range(nc)] for r in range(nr)]
    else:
        nz = [[r, c] for r in range(nr) for c in range(nc) if fd[r][c] != 0]
        extra = [[r, c] for r in range(nr) for c in range(nc) if fd[r][c] == 0 and rng.random() < 0.2]
        if under:       # the declared pattern misses some of the true nonzeros, in several columns
            keep = [e for e in nz if rng.random() < rng.choice([0.3, 0.6, 0.8])]
        else:
            keep = nz
        pat = keep + extra
        rng.shuffle(pat)
        if not pat:
            pat = [[0, 0]]
        if fmt in ('csr', 'csc'):
            pat.sort(key=(lambda e: (e[0], e[1])) if fmt == 'csr' else (lambda e: (e[1], e[0])))
    an = [list(row) for row in fd]
    wrong = rng.random() < 0.5
    if wrong:           # wrong analytic values on some entries
        for _ in range(rng.randrange(1, 4)):
            r, c = rng.randrange(nr), rng.randrange(nc)
            an[r][c] += rng.choice([-4, -1, 1, 2, 6])
    method = rng.choice(['fd', 'fd', 'cs'])
    x = [rng.randrange(-4, 5) for _ in range(nc)]
    quad = None
    const = fmt != 'csr' and rng.random() < 0.2      # constant declared partials, no compute_partials
    if not const and rng.random() < 0.5:            # nonlinear: the approximation depends on the step
        quad = [[rng.choice([-4, -2, 2, 4, 6]) if (fd[r][c] != 0 and rng.random() < 0.7) else 0 for c in range(nc)]
                for r in range(nr)]
        if not wrong:    # exact analytic jacobian at x: fd/2 + quad/2 * 2x  (in halves: fd + quad*2x)
            an = [[fd[r][c] + quad[r][c] * 2 * x[c] for c in range(nc)] for r in range(nr)]
    nst = 2 if rng.random() < 0.4 else 1
    return {'kind': 'partials', 'fmt': fmt, 'fd': fd, 'an': an, 'pat': pat, 'method': method,
            'form': rng.choice(['forward', 'backward', 'central']),
            'stepexps': [rng.randrange(0, 5) for _ in range(nst)],
            'ov': rng.randrange(0, 5) if rng.random() < 0.2 else None,
            'quad': quad, 'const': const, 'hist': rng.random() < 0.4,
            'tolexp': rng.choice([20, 10, 3, 0]), 'x': x,
            'repeat': 2 if rng.random() < 0.35 else 1}


def vanish_case(rng):
    """step list where an out-of-pattern entry of the approximation vanishes for exactly one of the steps
    (fd + quad*(2x + s*h) == 0) while another out-of-pattern entry is nonzero for every step"""
    fmt = rng.choice(['rowscols', 'coo', 'csr', 'csc', 'diag'])
    n = rng.randrange(2, 5)
    nr = nc = n
    form = rng.choice(['forward', 'backward'])
    sgn = 1 if form == 'forward' else -1
    exps = rng.sample([0, 1], 2)
    x = [rng.randrange(-2, 3) for _ in range(nc)]
    fd = [[0] * nc for _ in range(nr)]
    quad = [[0] * nc for _ in range(nr)]
    for i in range(n):
        fd[i][i] = rng.randrange(1, 9)
    off = [(r, c) for r in range(nr) for c in range(nc) if r != c]
    (r1, c1), (r2, c2) = rng.sample(off, 2)
    k0 = rng.randrange(2)                      # the step at which entry (r1, c1) vanishes
    q = rng.choice([2, 4, -2, -4])
    quad[r1][c1] = q
    fd[r1][c1] = -q * (2 * x[c1] * 2 ** exps[k0] + sgn) // 2 ** exps[k0]   # halves: v = -q (2x + s h)
    fd[r2][c2] = rng.choice([1, 3, 5, 7])
    pat = [[i, i] for i in range(n)]
    if fmt in ('csr', 'csc'):
        pat.sort(key=(lambda e: (e[0], e[1])) if fmt == 'csr' else (lambda e: (e[1], e[0])))
    an = [[fd[r][c] + quad[r][c] * 2 * x[c] for c in range(nc)] for r in range(nr)]
    return {'kind': 'partials', 'fmt': fmt, 'fd': fd, 'an': an, 'pat': pat, 'method': 'fd', 'form': form,
            'stepexps': exps, 'ov': None, 'quad': quad, 'const': False, 'hist': False,
            'tolexp': rng.choice([20, 3]), 'x': x, 'repeat': 1}


def dup_case(rng):
    nr, nc = rng.randrange(1, 5), rng.randrange(1, 5)
    fd = rnd_matrix(rng, nr, nc, 0.7)
    nz = [[r, c] for r in range(nr) for c in range(nc) if fd[r][c] != 0] or [[0, 0]]
    pat = list(nz)
    for _ in range(rng.randrange(1, 4)):      # repeat some positions (up to three copies)
        pat.append(list(rng.choice(nz)))
    rng.shuffle(pat)
    an = [list(row) for row in fd]
    if rng.random() < 0.4:
        r, c = rng.choice(nz)
        an[r][c] += rng.choice([-4, 2, 6])
    return {'kind': 'dup', 'fd': fd, 'an': an, 'pat': pat, 'method': rng.choice(['fd', 'cs']),
            'form': rng.choice(['forward', 'backward', 'central']), 'stepexps': [rng.randrange(0, 5)],
            'tolexp': rng.choice([20, 3]), 'x': [rng.randrange(-4, 5) for _ in range(nc)]}


def step_of(c, k):
    e = c['ov'] if c.get('ov') is not None else c['stepexps'][k]
    return Fraction(1, 2 ** e)


def expected_fd(c, k):
    """exact approximated jacobian (Fractions) of y = FD x + Q x^2 at x for the k-th step"""
    fd = c['fd']
    nr, nc = len(fd), len(fd[0])
    if c.get('quad') is None:
        return [[Fraction(fd[r][k2], 2) for k2 in range(nc)] for r in range(nr)]
    sgn = 0 if c['method'] == 'cs' else {'forward': 1, 'backward': -1, 'central': 0}[c['form']]
    h = step_of(c, k)
    return [[Fraction(fd[r][k2], 2) + Fraction(c['quad'][r][k2], 2) * (2 * c['x'][k2] + sgn * h)
             for k2 in range(nc)] for r in range(nr)]


def qmf(m):
    return '[%s]' % '; '.join('[%s]' % '; '.join(qlit(v) for v in row) for row in m)


def totals_case(rng):
    nr, nc = rng.randrange(1, 5), rng.randrange(1, 5)
    fd = rnd_matrix(rng, nr, nc, 0.7)
    an = [list(row) for row in fd]
    if rng.random() < 0.6:
        for _ in range(rng.randrange(1, 3)):
            an[rng.randrange(nr)][rng.randrange(nc)] += rng.choice([-4, -1, 1, 2, 6])
    return {'kind': 'totals', 'fd': fd, 'an': an, 'mode': rng.choice(['fwd', 'rev']),
            'form': rng.choice(['forward', 'backward', 'central']), 'stepexp': rng.randrange(0, 5),
            'tolexp': rng.choice([20, 10, 3, 0]), 'x': [rng.randrange(-4, 5) for _ in range(nc)]}


class C13(Spec):
    pid = 'C13'
    imports = ['C13.Model']
    impl_script = 'props/C13/impl.py'
    exactness = ('E1 for the uncovered_nz lists (order included); E2/E3 exact rationals for J_fd, the maximal tolerance '
                 'violation, the values at it and the abs error (dyadic data, power-of-two steps and tolerances); '
                 'E4 (1e-12 relative) for the rel error quotient only')
    tol = Fraction(1, 10**12)
    shard = 300
    impl_jobs = 8
    rule = ('generated linear components (1..5 x 1..5, half-integer jacobians) with correct, wrong and under-declared '
            'partials in every declaration format {dense, rows/cols, diagonal, coo, csr, csc} x {fd forward/backward/'
            'central, cs} x steps 2^0..2^-4 x tolerances, linear and quadratic (step-dependent approximation), single steps and '
            'step lists, per-variable step overrides, constant declared partials without compute_partials, histories '
            'compute_totals / check_partials / check_partials / compute_totals, checked through the real check_partials, '
            'coo patterns with duplicate entries, plus check_totals in fwd and rev mode; a case is non-trivial when distinct')
    assumptions = ['duplicate (row, col) entries only for scipy coo patterns (rows/cols duplicates are rejected by '
                   'declare_partials; csr/csc constructors sum them)',
                   'directional and matrix-free checks are outside the model (oracle not applied to them)']

    def gen(self, tier, rng):
        quick = tier == 'quick'
        cases = []
        for fmt in ['dense', 'rowscols', 'diag', 'coo', 'csr', 'csc']:
            for under in (False, True):
                for _ in range(30 if quick else 600):
                    cases.append(partial_case(rng, fmt, under))
        for _ in range(110 if quick else 3000):
            cases.append(partial_case(rng))
        for _ in range(40 if quick else 600):
            cases.append(vanish_case(rng))
        for _ in range(40 if quick else 600):
            cases.append(dup_case(rng))
        for _ in range(80 if quick else 1200):
            cases.append(totals_case(rng))
        return cases

    def search_gen(self, tier, rng):
        return self.gen('quick', rng)

    def got_term(self, c):
        atol = qlit(Fraction(1, 2 ** c['tolexp']))
        if c['kind'] == 'totals':
            return '(VL [vmatQ %s; vmatQ %s; run_errors %s %s %s %s])' % (
                qm(c['an']), qm(c['fd']), qm(c['an']), qm(c['fd']), atol, atol)
        nr, nc = len(c['fd']), len(c['fd'][0])
        if c['kind'] == 'dup':
            return '(run_dup true %s %d %d %s)' % (entries(c['pat']), nr, nc, qm(c['fd']))
        mask = [[False] * nc for _ in range(nr)]
        for r, k in c['pat']:
            mask[r][k] = True
        fds = '[%s]' % '; '.join(qmf(expected_fd(c, k)) for k in range(len(c['stepexps'])))
        return '(run_partials_steps true %d %s %d %d %s %s %s %s %s)' % (
            KINDS[c['fmt']], entries(c['pat']), nr, nc, THR, fds, qm(c['an'], mask), atol, atol)

    def shrink(self, c):
        if c['kind'] != 'partials':
            return
        if c.get('repeat', 1) > 1 and not c.get('const'):
            yield dict(c, repeat=1)
        if c.get('hist') and not c.get('const'):
            yield dict(c, hist=False)
        if c.get('ov') is not None:
            yield dict(c, ov=None)
        if len(c['stepexps']) > 1 and c['fmt'] != 'dense':
            yield dict(c, stepexps=c['stepexps'][-1:])
        if c.get('quad') is not None and len(c['stepexps']) == 1:
            yield dict(c, quad=None)
        fd = c['fd']
        nz = [(r, k) for r in range(len(fd)) for k in range(len(fd[0])) if fd[r][k] != 0]
        inpat = set(map(tuple, c['pat']))
        for r, k in nz[:10]:
            if (r, k) not in inpat:
                B = [list(x) for x in fd]
                B[r][k] = 0
                A = [list(x) for x in c['an']]
                A[r][k] = 0
                Qm = None if c.get('quad') is None else [list(x) for x in c['quad']]
                if Qm is not None:
                    Qm[r][k] = 0
                yield dict(c, fd=B, an=A, quad=Qm)


def main(tier):
    return standard_check(C13(), tier)
