"""C13 implementation side: the real check_partials / check_totals of /repo on generated components.

A case is a linear component y = FD @ x (so the finite-difference / complex-step jacobian is exactly FD:
integer and half-integer data, power-of-two steps), whose analytic partials AN (correct, wrong or
under-declared) are declared in one of the formats dense / rows-cols / diagonal / scipy coo, csr, csc with a
given sparsity pattern.  Everything below the comparison is exact rational arithmetic.
"""
import warnings
from fractions import Fraction
import numpy as np
import scipy.sparse as sp
from implutil import main, q

warnings.simplefilter('ignore')
import openmdao.api as om        # noqa: E402

THR = 1e-16
KINDS = {'dense': 0, 'rowscols': 1, 'coo': 1, 'csr': 2, 'csc': 3, 'diag': 4}


def fr(x):
    return Fraction(float(x))


def qmat(a):
    return [[q(float(v)) for v in row] for row in np.asarray(a)]


def step_of(c, k):
    """the step actually used for the k-th entry of the global step list (a per-variable override wins)"""
    e = c['ov'] if c.get('ov') is not None else c['stepexps'][k]
    return 2.0 ** -e


def expected_fd(c, k):
    """exact approximated jacobian of y = FD x + Q x^2 at x for the k-th step"""
    FD = np.array(c['fd'], dtype=float) / 2.0
    if c.get('quad') is None:
        return FD
    Q = np.array(c['quad'], dtype=float) / 2.0
    x = np.array(c['x'], dtype=float)
    h = step_of(c, k)
    sgn = 0.0 if c['method'] == 'cs' else {'forward': 1.0, 'backward': -1.0, 'central': 0.0}[c['form']]
    return FD + Q * (2.0 * x + sgn * h)[np.newaxis, :]


def build(c):
    FD = np.array(c['fd'], dtype=float) / 2.0
    AN = np.array(c['an'], dtype=float) / 2.0
    Q = None if c.get('quad') is None else np.array(c['quad'], dtype=float) / 2.0
    nr, nc = FD.shape
    fmt = c['fmt']
    const = bool(c.get('const'))
    pat = [tuple(p) for p in c['pat']]
    r = np.array([p[0] for p in pat], dtype=int)
    k = np.array([p[1] for p in pat], dtype=int)

    def sparse_val(data):
        return getattr(sp, fmt + '_matrix')((data, (r, k)), shape=(nr, nc))

    class Comp(om.ExplicitComponent):
        def setup(self):
            self.add_input('x', np.ones(nc))
            self.add_output('y', np.zeros(nr))
            kw = {}
            if const:       # constant declared partials, no compute_partials
                kw['val'] = (AN if fmt == 'dense' else AN[r, k] if fmt == 'rowscols' else
                             np.diag(AN).copy() if fmt == 'diag' else sparse_val(AN[r, k]))
            if fmt == 'dense':
                self.declare_partials('y', 'x', **kw)
            elif fmt == 'rowscols':
                self.declare_partials('y', 'x', rows=r, cols=k, **kw)
            elif fmt == 'diag':
                self.declare_partials('y', 'x', diagonal=True, **kw)
            else:
                self.declare_partials('y', 'x', val=kw.get('val', sparse_val(np.ones(r.size))))
            if c.get('ov') is not None:
                self.set_check_partial_options(wrt='x', step=2.0 ** -c['ov'], method=c['method'])

        def compute(self, i, o):
            o['y'] = FD @ i['x']
            if Q is not None:
                o['y'] = o['y'] + Q @ (i['x'] ** 2)

    if not const:
        def compute_partials(self, i, p):
            if fmt == 'dense':
                p['y', 'x'] = AN
            elif fmt == 'rowscols':
                p['y', 'x'] = AN[r, k]
            elif fmt == 'diag':
                p['y', 'x'] = np.diag(AN).copy()
            else:
                p['y', 'x'] = sparse_val(AN[r, k])
        Comp.compute_partials = compute_partials
    return Comp(), FD, AN, pat


def first(v):
    """check_partials / check_totals unwrap one-element lists (a single step)"""
    return v[0] if isinstance(v, list) else v


def nth(v, k):
    return v[k] if isinstance(v, list) else v


def errors_oracle(x, ref, atol, rtol, d, which, bad, k=0):
    """recompute get_tol_violation's outputs exactly and compare with the reported ones"""
    xs = [fr(v) for v in np.asarray(x).ravel()]
    rs = [fr(v) for v in np.asarray(ref).ravel()]
    if not xs:
        return
    diffs = [abs(a - b) - (fr(atol) + fr(rtol) * abs(b)) for a, b in zip(xs, rs)]
    mx = max(diffs)
    i = diffs.index(mx)
    tv = getattr(nth(d['tol violation'], k), which)
    ae = getattr(nth(d['abs error'], k), which)
    re_ = getattr(nth(d['rel error'], k), which)
    vx, vr = getattr(nth(d['vals_at_max_error'], k), which)
    if fr(tv) != mx:
        bad.append('tol violation reported %r, max of |x-ref|-(atol+rtol|ref|) is %s' % (tv, mx))
    if fr(vx) != xs[i] or fr(vr) != rs[i]:
        bad.append('values at max violation reported (%r, %r), compared arrays hold (%s, %s)' % (vx, vr, xs[i], rs[i]))
    if fr(ae) != abs(fr(vx) - fr(vr)):
        bad.append('abs error %r is not the difference of the reported values %r, %r' % (ae, vx, vr))
    if rs[i] == 0:
        if re_ != np.inf:
            bad.append('rel error %r with zero reference' % re_)
    else:
        want = abs(xs[i] - rs[i]) / abs(rs[i])
        if abs(fr(re_) - want) > Fraction(1, 10**12) * max(1, want):
            bad.append('rel error %r, expected %s' % (re_, want))


def tv_res(d, which, k=0):
    tv = getattr(nth(d['tol violation'], k), which)
    re_ = getattr(nth(d['rel error'], k), which)
    vx, vr = getattr(nth(d['vals_at_max_error'], k), which)
    return [q(float(tv)), q(float(vx)), q(float(vr)), bool(tv > 0), q(float(getattr(nth(d['abs error'], k), which))),
            'inf' if re_ == np.inf else q(float(re_))]


def handle_partials(c):
    comp, FD, AN, pat = build(c)
    nr, nc = FD.shape
    fmt = c['fmt']
    atol = rtol = 2.0 ** -c['tolexp']
    nsteps = len(c['stepexps'])
    p = om.Problem()
    p.model.add_subsystem('c', comp, promotes=['*'])
    p.setup(force_alloc_complex=(c['method'] == 'cs'))
    p.set_val('x', np.array(c['x'], dtype=float))
    p.run_model()
    bad = []
    steps = [2.0 ** -e for e in c['stepexps']]
    kw = dict(out_stream=None, method=c['method'], step=steps[0] if nsteps == 1 else steps,
              abs_err_tol=atol, rel_err_tol=rtol)
    if c['method'] == 'fd':
        kw['form'] = c['form']
    inpat = np.zeros((nr, nc), dtype=bool)
    if fmt == 'dense':
        inpat[:] = True
    else:
        for (r, k) in pat:
            inpat[r, k] = True
    analytic = np.where(inpat, AN, 0.0)
    hist = bool(c.get('hist'))

    def totals(when):
        J = np.array(p.compute_totals(of=['y'], wrt=['x'], return_format='array'))
        if not np.array_equal(J, analytic):
            bad.append('compute_totals %s check_partials returns %s, the component\'s partials are %s' % (
                when, J.tolist(), analytic.tolist()))
    if hist:
        totals('before')
    data = None
    for rep_k in range(c.get('repeat', 1)):     # a second check must report the same thing
        try:
            data = p.check_partials(**kw)
        except KeyError as e:
            return {'res': [{'e': 1}, None, None], 'ok': False, 'sig': 'check_partials-crash-' + fmt,
                    'msg': 'check_partials raised KeyError(%s) for a %s partial with approximated nonzeros outside '
                           'the declared pattern' % (e, fmt), 'kind': fmt + ' ' + c['method']}
        d = data['c']['y', 'x']
        # 1. the analytic values that were actually computed
        Jfwd = np.asarray(d['J_fwd'])
        if not np.array_equal(Jfwd, analytic):
            bad.append('check %d: J_fwd %s is not the analytic jacobian of the component %s' % (
                rep_k, Jfwd.tolist(), analytic.tolist()))
    if hist:
        totals('after')
    d = data['c']['y', 'x']
    Jfwd = np.asarray(d['J_fwd'])
    jfds = d['J_fd'] if isinstance(d['J_fd'], list) else [d['J_fd']]
    if len(jfds) != nsteps:
        bad.append('%d J_fd entries for %d steps' % (len(jfds), nsteps))
    # ... and the approximated values computed with each step
    for k in range(min(nsteps, len(jfds))):
        want = np.where(inpat, expected_fd(c, k), 0.0)
        if not np.array_equal(np.asarray(jfds[k]), want):
            bad.append('J_fd for step %g is %s, the approximation with that step is %s' % (
                step_of(c, k), np.asarray(jfds[k]).tolist(), want.tolist()))
    if 'steps' in d:        # only kept in the return dict for step lists
        if [float(v) for v in d['steps']] != [step_of(c, k) for k in range(nsteps)]:
            bad.append('reported steps %s, steps used %s' % (d['steps'], [step_of(c, k) for k in range(nsteps)]))
    # 2. every approximated nonzero outside the declared pattern is flagged (sparse formats)
    # (with a list of steps: by the approximation of any of the steps)
    efds = [expected_fd(c, j) for j in range(nsteps)]
    expected = sorted((int(r), int(k)) for r in range(nr) for k in range(nc)
                      if not inpat[r, k] and any(abs(e[r, k]) > THR for e in efds))
    got = d.get('uncovered_nz')
    rep = None if got is None else [[int(a), int(b)] for a, b in got]
    if fmt != 'dense':
        gl = [] if got is None else sorted((int(a), int(b)) for a, b in got)
        if gl != expected:
            bad.append('uncovered_nz reports %s; approximated nonzeros outside the declared pattern are %s%s' % (
                rep, [list(e) for e in expected], ' (steps %s)' % [step_of(c, j) for j in range(nsteps)] if nsteps > 1 else ''))
        if expected and 'uncovered_threshold' not in d:
            bad.append('uncovered_threshold missing')
    # 3. error magnitudes equal the differences of what is reported
    for k in range(min(nsteps, len(jfds))):
        errors_oracle(Jfwd, np.where(inpat, expected_fd(c, k), 0.0), atol, rtol, d, 'forward', bad, k)
    res = [rep, [qmat(j) for j in jfds], [tv_res(d, 'forward', k) for k in range(len(jfds))]]
    sig = 'check-partials-report'
    if any('uncovered' in b for b in bad):
        sig = 'uncovered-nz-' + fmt
    elif any('J_fd for step' in b for b in bad):
        sig = 'multi-step-J_fd-' + fmt
    elif any('compute_totals' in b or 'J_fwd' in b for b in bad):
        sig = 'check-overwrites-partials-' + fmt
    return {'res': res, 'ok': not bad, 'msg': '; '.join(bad)[:1500], 'sig': sig,
            'kind': '%s %s%s%s%s%s' % (fmt, c['method'], ' under-declared' if expected else '',
                                       ' multistep' if nsteps > 1 else '', ' const' if c.get('const') else '',
                                       ' history' if hist else '')}


def handle_totals(c):
    FD = np.array(c['fd'], dtype=float) / 2.0
    AN = np.array(c['an'], dtype=float) / 2.0
    nr, nc = FD.shape
    atol = rtol = 2.0 ** -c['tolexp']

    class Comp(om.ExplicitComponent):
        def setup(self):
            self.add_input('x', np.ones(nc))
            self.add_output('y', np.zeros(nr))
            self.declare_partials('y', 'x')

        def compute(self, i, o):
            o['y'] = FD @ i['x']

        def compute_partials(self, i, p):
            p['y', 'x'] = AN
    p = om.Problem()
    p.model.add_subsystem('c', Comp(), promotes=['*'])
    p.model.add_design_var('x')
    p.model.add_constraint('y', upper=1000.)
    p.setup(mode=c['mode'])
    p.set_val('x', np.array(c['x'], dtype=float))
    p.run_model()
    kw = dict(out_stream=None, method='fd', step=2.0 ** -c['stepexp'], form=c['form'],
              abs_err_tol=atol, rel_err_tol=rtol)
    data = p.check_totals(of=['y'], wrt=['x'], **kw)
    d = data[('y', 'x')]
    bad = []
    which = 'forward' if d.get('J_fwd') is not None else 'reverse'
    Jan = np.asarray(d['J_fwd'] if which == 'forward' else d['J_rev'])
    Jfd = np.asarray(first(d['J_fd']))
    if not np.array_equal(Jan, AN):
        bad.append('analytic total %s is not the jacobian the model computes %s' % (Jan.tolist(), AN.tolist()))
    if not np.array_equal(Jfd, FD):
        bad.append('J_fd %s is not the approximated total %s' % (Jfd.tolist(), FD.tolist()))
    errors_oracle(Jan, Jfd, atol, rtol, d, which, bad)
    res = [qmat(Jan), qmat(Jfd), tv_res(d, which)]
    return {'res': res, 'ok': not bad, 'msg': '; '.join(bad)[:1500], 'sig': 'check-totals-report',
            'kind': 'totals ' + c['mode']}


def handle_dup(c):
    """scipy COO partial whose sparsity lists some (row, col) positions more than once (scipy sums duplicates)"""
    FD = np.array(c['fd'], dtype=float) / 2.0
    AN = np.array(c['an'], dtype=float) / 2.0
    nr, nc = FD.shape
    r = np.array([p[0] for p in c['pat']], dtype=int)
    k = np.array([p[1] for p in c['pat']], dtype=int)
    # split every analytic value over the duplicates of its position: the last occurrence gets the rest
    data = np.zeros(r.size)
    last = {}
    for i, pos in enumerate(zip(r.tolist(), k.tolist())):
        last[pos] = i
    for i, pos in enumerate(zip(r.tolist(), k.tolist())):
        data[i] = 1.0 if last[pos] != i else 0.0
    for pos, i in last.items():
        data[i] = AN[pos] - (sum(1 for q2 in zip(r.tolist(), k.tolist()) if q2 == pos) - 1)

    class Comp(om.ExplicitComponent):
        def setup(self):
            self.add_input('x', np.ones(nc))
            self.add_output('y', np.zeros(nr))
            self.declare_partials('y', 'x', val=sp.coo_matrix((np.ones(r.size), (r, k)), shape=(nr, nc)))

        def compute(self, i, o):
            o['y'] = FD @ i['x']

        def compute_partials(self, i, p):
            p['y', 'x'] = sp.coo_matrix((data, (r, k)), shape=(nr, nc))
    p = om.Problem()
    p.model.add_subsystem('c', Comp(), promotes=['*'])
    p.setup(force_alloc_complex=(c['method'] == 'cs'))
    p.set_val('x', np.array(c['x'], dtype=float))
    p.run_model()
    atol = rtol = 2.0 ** -c['tolexp']
    kw = dict(out_stream=None, method=c['method'], step=2.0 ** -c['stepexps'][0], abs_err_tol=atol, rel_err_tol=rtol)
    if c['method'] == 'fd':
        kw['form'] = c['form']
    d = p.check_partials(**kw)['c']['y', 'x']
    inpat = np.zeros((nr, nc), dtype=bool)
    inpat[r, k] = True
    bad = []
    Jfwd, Jfd = np.asarray(d['J_fwd']), np.asarray(d['J_fd'])
    if not np.array_equal(Jfwd, np.where(inpat, AN, 0.0)):
        bad.append('J_fwd %s is not the analytic jacobian of the component %s' % (
            Jfwd.tolist(), np.where(inpat, AN, 0.0).tolist()))
    if not np.array_equal(Jfd, np.where(inpat, FD, 0.0)):
        bad.append('J_fd %s is not the approximated jacobian %s on the declared pattern (coo pattern with '
                   'duplicate entries %s)' % (Jfd.tolist(), np.where(inpat, FD, 0.0).tolist(), c['pat']))
    errors_oracle(Jfwd, np.where(inpat, FD, 0.0), atol, rtol, d, 'forward', bad)
    return {'res': qmat(Jfd), 'ok': not bad, 'msg': '; '.join(bad)[:1500], 'sig': 'coo-duplicate-entries-J_fd',
            'kind': 'coo duplicates ' + c['method']}


def handle(c):
    if c['kind'] == 'partials':
        return handle_partials(c)
    if c['kind'] == 'dup':
        return handle_dup(c)
    return handle_totals(c)


if __name__ == '__main__':
    main(handle)
