"""C27 — option declarations are enforced and temporary values always restored."""
import json
import os
from fractions import Fraction

import core
from core import Spec, standard_check, boollit

HERE = os.path.dirname(os.path.abspath(__file__))

# ---------------------------------------------------------------- value universe (JSON form)


def F(x):
    fr = Fraction(x)
    return {'f': [fr.numerator, fr.denominator]}


def L(*xs):
    return {'l': list(xs)}


SCALARS = [None, True, False, 0, 1, 2, 3, 4, 5, -1, 7, F(0), F(1), F(2.5), F(-0.5), F(3), 'a', 'b', 'ab', '', 'x']
LISTS = [L(), L(1), L('a'), L('a', 'b'), L(1, 2), L(True), L('x'), L('a', 'a'), L(F(1), 2)]
POOL = SCALARS + LISTS
NAMES = ['a', 'b', 'c', 'old']
TYS = ['bool', 'int', 'float', 'str', 'list', 'none']


def pv_term(v):
    if v is None:
        return 'PNone'
    if isinstance(v, bool):
        return '(PBool %s)' % boollit(v)
    if isinstance(v, int):
        return '(PInt (%d))' % v
    if isinstance(v, str):
        return '(PStr "%s")' % v
    if isinstance(v, dict) and 'f' in v:
        return '(PFloat (Qmake (%d) %d%%positive))' % (v['f'][0], v['f'][1])
    if isinstance(v, dict) and 'l' in v:
        return '(PList [%s])' % '; '.join(pv_term(x) for x in v['l'])
    raise TypeError(v)


def num_term(v):
    if v is None:
        return 'None'
    if isinstance(v, dict):
        return '(Some (Qmake (%d) %d%%positive))' % (v['f'][0], v['f'][1])
    return '(Some (Qmake (%d) 1%%positive))' % int(v)


def decl_term(d):
    vals = 'None' if d['values'] is None else '(Some [%s])' % '; '.join(pv_term(x) for x in d['values'])
    tn = {'bool': 'TBool', 'int': 'TInt', 'float': 'TFloat', 'str': 'TStr', 'list': 'TList', 'none': 'TNoneType'}
    if d['types'] is None:
        tys = 'None'
    elif 'one' in d['types']:
        tys = '(Some (TyOne %s))' % tn[d['types']['one']]
    else:
        tys = '(Some (TyTuple [%s]))' % '; '.join(tn[t] for t in d['types']['tuple'])
    cv = 'None' if d['cv'] is None else '(Some cv_%s)' % d['cv']
    sf = 'None' if d['sf'] is None else '(Some sf_%s)' % d['sf']
    if d['dep'] is None:
        dep = 'None'
    elif d['dep'].get('alias'):
        dep = '(Some (Some "%s"))' % d['dep']['alias']
    else:
        dep = '(Some None)'
    return '(mkdecl %s %s %s %s %s %s %s %s)' % (vals, tys, num_term(d['upper']), num_term(d['lower']),
                                                 boollit(d['allow_none']), cv, sf, dep)


def kw_term(kw):
    return '[%s]' % '; '.join('("%s", %s)' % (n, pv_term(v)) for n, v in kw)


def op_term(op):
    k = op['k']
    if k == 'declare':
        dflt = 'None' if op['default'] is None else '(Some %s)' % pv_term(op['default']['v'])
        return '(ODeclare "%s" %s %s)' % (op['n'], decl_term(op['d']), dflt)
    if k == 'undeclare':
        return '(OUndeclare "%s")' % op['n']
    if k == 'set':
        return '(OSet "%s" %s)' % (op['n'], pv_term(op['v']))
    if k == 'get':
        return '(OGet "%s")' % op['n']
    if k == 'update':
        return '(OUpdate %s)' % kw_term(op['kw'])
    if k == 'temp':
        return '(OTemp %s %s)' % (kw_term(op['kw']), ops_term(op['body']))
    if k == 'try':
        return '(OTry %s)' % ops_term(op['body'])
    if k == 'raise':
        return 'ORaise'
    raise ValueError(k)


def ops_term(ops):
    return '[%s]' % '; '.join(op_term(o) for o in ops)


# ---------------------------------------------------------------- generator

def mkdecl(values=None, types=None, upper=None, lower=None, allow_none=False, cv=None, sf=None, dep=None, vtuple=False):
    return {'values': values, 'types': types, 'upper': upper, 'lower': lower, 'allow_none': allow_none,
            'cv': cv, 'sf': sf, 'dep': dep, 'vtuple': vtuple}


def one(t):
    return {'one': t}


def tup(*ts):
    return {'tuple': list(ts)}


# the declaration table used for the exhaustive declaration x value sweep
DECLS = [
    mkdecl(),
    mkdecl(values=['a', 'b']), mkdecl(values=['a', 'b', None]), mkdecl(values=[1, 2, 3], vtuple=True),
    mkdecl(values=[True, 'x', F(2.5)]), mkdecl(values=[0, F(1)]), mkdecl(values=[L(1), L('a', 'b')]),
    mkdecl(values=['a', 'b'], allow_none=True), mkdecl(values=[]),
    mkdecl(types=one('bool')), mkdecl(types=one('int')), mkdecl(types=one('float')), mkdecl(types=one('str')),
    mkdecl(types=one('list')), mkdecl(types=one('none')), mkdecl(types=tup('int', 'float')),
    mkdecl(types=tup('str', 'list')), mkdecl(types=tup('bool',)), mkdecl(types=tup()),
    mkdecl(types=one('int'), allow_none=True), mkdecl(types=one('bool'), allow_none=True),
    mkdecl(types=one('list'), values=['a', 'b']), mkdecl(types=one('list'), values=[1, 2, 'x'], allow_none=True),
    mkdecl(types=one('list'), values=[True, F(0)]), mkdecl(types=one('list'), values=['ab', '']),
    mkdecl(upper=3), mkdecl(lower=1), mkdecl(lower=0, upper=F(2.5)), mkdecl(lower=3, upper=1),
    mkdecl(types=one('int'), lower=0, upper=4), mkdecl(types=tup('int', 'float'), lower=F(-0.5), upper=3),
    mkdecl(types=one('float'), upper=F(1)), mkdecl(upper=3, allow_none=True), mkdecl(types=one('str'), lower=0),
    mkdecl(values=[1, 5, 7], upper=5), mkdecl(types=one('list'), values=[1, 2], upper=3),
    mkdecl(cv='even'), mkdecl(types=one('int'), cv='even'), mkdecl(cv='notnone', allow_none=True),
    mkdecl(cv='short'), mkdecl(types=tup('str', 'list'), cv='short'), mkdecl(values=[1, 2, 3, 4], cv='even'),
    mkdecl(types=one('int'), sf='clip'), mkdecl(sf='neg'), mkdecl(types=tup('int', 'str'), sf='neg', upper=4),
    mkdecl(lower=0, sf='clip', cv='even'),
]


def gen_decl(rng, names):
    r = rng.random()
    if r < 0.55:
        d = dict(rng.choice(DECLS))
    else:
        style = rng.choice(['values', 'types', 'bounds', 'listvals', 'plain'])
        d = mkdecl()
        if style == 'values':
            d['values'] = rng.sample(POOL, rng.randrange(1, 5))
            d['vtuple'] = rng.random() < 0.5
        elif style == 'types':
            d['types'] = one(rng.choice(TYS)) if rng.random() < 0.6 else tup(*rng.sample(TYS, rng.randrange(1, 4)))
        elif style == 'listvals':
            d['types'] = one('list')
            d['values'] = rng.sample(SCALARS, rng.randrange(1, 5))
        if style in ('bounds', 'types') and rng.random() < 0.6:
            if rng.random() < 0.7:
                d['upper'] = rng.choice([0, 1, 3, 5, F(2.5), F(-0.5)])
            if rng.random() < 0.6:
                d['lower'] = rng.choice([0, 1, -1, 2, F(0), F(-0.5)])
        if rng.random() < 0.2:
            d['allow_none'] = True
        if rng.random() < 0.15:
            d['cv'] = rng.choice(['even', 'notnone', 'short'])
        if rng.random() < 0.1:
            d['sf'] = rng.choice(['clip', 'neg'])
    if rng.random() < 0.04 and d['types'] is not None and d['values'] is None:
        d = dict(d, values=['a', 1])          # 'types' and 'values' both given -> declaration refused
    return d


def py_of(v):
    if isinstance(v, dict):
        if 'f' in v:
            return float(Fraction(*v['f']))
        return [py_of(x) for x in v['l']]
    return v


def plausible(d, rng):
    """a value that is probably acceptable for the declaration (generator-side heuristic only)"""
    cands = []
    if d['values'] is not None:
        if d['types'] == {'one': 'list'}:
            k = rng.randrange(0, 3)
            cands = [L(*[rng.choice(d['values']) for _ in range(k)])] if d['values'] else [L()]
        else:
            cands = list(d['values'])
    elif d['types'] is not None:
        ts = [d['types']['one']] if 'one' in d['types'] else d['types']['tuple']
        for v in POOL:
            pyv = py_of(v)
            tn = {bool: 'bool', int: 'int', float: 'float', str: 'str', list: 'list', type(None): 'none'}[type(pyv)]
            if tn in ts or (tn == 'bool' and 'int' in ts):
                cands.append(v)
    else:
        cands = list(POOL)
    if d['upper'] is not None or d['lower'] is not None:
        lo = -10 if d['lower'] is None else py_of(d['lower'])
        hi = 10 if d['upper'] is None else py_of(d['upper'])
        c2 = [v for v in cands if isinstance(py_of(v), (int, float)) and lo <= py_of(v) <= hi]
        cands = c2 or cands
    if not cands:
        cands = POOL
    return rng.choice(cands)


class Gen:
    def __init__(self, rng):
        self.rng = rng
        self.decls = {}

    def value_for(self, n):
        rng = self.rng
        d = self.decls.get(n)
        if d is not None and d['dep'] is not None and d['dep'].get('alias'):
            d = self.decls.get(d['dep']['alias'], d)
        if d is None or rng.random() < 0.3:
            return rng.choice(POOL)
        return plausible(d, rng)

    def name(self):
        rng = self.rng
        if self.decls and rng.random() < 0.9:
            return rng.choice(sorted(self.decls))
        return rng.choice(NAMES)

    def declare(self, n=None, valid_default=None):
        rng = self.rng
        n = n or rng.choice(NAMES[:3])
        d = gen_decl(rng, NAMES)
        default = None
        r = rng.random() if valid_default is None else (0.0 if valid_default else 0.99)
        if r < 0.7:
            default = {'v': plausible(d, rng)}
        elif r < 0.8:
            default = {'v': None}
        elif r < 0.88:
            default = {'v': rng.choice(POOL)}
        self.decls[n] = d
        return {'k': 'declare', 'n': n, 'd': d, 'default': default}

    def declare_deprecated(self):
        rng = self.rng
        target = rng.choice(['a', 'b', 'c', 'zz'])
        d = mkdecl(dep={'alias': target if rng.random() < 0.8 else None})
        if rng.random() < 0.3:
            d['types'] = one('int')
        self.decls['old'] = d
        return {'k': 'declare', 'n': 'old', 'd': d, 'default': {'v': 1} if rng.random() < 0.5 else None}

    def kwargs(self):
        rng = self.rng
        k = rng.choice([1, 1, 1, 2, 2, 3])
        names = sorted(self.decls) or NAMES[:2]
        if rng.random() < 0.1:
            names = NAMES
        ns = rng.sample(names, min(k, len(names)))
        return [[n, self.value_for(n)] for n in ns]

    def op(self, depth, in_ctx):
        rng = self.rng
        r = rng.random()
        if r < 0.30:
            n = self.name()
            return {'k': 'set', 'n': n, 'v': self.value_for(n)}
        if r < 0.40:
            return {'k': 'get', 'n': self.name()}
        if r < 0.48:
            return {'k': 'update', 'kw': self.kwargs(), 'via': rng.choice(['update', 'set'])}
        if r < 0.52 and not in_ctx:
            return self.declare()
        if r < 0.55 and not in_ctx:
            n = self.name()
            self.decls.pop(n, None)
            return {'k': 'undeclare', 'n': n}
        if r < 0.57:
            # declarations inside a context body: rare (the restore oracle does not apply there)
            return self.declare() if rng.random() < 0.7 else {'k': 'undeclare', 'n': self.name()}
        if r < 0.60 and not in_ctx:
            return self.declare_deprecated()
        if r < 0.88 and depth < 3:
            kw = self.kwargs()
            body = self.body(depth + 1, True)
            return {'k': 'temp', 'kw': kw, 'body': body}
        if r < 0.94 and depth < 3:
            return {'k': 'try', 'body': self.body(depth + 1, in_ctx)}
        if in_ctx or depth > 0:
            return {'k': 'raise'}
        return {'k': 'get', 'n': self.name()}

    def body(self, depth, in_ctx):
        rng = self.rng
        n = rng.choice([0, 1, 1, 2, 2, 3, 4])
        ops = [self.op(depth, in_ctx) for _ in range(n)]
        if in_ctx and rng.random() < 0.35:
            ops.insert(rng.randrange(0, len(ops) + 1), {'k': 'raise'})
        return ops

    def case(self):
        rng = self.rng
        self.decls = {}
        ro = rng.random() < 0.06
        ops = []
        for n in rng.sample(NAMES[:3], rng.choice([2, 3, 3])):
            ops.append(self.declare(n, valid_default=True if rng.random() < 0.85 else None))
        if rng.random() < 0.25:
            ops.append(self.declare_deprecated())
        for _ in range(rng.randrange(3, 9)):
            o = self.op(0, False)
            if o['k'] in ('temp',):
                o = {'k': 'try', 'body': [o]}       # keep going after an exception exit
            ops.append(o)
        # the values afterwards, through the public interface
        for n in NAMES:
            ops.append({'k': 'get', 'n': n})
        return {'ro': ro, 'ops': ops}


def sweep_cases():
    """every declaration of the table x every value of the pool: as default and as assignment"""
    cases = []
    for d in DECLS:
        ops = [{'k': 'declare', 'n': 'a', 'd': d, 'default': None}]
        for v in POOL:
            ops.append({'k': 'set', 'n': 'a', 'v': v})
        cases.append({'ro': False, 'ops': ops})
        ops = []
        for v in POOL:
            ops.append({'k': 'declare', 'n': 'a', 'd': d, 'default': {'v': v}})
            ops.append({'k': 'get', 'n': 'a'})
        cases.append({'ro': False, 'ops': ops})
    return cases


def temp_sweep_cases():
    """temporary() on two int options: every combination of (valid / invalid / undeclared) bindings x
    every way of leaving (normal, raise, raise in a nested context, failing nested entry)"""
    cases = []
    base = [{'k': 'declare', 'n': 'a', 'd': mkdecl(types=one('int')), 'default': {'v': 1}},
            {'k': 'declare', 'n': 'b', 'd': mkdecl(values=['x', 'y'], allow_none=True), 'default': {'v': 'x'}},
            {'k': 'declare', 'n': 'c', 'd': mkdecl(types=one('float'), upper=3), 'default': None}]
    bind = {'a': [5, 'bad'], 'b': ['y', 'bad', None], 'c': [F(2.5), 7], 'zz': [1]}
    kws = []
    names = list(bind)
    for n1 in names:
        for v1 in bind[n1]:
            kws.append([[n1, v1]])
            for n2 in names:
                if n2 != n1:
                    for v2 in bind[n2]:
                        kws.append([[n1, v1], [n2, v2]])
    bodies = [[], [{'k': 'raise'}], [{'k': 'set', 'n': 'a', 'v': 9}], [{'k': 'set', 'n': 'a', 'v': 9}, {'k': 'raise'}],
              [{'k': 'temp', 'kw': [['a', 6]], 'body': []}], [{'k': 'temp', 'kw': [['a', 6]], 'body': [{'k': 'raise'}]}],
              [{'k': 'temp', 'kw': [['a', 6], ['b', 'bad']], 'body': []}],
              [{'k': 'try', 'body': [{'k': 'temp', 'kw': [['a', 6], ['b', 'y']], 'body': [{'k': 'raise'}]}]}],
              [{'k': 'update', 'kw': [['a', 8], ['b', 'bad']]}]]
    tail = [{'k': 'get', 'n': n} for n in ('a', 'b', 'c')]
    for kw in kws:
        for body in bodies:
            ops = list(base) + [{'k': 'try', 'body': [{'k': 'temp', 'kw': kw, 'body': body}]}] + tail
            # and once more, to see what a stale cache does to the next use
            ops += [{'k': 'try', 'body': [{'k': 'temp', 'kw': [['a', 2]], 'body': []}]}] + tail
            cases.append({'ro': False, 'ops': ops})
    return cases


def count_ops(ops):
    return sum(1 + (count_ops(o['body']) if o['k'] in ('temp', 'try') else 0) for o in ops)


class C27(Spec):
    pid = 'C27'
    imports = ['C27.Model']
    impl_script = 'props/C27/impl.py'
    exactness = ('E1 (exact): outcome class of every operation and the full visible state after it '
                 '(stored values with their Python type, has_been_set, dict order, context cache)')
    shard = 150
    impl_jobs = 4
    rule = ('declaration table (%d declarations) x value pool (%d values) as assignment and as default, exhaustively; '
            'temporary() on three options: all one/two-binding calls over valid/invalid/undeclared bindings x 9 bodies '
            '(normal exit, raise, nested, nested raise, failing nested entry); random op trees (declare / undeclare / '
            'set / get / update / temporary / try / raise, nesting <= 3) over random declarations; '
            'a case is one op tree on a fresh OptionsDictionary, observed after every operation' % (len(DECLS), len(POOL)))
    assumptions = ['values are drawn from None/bool/int/dyadic float/str/list; `values` given as list or tuple (not set); '
                   '`types` a type or a tuple of types; bounds numeric',
                   'check_valid / set_function: three predicates and two functions defined identically in '
                   'props/C27/impl.py and coq/C27/Model.v (the theorems quantify over arbitrary ones)',
                   'DeprecationWarning emission is not observed']

    def __init__(self):
        cfgp = os.path.join(HERE, 'model_cfg.json')
        cfg = json.load(open(cfgp))
        self.cfg = '(mkcfg %s %s)' % (boollit(cfg['temporary_restores_in_finally']), boollit(cfg['list_typed_values_strict']))

    def gen(self, tier, rng):
        cases = sweep_cases() + temp_sweep_cases()
        g = Gen(rng)
        n = 1000 if tier == "quick" else 20000
        for _ in range(n):
            cases.append(g.case())
        return cases

    def search_gen(self, tier, rng):
        g = Gen(rng)
        return [g.case() for _ in range(3000)]

    def got_term(self, c):
        return '(v_run %s %s %s)' % (self.cfg, boollit(c['ro']), ops_term(c['ops']))

    def nontrivial(self, c, res):
        return True

    def shrink(self, c):
        ops = c['ops']
        for i in range(len(ops)):
            yield dict(c, ops=ops[:i] + ops[i + 1:])
        for i, o in enumerate(ops):
            if o['k'] in ('temp', 'try'):
                b = o['body']
                if o['k'] == 'try':
                    yield dict(c, ops=ops[:i] + b + ops[i + 1:])
                for j in range(len(b)):
                    yield dict(c, ops=ops[:i] + [dict(o, body=b[:j] + b[j + 1:])] + ops[i + 1:])
                for j, o2 in enumerate(b):
                    if o2['k'] in ('temp', 'try'):
                        for kk in range(len(o2['body'])):
                            nb = b[:j] + [dict(o2, body=o2['body'][:kk] + o2['body'][kk + 1:])] + b[j + 1:]
                            yield dict(c, ops=ops[:i] + [dict(o, body=nb)] + ops[i + 1:])
                if o['k'] == 'temp' and len(o['kw']) > 1:
                    for j in range(len(o['kw'])):
                        yield dict(c, ops=ops[:i] + [dict(o, kw=o['kw'][:j] + o['kw'][j + 1:])] + ops[i + 1:])


def main(tier):
    return standard_check(C27(), tier)
