"""C27 implementation side: op sequences on the real openmdao.utils.options_dictionary.OptionsDictionary.

For every case (read_only flag + a tree of operations) the driver executes the operations on a fresh
OptionsDictionary, records after every operation the outcome class and the full visible state
(stored values in dict order, has_been_set, the context cache), and evaluates the property's oracle:

  * an assignment succeeds exactly when the value satisfies the option's declaration (independent
    reference `ref_valid`, written from the declare() docstring) and the dictionary is not read-only and
    the (aliased) option exists;
  * a rejected assignment leaves every stored value as it was; an accepted one changes only its target;
  * after a `with o.temporary(...)` statement - left normally, by an exception of the body, or by a failure
    while entering - every option named in the call reads as it did before the statement.
"""
import warnings
from fractions import Fraction

from implutil import main, q, err

warnings.simplefilter('ignore')
from openmdao.utils.options_dictionary import OptionsDictionary  # noqa: E402
from openmdao.core.constants import _UNDEFINED  # noqa: E402


class Boom(Exception):
    pass


ERR = {KeyError: 1, RuntimeError: 2, TypeError: 3, ValueError: 4, Boom: 5, IndexError: 6}
TYPES = {'bool': bool, 'int': int, 'float': float, 'str': str, 'list': list, 'none': type(None)}


def err_code(e):
    for k, c in ERR.items():
        if type(e) is k:
            return c
    return 99


# ---------------------------------------------------------------- values

def py(v):
    """JSON value -> Python value"""
    if isinstance(v, dict):
        if 'f' in v:
            return float(Fraction(v['f'][0], v['f'][1]))
        if 'l' in v:
            return [py(x) for x in v['l']]
    return v


def canon(v):
    if v is None or isinstance(v, (bool, str)):
        return v
    if isinstance(v, int):
        return v
    if isinstance(v, float):
        return ['f', q(v)]
    if isinstance(v, list):
        return ['l'] + [canon(x) for x in v]
    return ['?', repr(v)]


def same(a, b):
    if type(a) is not type(b):
        return False
    if isinstance(a, list):
        return len(a) == len(b) and all(same(x, y) for x, y in zip(a, b))
    return a == b


# ---------------------------------------------------------------- check_valid / set_function tables

def cv_even_ok(v):
    return isinstance(v, int) and v % 2 == 0


def cv_notnone_ok(v):
    return v is not None


def cv_short_ok(v):
    return not (isinstance(v, (str, list)) and len(v) > 1)


CV_OK = {'even': cv_even_ok, 'notnone': cv_notnone_ok, 'short': cv_short_ok}


def make_cv(kind):
    pred = CV_OK[kind]

    def check(name, value):
        if not pred(value):
            raise ValueError("Option '%s' with value %r is not valid." % (name, value))
    return check


def sf_clip(meta, v):
    if type(v) is int:
        return min(v, 3)
    return v


def sf_neg(meta, v):
    if type(v) is int:
        return -v
    if isinstance(v, str):
        raise ValueError('no strings')
    return v


SF = {'clip': sf_clip, 'neg': sf_neg}


# ---------------------------------------------------------------- reference: "satisfies its declaration"

def is_number(v):
    return isinstance(v, (bool, int, float))


def ref_decl(d, default):
    """declaration as the docstring of declare() reads it (bool-typed options are governed by
    values (True, False), pinned by the repository's tests; default=None implies allow_none)"""
    r = dict(d)
    r['types_py'] = None
    if d['types'] is not None:
        if 'one' in d['types']:
            r['types_py'] = TYPES[d['types']['one']]
        else:
            r['types_py'] = tuple(TYPES[t] for t in d['types']['tuple'])
    r['values_py'] = None if d['values'] is None else [py(x) for x in d['values']]
    if r['types_py'] is bool:
        r['values_py'] = [True, False]
    r['upper_py'] = None if d['upper'] is None else py(d['upper'])
    r['lower_py'] = None if d['lower'] is None else py(d['lower'])
    r['allow'] = bool(d['allow_none']) or (default is not None and py(default['v']) is None)
    return r


def ref_valid(r, v):
    if not (v is None and r['allow']):
        if r['values_py'] is not None:
            if r['types_py'] is list:
                if not isinstance(v, list):
                    return False, 'types=list'
                if not all(x in r['values_py'] for x in v):
                    return False, 'values'
            elif v not in r['values_py']:
                return False, 'values'
        elif r['types_py'] is not None:
            if not isinstance(v, r['types_py']):
                return False, 'types'
        if r['upper_py'] is not None:
            if not is_number(v) or v > r['upper_py']:
                return False, 'upper'
        if r['lower_py'] is not None:
            if not is_number(v) or v < r['lower_py']:
                return False, 'lower'
    if r['cv'] is not None and not CV_OK[r['cv']](v):
        return False, 'check_valid'
    return True, ''


def ref_sf(r, v):
    """(raises?, stored value)"""
    if r['sf'] is None:
        return False, v
    try:
        return False, SF[r['sf']](None, v)
    except ValueError:
        return True, None


# ---------------------------------------------------------------- driver

def decl_free(ops):
    for op in ops:
        if op['k'] in ('declare', 'undeclare'):
            return False
        if op['k'] in ('temp', 'try') and not decl_free(op['body']):
            return False
    return True


class Run:
    def __init__(self, case):
        self.o = OptionsDictionary(read_only=bool(case['ro']))
        self.ro = bool(case['ro'])
        self.trace = []
        self.shadow = {}       # name -> reference declaration currently in force
        self.fails = []        # (sig, msg)
        self.universe = []
        self.collect(case['ops'])

    def collect(self, ops):
        for op in ops:
            if op['k'] == 'set':
                self.universe.append(py(op['v']))
            elif op['k'] == 'declare' and op['default'] is not None:
                self.universe.append(py(op['default']['v']))
            elif op['k'] in ('update', 'temp'):
                self.universe.extend(py(v) for _, v in op['kw'])
            if op['k'] in ('temp', 'try'):
                self.collect(op['body'])

    # -- visible state
    def snap(self):
        o = self.o
        ents = []
        for n, meta in o._dict.items():
            hbs = bool(meta['has_been_set'])
            ents.append([n, [hbs] if meta['val'] is _UNDEFINED else [hbs, canon(meta['val'])]])
        cache = [[n, [canon(x) for x in l]] for n, l in o._context_cache.items()]
        return [ents, cache]

    def values(self):
        return {n: (bool(m['has_been_set']), m['val']) for n, m in self.o._dict.items()}

    @staticmethod
    def values_same(a, b):
        if list(a) != list(b):
            return False
        for n in a:
            (h1, v1), (h2, v2) = a[n], b[n]
            if h1 != h2:
                return False
            if (v1 is _UNDEFINED) != (v2 is _UNDEFINED):
                return False
            if v1 is not _UNDEFINED and not same(v1, v2):
                return False
        return True

    def fail(self, sig, msg):
        self.fails.append((sig, msg))

    # -- reference for one assignment: (should succeed, target name, stored value, reason)
    def expect_set(self, n, v):
        if n not in self.shadow:
            return False, None, None, 'undeclared'
        if self.ro:
            return False, None, None, 'read-only'
        r, t = self.shadow[n], n
        if r['dep'] is not None and r['dep'].get('alias'):
            t = r['dep']['alias']
            if t not in self.shadow:
                return False, None, None, 'alias-missing'
            r = self.shadow[t]
        ok, why = ref_valid(r, v)
        if not ok:
            return False, None, None, why
        raises, w = ref_sf(r, v)
        if raises:
            return False, None, None, 'set_function'
        return True, t, w, ''

    def do_set(self, n, v, ctx):
        """one real assignment + oracle; re-raises the real exception"""
        exp, t, w, why = self.expect_set(n, v)
        before = self.values()
        try:
            self.o[n] = v
        except Exception as e:
            after = self.values()
            if exp:
                self.fail('set-rejected-valid', '%s: o[%r] = %r rejected with %s: %s although the value satisfies '
                          'the declaration' % (ctx, n, v, type(e).__name__, str(e)[:120]))
            if not self.values_same(before, after):
                self.fail('rejected-set-changed-state', '%s: rejected o[%r] = %r changed the stored values' % (ctx, n, v))
            raise
        after = self.values()
        if not exp:
            self.fail('set-accepted-invalid:' + why, '%s: o[%r] = %r accepted although it violates the declaration (%s)'
                      % (ctx, n, v, why))
        else:
            want = dict(before)
            want[t] = (True, w)
            if not self.values_same(want, after):
                self.fail('set-wrong-effect', '%s: o[%r] = %r did not store exactly %r in %r' % (ctx, n, v, w, t))

    def all_wf(self):
        """every stored value satisfies its declaration and is a fixpoint of its set_function, and every
        set_function in force maps acceptable values (of this case's value universe) to acceptable fixpoints:
        the conditions under which re-assigning the saved value can restore it at all"""
        for r in self.shadow.values():
            if r['sf'] is not None:
                for v in self.universe:
                    if ref_valid(r, v)[0]:
                        raises, w = ref_sf(r, v)
                        if not raises and not (ref_valid(r, w)[0] and same(ref_sf(r, w)[1], w)):
                            return False
        for n, m in self.o._dict.items():
            if n not in self.shadow:
                return False
            if m['val'] is _UNDEFINED:
                continue
            r = self.shadow[n]
            if not ref_valid(r, m['val'])[0]:
                return False
            raises, w = ref_sf(r, m['val'])
            if raises or not same(w, m['val']):
                return False
        return True

    def read(self, n):
        try:
            return True, self.o[n]
        except Exception:
            return False, None

    def run_ops(self, ops):
        for op in ops:
            self.run_op(op)

    def run_op(self, op):
        o, k = self.o, op['k']
        out = 'ok'
        try:
            if k == 'declare':
                d = op['d']
                kw = {}
                if d['values'] is not None:
                    vals = [py(x) for x in d['values']]
                    kw['values'] = tuple(vals) if d.get('vtuple') else vals
                r = ref_decl(d, op['default'])
                if r['types_py'] is not None:
                    kw['types'] = r['types_py']
                if d['upper'] is not None:
                    kw['upper'] = py(d['upper'])
                if d['lower'] is not None:
                    kw['lower'] = py(d['lower'])
                if d['allow_none']:
                    kw['allow_none'] = True
                if d['cv'] is not None:
                    kw['check_valid'] = make_cv(d['cv'])
                if d['sf'] is not None:
                    kw['set_function'] = SF[d['sf']]
                if d['dep'] is not None:
                    a = d['dep'].get('alias')
                    kw['deprecation'] = ('deprecated', a) if a else 'deprecated'
                if op['default'] is not None:
                    kw['default'] = py(op['default']['v'])
                prev = o._dict.get(op['n'])
                try:
                    o.declare(op['n'], **kw)
                finally:
                    if o._dict.get(op['n']) is not prev:
                        self.shadow[op['n']] = r
            elif k == 'undeclare':
                o.undeclare(op['n'])
                if op['n'] not in o._dict:
                    self.shadow.pop(op['n'], None)
            elif k == 'set':
                self.do_set(op['n'], py(op['v']), 'set')
            elif k == 'get':
                out = ['val', canon(o[op['n']])]
            elif k == 'update':
                # oracle per assignment: reproduce update()/set() as a sequence of assignments on the reference
                kws = [(n, py(v)) for n, v in op['kw']]
                before = self.values()
                want, exp_ok = dict(before), True
                for n, v in kws:
                    e, t, w, why = self.expect_set(n, v)
                    if not e:
                        exp_ok = False
                        break
                    want[t] = (True, w)
                real_ok, exc = True, None
                try:
                    if op.get('via') == 'set':
                        o.set(**dict(kws))
                    else:
                        o.update(dict(kws))
                except Exception as e:
                    real_ok, exc = False, e
                after = self.values()
                if real_ok != exp_ok:
                    self.fail('update-outcome', 'update(%r): %s but the reference says %s' % (
                        kws, 'accepted' if real_ok else 'rejected', 'valid' if exp_ok else 'invalid'))
                elif not self.values_same(want, after):
                    self.fail('update-state', 'update(%r) left values that differ from assigning the valid prefix' % (kws,))
                if exc is not None:
                    raise exc
            elif k == 'temp':
                kws = [(n, py(v)) for n, v in op['kw']]
                check = decl_free(op['body']) and self.all_wf()
                pre = {n: self.read(n) for n, _ in kws}
                how = 'entry-failure'
                try:
                    with o.temporary(**dict(kws)):
                        how = 'exception'
                        self.run_ops(op['body'])
                        how = 'normal-exit'
                finally:
                    if check:
                        for n, _ in kws:
                            okr, val = pre[n]
                            if not okr:
                                continue
                            ok2, val2 = self.read(n)
                            if not ok2 or not same(val, val2):
                                self.fail('temporary-not-restored:' + how,
                                          'with o.temporary(%s) left by %s: option %r was %r before and is %r afterwards'
                                          % (', '.join('%s=%r' % kv for kv in kws), how, n, val,
                                             val2 if ok2 else '<unreadable>'))
                                break
            elif k == 'try':
                try:
                    self.run_ops(op['body'])
                except Boom:
                    pass
            elif k == 'raise':
                raise Boom()
            else:
                raise RuntimeError('unknown op ' + k)
        except Boom:
            self.trace.append([err(5), self.snap()])
            raise
        except Exception as e:
            out = err(err_code(e))
        self.trace.append([out, self.snap()])


def handle(c):
    r = Run(c)
    try:
        r.run_ops(c['ops'])
    except Boom:
        pass
    import json
    prev, trace = json.dumps([[], []]), []
    for out, snap in r.trace:       # the state is printed only when it changed (keeps the literals small)
        cur = json.dumps(snap)      # (textual comparison: in Python 0 == False)
        trace.append([out, '=' if cur == prev else snap])
        prev = cur
    ok = not r.fails
    sig, msg = (r.fails[0] if r.fails else ('', ''))
    kinds = set()

    def walk(ops, depth):
        for op in ops:
            kinds.add(op['k'])
            if op['k'] in ('temp', 'try'):
                walk(op['body'], depth + 1)
    walk(c['ops'], 0)
    kind = ('ro:' if c['ro'] else '') + ('temp' if 'temp' in kinds else 'flat') + ('+raise' if 'raise' in kinds else '')
    return {'res': trace, 'ok': ok, 'msg': msg, 'sig': sig, 'kind': kind,
            'nfails': len(r.fails), 'allsigs': sorted({s for s, _ in r.fails})}


if __name__ == '__main__':
    main(handle)
