"""C05 implementation side: the real openmdao.utils.indexer and real NumPy on the same cases."""
import warnings
import numpy as np
from implutil import main, ints, err

warnings.simplefilter('ignore')
from openmdao.utils.indexer import indexer, array2slice, slicer  # noqa: E402


def py_item(it):
    t = it['t']
    if t == 'int':
        return int(it['v'])
    if t == 'slice':
        a, b, c = it['v']
        return slice(a, b, c)
    if t == 'arr':
        return np.array(it['v'], dtype=int)
    if t == 'arr2':
        return np.array(it['v'], dtype=int)
    raise ValueError(t)


def py_idx(ix):
    t = ix['t']
    if t == 'tup':
        return tuple(py_item(i) for i in ix['v'])
    if t == 'ell':
        return tuple([py_item(i) for i in ix['pre']] + [Ellipsis] + [py_item(i) for i in ix['post']])
    return py_item(ix)


REJECT = (IndexError,)


def handle(c):
    if c['kind'] == 'a2s':
        arr = np.array(c['arr'], dtype=int)
        s = array2slice(arr)
        res = None if s is None else [s.start, s.stop, s.step]
        ok, msg = True, ''
        if s is not None:
            # oracle: on every extent that contains the array's entries the slice selects the same positions
            hi = (max(c['arr']) + 1) if c['arr'] else 0
            for n in (hi, hi + 1, hi + 3):
                if np.arange(n)[s].tolist() != np.arange(n)[arr].tolist():
                    ok, msg = False, 'array2slice(%s)=%s selects %s on extent %d' % (c['arr'], s, np.arange(n)[s].tolist(), n)
                    break
        return {'res': res, 'ok': ok, 'msg': msg, 'sig': 'array2slice', 'kind': 'a2s'}

    shape, flat = tuple(c['shape']), bool(c['flat'])
    idx = py_idx(c['idx'])
    if c.get('slicer'):
        idx = slicer[idx]
    size = int(np.prod(shape))
    ref = np.arange(size).reshape(shape)
    if flat:
        ref = ref.ravel()
    try:
        r = ref[idx]
        np_res = [ints(r), [int(d) for d in r.shape]]
    except (IndexError, ValueError):
        np_res = err(1)
    om_res, exc = None, None
    try:
        ix = indexer(idx, src_shape=shape, flat_src=flat)
        sa = ix.shaped_array()
        if not flat and len(shape) > 1 and c['idx']['t'] in ('int', 'arr'):
            # for a non-flat N-D source the shaped array of an int / index-array indexer is the
            # first-axis index array (pinned by the repository's test_int_nonflat); the flat source
            # positions OpenMDAO derives from it are obtained by applying it to the source
            pos = ints(np.arange(size).reshape(shape)[sa])
        else:
            pos = ints(sa)
        shp = [int(d) for d in ix.indexed_src_shape]
        om_res = [pos, shp]
        # indexed_val must agree with the derived positions
        iv = ints(ix.indexed_val(np.arange(size).reshape(shape)))
    except Exception as e:   # noqa
        exc = e
        om_res = err(1)
    ok, msg, sig = True, '', ''
    if exc is None:
        if om_res != np_res:
            ok = False
            msg = 'indexer(%r, src_shape=%r, flat_src=%r): shaped_array/indexed_src_shape=%r, NumPy gives %r' % (
                idx, shape, flat, om_res, np_res)
        elif iv != np_res[0]:
            ok = False
            msg = 'indexed_val gives %r, NumPy %r' % (iv, np_res[0])
    else:
        acceptable = isinstance(exc, IndexError) or \
            (isinstance(exc, RuntimeError) and 'flat' in str(exc)) or \
            (isinstance(exc, ValueError) and ("Can't set source shape" in str(exc) or
                                              'slice step cannot be zero' in str(exc)))
        if not acceptable:
            ok = False
            msg = 'indexer(%r, src_shape=%r, flat_src=%r) failed with %s: %s (NumPy gives %r)' % (
                idx, shape, flat, type(exc).__name__, str(exc)[:100], np_res)
    if not ok:
        sig = c.get('class', '')
    out = {'res': [om_res, np_res] if c.get('model', True) else '__none__', 'ok': ok, 'msg': msg,
           'sig': sig, 'kind': c.get('class', '')}
    return out


if __name__ == '__main__':
    main(handle)
