"""C05 implementation side: the real openmdao.utils.indexer and real NumPy on the same cases."""
import warnings
import numpy as np
from implutil import main, ints, err

warnings.simplefilter('ignore')
from openmdao.utils.indexer import indexer, array2slice, slicer  # noqa: E402


def py_item(it):
    t = it['t']
    if t == 'int':
        return int(it['v'])
    if t == 'slice':
        a, b, c = it['v']
        return slice(a, b, c)
    if t == 'arr':
        return np.array(it['v'], dtype=ARR_DTYPE[0])
    if t == 'arr2':
        return np.array(it['v'], dtype=int)
    raise ValueError(t)


def py_idx(ix):
    t = ix['t']
    if t == 'tup':
        return tuple(py_item(i) for i in ix['v'])
    if t == 'ell':
        return tuple([py_item(i) for i in ix['pre']] + [Ellipsis] + [py_item(i) for i in ix['post']])
    return py_item(ix)


ARR_DTYPE = [int]      # dtype used for index arrays of the current case (int64 by default, int32 = OpenMDAO's INT_DTYPE)
REJECT = (IndexError,)


def zero_width_ellipsis(ixj, shape, flat, om_res, np_res):
    """Known finding: an Ellipsis expanding to zero axes between advanced (int/array) entries, at least
    one of them an array; OpenMDAO and NumPy then select the same elements but order/shape differ."""
    if ixj['t'] != 'ell' or flat or len(ixj['pre']) + len(ixj['post']) != len(shape):
        return False
    adv = lambda its: any(i['t'] in ('int', 'arr') for i in its)
    arr = any(i['t'] == 'arr' for i in ixj['pre'] + ixj['post'])
    accepted = isinstance(om_res, list) and isinstance(np_res, list)
    return bool(adv(ixj['pre']) and adv(ixj['post']) and arr and accepted and
                sorted(om_res[0]) == sorted(np_res[0]) and sorted(om_res[1]) == sorted(np_res[1]))



def handle(c):
    if c['kind'] == 'a2s':
        arr = np.array(c['arr'], dtype=int)
        s = array2slice(arr)
        res = None if s is None else [s.start, s.stop, s.step]
        ok, msg = True, ''
        if s is not None:
            # oracle: on every extent that contains the array's entries the slice selects the same positions
            hi = (max(c['arr']) + 1) if c['arr'] else 0
            for n in (hi, hi + 1, hi + 3):
                if np.arange(n)[s].tolist() != np.arange(n)[arr].tolist():
                    ok, msg = False, 'array2slice(%s)=%s selects %s on extent %d' % (c['arr'], s, np.arange(n)[s].tolist(), n)
                    break
        return {'res': res, 'ok': ok, 'msg': msg, 'sig': 'array2slice', 'kind': 'a2s'}

    if c['kind'] == 'seq':
        return handle_seq(c)
    shape, flat = tuple(c['shape']), bool(c['flat'])
    idx = py_idx(c['idx'])
    if c.get('slicer'):
        idx = slicer[idx]
    size = int(np.prod(shape))
    ref = np.arange(size).reshape(shape)
    if flat:
        ref = ref.ravel()
    try:
        r = ref[idx]
        np_res = [ints(r), [int(d) for d in r.shape]]
    except (IndexError, ValueError):
        np_res = err(1)
    om_res, exc = None, None
    try:
        ix = indexer(idx, src_shape=shape, flat_src=flat)
        sa = ix.shaped_array()
        if not flat and len(shape) > 1 and c['idx']['t'] in ('int', 'arr'):
            # for a non-flat N-D source the shaped array of an int / index-array indexer is the
            # first-axis index array (pinned by the repository's test_int_nonflat); the flat source
            # positions OpenMDAO derives from it are obtained by applying it to the source
            pos = ints(np.arange(size).reshape(shape)[sa])
        else:
            pos = ints(sa)
        shp = [int(d) for d in ix.indexed_src_shape]
        om_res = [pos, shp]
        # indexed_val must agree with the derived positions
        iv = ints(ix.indexed_val(np.arange(size).reshape(shape)))
    except Exception as e:   # noqa
        exc = e
        om_res = err(1)
    ok, msg, sig = True, '', ''
    if exc is None:
        if om_res != np_res:
            ok = False
            msg = 'indexer(%r, src_shape=%r, flat_src=%r): shaped_array/indexed_src_shape=%r, NumPy gives %r' % (
                idx, shape, flat, om_res, np_res)
        elif iv != np_res[0]:
            ok = False
            msg = 'indexed_val gives %r, NumPy %r' % (iv, np_res[0])
    else:
        acceptable = isinstance(exc, IndexError) or \
            (isinstance(exc, RuntimeError) and 'flat' in str(exc)) or \
            (isinstance(exc, ValueError) and ("Can't set source shape" in str(exc) or
                                              'slice step cannot be zero' in str(exc)))
        if not acceptable:
            ok = False
            msg = 'indexer(%r, src_shape=%r, flat_src=%r) failed with %s: %s (NumPy gives %r)' % (
                idx, shape, flat, type(exc).__name__, str(exc)[:100], np_res)
    if not ok:
        sig = c.get('class', '')
        if zero_width_ellipsis(c['idx'], shape, flat, om_res, np_res):
            sig = 'ellipsis-of-zero-width-between-advanced-indices'
    out = {'res': [om_res, np_res] if c.get('model', True) else '__none__', 'ok': ok, 'msg': msg,
           'sig': sig, 'kind': c.get('class', '')}
    return out


def observe(ix, idx, shape, flat, kind):
    """(shaped_array, indexed_src_shape) of an indexer whose source shape is set, and NumPy's answer."""
    size = int(np.prod(shape))
    ref = np.arange(size).reshape(shape)
    if flat:
        ref = ref.ravel()
    try:
        r = ref[idx]
        np_res = [ints(r), [int(d) for d in r.shape]]
    except (IndexError, ValueError):
        np_res = err(1)
    try:
        sa = ix.shaped_array()
        if not flat and len(shape) > 1 and type(ix).__name__ in ('IntIndexer', 'ArrayIndexer'):
            pos = ints(np.arange(size).reshape(shape)[sa])
        else:
            pos = ints(sa)
        om_res = [pos, [int(d) for d in ix.indexed_src_shape]]
    except Exception:
        om_res = err(1)
    return om_res, np_res


def handle_seq(c):
    """One indexer object re-used for a sequence of source shapes (set_src_shape history), optionally
    created through try_slice=True and/or copied: after every step it must describe NumPy's selection
    for the CURRENT shape."""
    flat = bool(c['flat'])
    ARR_DTYPE[0] = np.int32 if c.get('dtype') == 'i4' else int
    idx = py_idx(c['idx'])          # handed to OpenMDAO (which must not change the caller's arrays)
    ref_idx = py_idx(c['idx'])      # pristine copy for the NumPy reference
    ARR_DTYPE[0] = int
    kind = c['idx']['t']
    res, ok, msg, sig = [], True, '', ''
    try:
        ix = indexer(idx, flat_src=flat, try_slice=bool(c.get('try_slice')))
    except Exception as e:
        return {'res': err(1), 'ok': True, 'msg': 'creation rejected: %s' % e, 'sig': '', 'kind': 'seq'}
    for k, shape in enumerate(c['shapes']):
        shape = tuple(shape)
        try:
            if c.get('fresh') and k > 0:
                # a NEW indexer built from the SAME caller-owned index object for another source shape
                ix = indexer(idx, flat_src=flat, try_slice=bool(c.get('try_slice')))
            ix.set_src_shape(shape)
            om_res, np_res = observe(ix, ref_idx, shape, flat, kind)
        except Exception as e:
            om_res, np_res = err(1), None
        res.append(om_res)
        if isinstance(om_res, list) and np_res is not None and om_res != np_res and ok:
            ok = False
            sig = 'reshape-history'
            if zero_width_ellipsis(c['idx'], shape, flat, om_res, np_res):
                sig = 'ellipsis-of-zero-width-between-advanced-indices'
            msg = 'indexer(%r, flat_src=%r%s) after set_src_shape history %r: derives %r for shape %r, NumPy gives %r' % (
                idx, flat, ', try_slice=True' if c.get('try_slice') else '', c['shapes'][:k + 1], om_res, shape, np_res)
    return {'res': res, 'ok': ok, 'msg': msg, 'sig': sig, 'kind': 'seq'}


if __name__ == '__main__':
    main(handle)
