"""C05 — index objects follow NumPy indexing semantics."""
import itertools
import core
from core import Spec, standard_check, zlist, optlit, boollit


def slc(a, b, c):
    return {'t': 'slice', 'v': [a, b, c]}


def item_term(it):
    t = it['t']
    if t == 'int':
        return '(IInt (%d))' % it['v']
    if t == 'slice':
        a, b, c = it['v']
        return '(ISlice (mkslice %s %s %s))' % (optlit(a), optlit(b), optlit(c))
    if t == 'arr':
        return '(IArr %s)' % zlist(it['v'])
    raise ValueError(t)


def idx_term(ix):
    t = ix['t']
    if t == 'tup':
        return '(ITup [%s])' % '; '.join(item_term(i) for i in ix['v'])
    if t == 'ell':
        return '(IEll [%s] [%s])' % ('; '.join(item_term(i) for i in ix['pre']),
                                     '; '.join(item_term(i) for i in ix['post']))
    return '(I1 %s)' % item_term(ix)


def item_class(it):
    if it['t'] == 'slice':
        a, b, c = it['v']
        f = lambda v: 'N' if v is None else ('-' if v < 0 else '+')
        return 'slice[%s%s%s]' % (f(a), f(b), f(c))
    if it['t'] == 'int':
        return 'int' + ('-' if it['v'] < 0 else '+')
    return it['t'] + ('-' if any(v < 0 for v in sum(it['v'], []) if isinstance(it['v'][0], list)) else '') \
        if it['t'] == 'arr2' else 'arr' + ('-' if any(v < 0 for v in it['v']) else '+')


def classify(c):
    ix = c['idx']
    rank = 'flat' if c['flat'] else 'rank%d' % len(c['shape'])
    if ix['t'] == 'tup':
        body = 'tup(' + ','.join(item_class(i) for i in ix['v']) + ')'
    elif ix['t'] == 'ell':
        body = 'ell(' + ','.join(item_class(i) for i in ix['pre']) + '|' + ','.join(item_class(i) for i in ix['post']) + ')'
    else:
        body = item_class(ix)
    return rank + ':' + body


def in_model_grammar(ix):
    """at most one array item and no int separated from it by a slice; no 2-D array index"""
    items = ix['v'] if ix['t'] == 'tup' else (ix['pre'] + [slc(None, None, None)] + ix['post'] if ix['t'] == 'ell' else [ix])
    if any(i['t'] == 'arr2' for i in items):
        return False
    arrs = [k for k, i in enumerate(items) if i['t'] == 'arr']
    if len(arrs) > 1:
        return False
    if arrs:
        ints_ = [k for k, i in enumerate(items) if i['t'] == 'int']
        adv = sorted(arrs + ints_)
        if adv and adv[-1] - adv[0] + 1 != len(adv):
            return False
        if ix['t'] == 'ell' and ints_:
            return False
    return True


class C05(Spec):
    pid = 'C05'
    imports = ['C05.Model']
    impl_script = 'props/C05/impl.py'
    exactness = 'E1 (integer-exact): positions, result shape, acceptance'
    shard = 500
    impl_jobs = 8
    rule = ('exhaustive 1-D slices/ints/arrays over extents <= N with start/stop in {None} U [-n-1,n+1], '
            'step in {None,+-1,+-2,+-3}, flat and non-flat; tuples / ellipsis forms over shapes of rank 2-3; '
            'array2slice over all integer arrays of bounded length; a case is non-trivial when it is distinct '
            '(every case is a different (index, shape, flat) triple)')
    assumptions = ['NumPy itself is the reference for the oracle and for validating np_index',
                   'model grammar: at most one integer-array entry per tuple, no int separated from it by a slice; '
                   'the remaining forms (two arrays, 2-D index arrays) are checked by the NumPy oracle only']

    def items_for(self, n, rng, small=False):
        vals = [None] + list(range(-n - 1, n + 2))
        steps = [None, 1, -1, 2, -2] if small else [None, 1, -1, 2, -2, 3, -3]
        out = [slc(a, b, c) for a in vals for b in vals for c in steps]
        out += [{'t': 'int', 'v': k} for k in range(-n - 1, n + 2)]
        return out

    def gen(self, tier, rng):
        cases = []
        nmax = 4 if tier == 'quick' else 6
        # 1-D exhaustive
        for n in range(0, nmax + 1):
            for flat in (False, True):
                for it in self.items_for(n, rng):
                    cases.append({'kind': 'index', 'shape': [n], 'flat': flat, 'idx': it})
                arrs = [list(t) for L in range(0, 3) for t in itertools.product(range(-n - 1, n + 1), repeat=L)]
                if len(arrs) > 150:
                    arrs = rng.sample(arrs, 150)
                for a in arrs:
                    cases.append({'kind': 'index', 'shape': [n], 'flat': flat, 'idx': {'t': 'arr', 'v': a}})
        # zero step
        cases.append({'kind': 'index', 'shape': [3], 'flat': False, 'idx': slc(None, None, 0)})
        # N-D
        shapes = [[a, b] for a in range(1, 4) for b in range(1, 4)] + [[2, 3, 2], [3, 1, 2], [2, 2, 3], [1, 2, 2]]
        count = 4000 if tier == 'quick' else 40000
        for _ in range(count):
            shape = rng.choice(shapes)
            flat = rng.random() < 0.25
            form = rng.choice(['single', 'tup', 'tup', 'ell', 'slicer'])
            def rnd_item(n, allow_arr=True):
                k = rng.random()
                if k < 0.45:
                    vals = [None, None] + list(range(-n - 1, n + 2))
                    return slc(rng.choice(vals), rng.choice(vals), rng.choice([None, None, 1, -1, 2, -2, -3]))
                if k < 0.8 or not allow_arr:
                    return {'t': 'int', 'v': rng.randrange(-n - 1, n + 1) if rng.random() < 0.2 else rng.randrange(-n, n)}
                L = rng.randrange(0, 4)
                lo, hi = (-n - 1, n + 1) if rng.random() < 0.15 else (-n, n)
                return {'t': 'arr', 'v': [rng.randrange(lo, hi) for _ in range(L)]}
            if form == 'single':
                n0 = shape[0] if not flat else shape[0] * shape[1] * (shape[2] if len(shape) > 2 else 1)
                ix = rnd_item(n0)
            elif form in ('tup', 'slicer'):
                L = rng.randrange(1, len(shape) + (2 if rng.random() < 0.05 else 1))
                ix = {'t': 'tup', 'v': [rnd_item(shape[k] if k < len(shape) else 2) for k in range(L)]}
            else:
                L = rng.randrange(0, len(shape) + 1)
                npre = rng.randrange(0, L + 1)
                its = [rnd_item(shape[k] if k < npre else shape[len(shape) - (L - k)]) for k in range(L)]
                ix = {'t': 'ell', 'pre': its[:npre], 'post': its[npre:]}
            c = {'kind': 'index', 'shape': shape, 'flat': flat, 'idx': ix}
            if form == 'slicer':
                c['slicer'] = True
            cases.append(c)
        # oracle-only forms: two broadcast arrays
        for _ in range(300 if tier == 'quick' else 3000):
            shape = rng.choice(shapes)
            if rng.random() < 0.5:
                L = rng.randrange(1, 4)
                its = [{'t': 'arr', 'v': [rng.randrange(-n, n) for _ in range(L)]} for n in shape[:2]]
                its += [slc(None, None, None)] * (len(shape) - 2)
                ix = {'t': 'tup', 'v': its}
                flat = False
            else:
                L = rng.randrange(1, 4)
                its = [slc(None, None, None)] * (len(shape) - 2)
                its += [{'t': 'arr', 'v': [rng.randrange(-n, n) for _ in range(L)]} for n in shape[-2:]]
                ix = {'t': 'tup', 'v': its}
                flat = False
            cases.append({'kind': 'index', 'shape': shape, 'flat': flat, 'idx': ix})
        # histories: one indexer object, several set_src_shape calls (shaped-instance cache), try_slice, copy
        nseq = 1500 if tier == 'quick' else 15000
        for _ in range(nseq):
            rank = rng.choice([1, 1, 2, 3])
            flat = rng.random() < 0.3
            form = rng.choice(['single', 'single', 'tup', 'ell'])
            shapes = [[rng.randrange(2, 5) for _ in range(rank)] for _ in range(rng.randrange(2, 4))]
            mins = [min(sh[k] for sh in shapes) for k in range(rank)]
            def it(n):
                k = rng.random()
                if k < 0.5:
                    vals = [None, None] + list(range(-n, n + 1))
                    return slc(rng.choice(vals), rng.choice(vals), rng.choice([None, 1, -1, 2, -2]))
                if k < 0.75:
                    return {'t': 'int', 'v': rng.randrange(-n, n)}
                return {'t': 'arr', 'v': [rng.randrange(-n, n) for _ in range(rng.randrange(1, 4))]}
            if form == 'single' or flat:
                n0 = mins[0]
                if flat:
                    n0 = 1
                    for m in mins:
                        n0 *= m
                ix = it(n0)
            elif form == 'tup':
                ix = {'t': 'tup', 'v': [it(mins[k]) for k in range(rng.randrange(1, rank + 1))]}
            else:
                L = rng.randrange(0, rank + 1)
                npre = rng.randrange(0, L + 1)
                its = [it(mins[k] if k < npre else mins[rank - (L - k)]) for k in range(L)]
                ix = {'t': 'ell', 'pre': its[:npre], 'post': its[npre:]}
            c = {'kind': 'seq', 'shapes': shapes, 'flat': flat, 'idx': ix}
            if ix['t'] == 'arr' and rng.random() < 0.5:
                c['try_slice'] = True
            # index arrays of OpenMDAO's own INT_DTYPE (int32) and caller-owned arrays re-used for a new indexer
            if rng.random() < 0.5:
                c['dtype'] = 'i4'
            if rng.random() < 0.4:
                c['fresh'] = True
            if in_model_grammar(ix) and not c.get('try_slice'):
                cases.append(c)
            else:
                c['model'] = False
                cases.append(c)
        # array2slice: all integer arrays of length <= 4 over [-2, 5] (quick) / <= 5 over [-2, 6]
        L, hi = (4, 5) if tier == 'quick' else (5, 6)
        for k in range(0, L + 1):
            for t in itertools.product(range(-2, hi + 1), repeat=k):
                cases.append({'kind': 'a2s', 'arr': list(t)})
        for c in cases:
            if c['kind'] == 'index':
                c['class'] = classify(c)
                c['model'] = in_model_grammar(c['idx'])
        return cases

    def search_gen(self, tier, rng):
        return self.gen(tier, rng)[:20000]

    def compare_case(self, c, res):
        if c['kind'] == 'seq' and c.get('model') is False:
            return False
        return res.get('res', '__none__') != '__none__'

    def got_term(self, c):
        if c['kind'] == 'a2s':
            return '(v_oslice (array2slice %s))' % zlist(c['arr'])
        if c['kind'] == 'seq':
            fl, ix = boollit(c['flat']), idx_term(c['idx'])
            return '(VL [%s])' % '; '.join('v_pair (om_index %s %s %s)' % (zlist(sh), fl, ix) for sh in c['shapes'])
        sh, fl, ix = zlist(c['shape']), boollit(c['flat']), idx_term(c['idx'])
        return '(VL [v_pair (om_index %s %s %s); v_pair (np_index_flat %s %s %s)])' % (sh, fl, ix, sh, fl, ix)

    def shrink(self, c):
        if c['kind'] == 'seq' and len(c['shapes']) > 2:
            for k in range(len(c['shapes'])):
                yield dict(c, shapes=c['shapes'][:k] + c['shapes'][k + 1:])
        if c['kind'] != 'index':
            return
        ix = c['idx']
        if ix['t'] == 'tup' and len(ix['v']) > 1:
            for k in range(len(ix['v'])):
                v = list(ix['v'])
                v[k] = slc(None, None, None)
                yield dict(c, idx={'t': 'tup', 'v': v})


SPEC = C05()


def main(tier):
    return standard_check(SPEC, tier)
