"""C28 implementation side: the real surrogate models and MetaModelUnStructuredComp.

Oracles on the real code (the property's statement):
  rs    ResponseSurface trained on a quadratic (enough points in general position) predicts the quadratic and
        linearize returns its gradient; for any data linearize is the derivative of its own predict (central
        difference, exact for quadratics up to rounding);
  nn    NearestNeighbor linear / weighted / rbf return the training outputs at the training inputs; linearize
        vs difference quotients of predict (away from neighbour switches);
  krig  KrigingSurrogate(nugget=0) returns the training outputs at training inputs; the read-back solve is
        certified by its residual R alpha = Y; linearize vs difference quotients of predict;
  mm    MetaModelUnStructuredComp outputs / partials agree with the surrogate trained on the same data.
For the model comparison the LAPACK / KD-tree results (betas; neighbour distances and values) are read back.
"""
import warnings
from fractions import Fraction as Fr
import numpy as np
from implutil import main, q

warnings.simplefilter('ignore')
import openmdao.api as om  # noqa: E402
from openmdao.surrogate_models.response_surface import ResponseSurface  # noqa: E402
from openmdao.surrogate_models.nearest_neighbor import NearestNeighbor  # noqa: E402
from openmdao.surrogate_models.kriging import KrigingSurrogate  # noqa: E402


def fr(p):
    return Fr(int(p[0]), int(p[1]))


def arr(t):
    return np.array([[float(fr(v)) for v in row] for row in t])


def quad_eval(coefs, x):
    """coefs in the order of the design row: 1, x_i, x_i x_j (i <= j)."""
    n = len(x)
    row = [Fr(1)] + list(x)
    for i in range(n):
        row += [x[i] * x[j] for j in range(i, n)]
    return sum(c * r for c, r in zip(coefs, row))


def quad_grad(coefs, x):
    n = len(x)
    g = [coefs[1 + k] for k in range(n)]
    pos = n + 1
    for i in range(n):
        for j in range(i, n):
            g[i] += coefs[pos] * x[j]
            g[j] += coefs[pos] * x[i]
            pos += 1
    return g


def fd_grad(f, x, h):
    n = len(x)
    out = []
    for k in range(n):
        xp, xm = x.copy(), x.copy()
        xp[k] += h
        xm[k] -= h
        out.append((np.ravel(f(xp)) - np.ravel(f(xm))) / (2 * h))
    return np.array(out).T          # (outputs, inputs)


def smooth_fd(f, x, h, scale):
    """central differences with a guard: entries where one-sided / two step sizes disagree are masked."""
    d1 = fd_grad(f, x, h)
    d2 = fd_grad(f, x, h / 2)
    n = len(x)
    f0 = np.ravel(f(x.copy()))
    fw, bw = [], []
    for k in range(n):
        xp, xm = x.copy(), x.copy()
        xp[k] += h
        xm[k] -= h
        fw.append((np.ravel(f(xp)) - f0) / h)
        bw.append((f0 - np.ravel(f(xm))) / h)
    fw, bw = np.array(fw).T, np.array(bw).T
    good = (np.abs(d1 - d2) <= 1e-5 * scale) & (np.abs(fw - bw) <= 1e-3 * scale)
    return d1, good


def handle_rs(c):
    x = arr(c['x'])
    n = x.shape[1]
    coefs = [fr(v) for v in c['coefs']] if c.get('coefs') else None
    if coefs is not None:
        y = np.array([[float(quad_eval(coefs, [fr(v) for v in row]))] for row in c['x']])
    else:
        y = np.array([[float(fr(v))] for v in c['y']])
    s = ResponseSurface()
    s.train(x, y)
    betas = np.array(s.betas, dtype=float).ravel()
    nterms = (n + 1) * (n + 2) // 2
    X = np.array([[float(v) for v in [1] + list(r) + [r[i] * r[j] for i in range(n) for j in range(i, n)]] for r in x])
    fullrank = np.linalg.matrix_rank(X) == nterms
    scale = max(1.0, float(np.max(np.abs(y))))
    res, ok, msg = [], True, ''
    if coefs is not None and fullrank:
        # certificate of the read-back least-squares solve: the returned coefficients fit the data
        resid = float(np.max(np.abs(X @ betas - y.ravel())))
        if resid > 1e-8 * scale:
            ok, msg = False, 'ResponseSurface: data of the quadratic %s are not fitted, max residual %g' % (
                [str(v) for v in coefs], resid)
    for qp in c['queries']:
        xq = np.array([float(fr(v)) for v in qp])
        p = float(np.ravel(s.predict(xq.copy()))[0])
        jac = np.array(s.linearize(xq.copy()), dtype=float).ravel()
        res.append([q(p), [q(v) for v in jac]])
        if not ok:
            continue
        qs = max(scale, 1.0)
        if coefs is not None and fullrank:
            want = quad_eval(coefs, [fr(v) for v in qp])
            wg = quad_grad(coefs, [fr(v) for v in qp])
            vs = max(qs, abs(float(want)))
            if abs(p - float(want)) > 1e-7 * vs:
                ok, msg = False, 'ResponseSurface trained on the quadratic %s predicts %r at %s, the quadratic is %s' % (
                    [str(v) for v in coefs], p, [str(fr(v)) for v in qp], want)
            elif any(abs(a - float(b)) > 1e-6 * vs for a, b in zip(jac, wg)):
                ok, msg = False, 'ResponseSurface linearize %r at %s, gradient of the quadratic %s' % (
                    jac.tolist(), [str(fr(v)) for v in qp], [str(v) for v in wg])
        if ok:
            h = 2.0 ** -6
            d = fd_grad(lambda z: s.predict(z), xq, h).ravel()
            ps = max(qs, abs(p), float(np.max(np.abs(d))))
            if np.max(np.abs(d - jac)) > 1e-7 * ps:
                ok, msg = False, 'ResponseSurface linearize %r is not the derivative of predict (%r) at %s' % (
                    jac.tolist(), d.tolist(), [str(fr(v)) for v in qp])
    return {'res': res, 'aux': {'betas': [q(b) for b in betas]}, 'ok': ok, 'msg': msg, 'sig': 'rs',
            'kind': 'rs/%dD/%s' % (n, 'quad' if coefs is not None else 'data')}


def handle_nn(c):
    x, y = arr(c['x']), arr(c['y'])
    n = x.shape[1]
    typ = c['type']
    kw = {'rbf_family': int(c['family'])} if c.get('family') is not None else {}
    s = NearestNeighbor(interpolant_type=typ, **kw)
    if kw:
        typ = 'rbf(family=%d)' % kw['rbf_family']
    s.train(x, y)
    yr = max(1.0, float(np.max(y) - np.min(y)), float(np.max(np.abs(y))))
    ok, msg = True, ''
    for i in range(len(x)):
        p = np.ravel(s.predict(x[i].copy()))
        if np.max(np.abs(p - y[i])) > 1e-7 * yr:
            ok, msg = False, 'NearestNeighbor(%s) at training input %s returns %r, training output %r' % (
                typ, x[i].tolist(), p.tolist(), y[i].tolist())
            break
    res, aux = '__none__', None
    if c['type'] == 'weighted':
        res, aux = [], []
        itp = s.interpolant
        for qp in c['queries']:
            xq = np.array([float(fr(v)) for v in qp])
            p = np.ravel(s.predict(xq.copy()))
            _, ndist, nloc = itp._pt_cache
            res.append(q(p[0]))
            aux.append({'ds': [q(d) for d in np.ravel(ndist)], 'vs': [q(v) for v in itp._tv[np.ravel(nloc), 0]],
                        'tvr': q(itp._tvr[0]), 'tvm': q(itp._tvm[0])})
    if ok:
        for qp in c['queries']:
            xq = np.array([float(fr(v)) for v in qp])
            if any(np.allclose(xq, xi) for xi in x):
                continue
            try:
                jac = np.array(s.linearize(xq.copy()), dtype=float).reshape(y.shape[1], n)
            except Exception as e:   # noqa
                ok, msg = False, 'NearestNeighbor(%s).linearize raised %s: %s (%d input(s), %d output(s), query %s)' % (
                    typ, type(e).__name__, str(e)[:120], n, y.shape[1], xq.tolist())
                break
            d, good = smooth_fd(lambda z: s.predict(z), xq, 1e-5, yr)
            if np.any(np.abs(d - jac)[good] > 1e-3 * max(yr, float(np.max(np.abs(d))))):
                ok, msg = False, 'NearestNeighbor(%s) linearize at %s is %r, difference quotient of predict %r' % (
                    typ, xq.tolist(), jac.tolist(), d.tolist())
                break
    return {'res': res, 'aux': aux, 'ok': ok, 'msg': msg, 'sig': 'nn-' + typ, 'kind': 'nn/%s/%dD' % (typ, n)}


def handle_krig_cache(c):
    """training_cache histories: train once (the cache file is written), then train a second surrogate
    against the same cache file with (same x, other y) / (other x) / (same x, same y).  After training, the
    surrogate must return ITS training outputs at its training inputs -- i.e. behave like a surrogate trained
    on the same data without a cache."""
    import os
    x1, y1, x2, y2 = arr(c['x']), arr(c['y']), arr(c['x2']), arr(c['y2'])
    n = x1.shape[1]
    fn = 'krig_cache_%d.npz' % os.getpid()
    if os.path.exists(fn):
        os.remove(fn)
    import io
    import contextlib
    ok, msg = True, ''
    try:
        with contextlib.redirect_stdout(io.StringIO()):
            a = KrigingSurrogate(nugget=0., training_cache=fn)
            a.train(x1, y1)
            b = KrigingSurrogate(nugget=0., training_cache=fn)
            b.train(x2, y2)
            ref = KrigingSurrogate(nugget=0.)
            ref.train(x2, y2)
        yr = max(1.0, float(np.max(y2) - np.min(y2)))
        for i in range(len(x2)):
            pb = np.ravel(b.predict(x2[i].copy()))
            pr = np.ravel(ref.predict(x2[i].copy()))
            if np.max(np.abs(pb - pr)) > 1e-6 * yr:
                ok = False
                msg = ('Kriging(nugget=0, training_cache) trained on (x2, y2) after the cache was written for '
                       '(x1, y1) [%s]: at training input %s it returns %r; training output %r, a surrogate trained '
                       'without cache returns %r' % (c['scenario'], x2[i].tolist(), pb.tolist(), y2[i].tolist(), pr.tolist()))
                break
    finally:
        if os.path.exists(fn):
            os.remove(fn)
    return {'res': '__none__', 'ok': ok, 'msg': msg, 'sig': 'kriging-training-cache/' + c['scenario'],
            'kind': 'krigcache/%s/%dD' % (c['scenario'], n)}


def handle_krig(c):
    x, y = arr(c['x']), arr(c['y'])
    n = x.shape[1]
    s = KrigingSurrogate(nugget=0.)
    s.train(x, y)
    yr = max(1.0, float(np.max(y) - np.min(y)))
    ok, msg = True, ''
    # certificate of the read-back solve: R alpha = Y, and r(x_i) is the i-th row of R
    th = s.thetas
    D2 = np.square(s.X[:, None, :] - s.X[None, :, :])
    R = np.exp(-np.einsum('k,ijk->ij', th, D2))
    resid = float(np.max(np.abs(R @ s.alpha - s.Y)))
    condR = float(np.linalg.cond(R))
    sig = 'kriging'
    certified = resid <= 1e-6 * max(1.0, float(np.max(np.abs(s.Y))))
    # (the residual only certifies the premise R alpha = Y of theorem C28_kriging_interpolates for this
    #  case; Kriging's regularised SVD solve need not meet it on ill-conditioned training sets.  The
    #  property itself is the direct test below: training outputs are returned at training inputs.)
    for i in range(len(x)):
        if not ok:
            break
        p = np.ravel(s.predict(x[i].copy()))
        if np.max(np.abs(p - y[i])) > 1e-5 * yr:
            ok, msg = False, 'Kriging(nugget=0) at training input %s returns %r, training output %r (cond(R) = %.3g)' % (
                x[i].tolist(), p.tolist(), y[i].tolist(), condR)
            # Kriging solves R alpha = Y by an SVD with Tikhonov damping h = 1e-8*S[0] ("significantly more
            # robust"): when the likelihood-optimal thetas make R ill-conditioned the surrogate does not
            # interpolate.  Recorded as a known finding only in that regime; elsewhere it is a new violation.
            sig = 'kriging-tikhonov-ill-conditioned' if condR > 1e5 else 'kriging'
    if ok:
        for qp in c['queries']:
            xq = np.array([float(fr(v)) for v in qp])
            jac = np.array(s.linearize(xq.copy()), dtype=float).reshape(y.shape[1], n)
            d = fd_grad(lambda z: s.predict(z), xq, 1e-5)
            if np.max(np.abs(d - jac)) > 1e-4 * max(yr, float(np.max(np.abs(d)))):
                ok, msg = False, 'Kriging linearize at %s is %r, difference quotient of predict %r' % (
                    xq.tolist(), jac.tolist(), d.tolist())
                break
    return {'res': '__none__', 'ok': ok, 'msg': msg, 'sig': sig, 'kind': 'krig/%dD%s' % (n, '' if certified else '/solve-not-certified')}


def make_surrogate(name):
    if name == 'rs':
        return ResponseSurface()
    if name == 'krig':
        return KrigingSurrogate(nugget=0.)
    return NearestNeighbor(interpolant_type=name)


def handle_mm(c):
    x, y = arr(c['x']), arr(c['y'])
    n = x.shape[1]
    s = make_surrogate(c['surrogate'])
    s.train(x, y[:, :1])
    mm = om.MetaModelUnStructuredComp()
    for i in range(n):
        mm.add_input('x%d' % i, 0., training_data=x[:, i])
    mm.add_output('f', 0., training_data=y[:, 0], surrogate=make_surrogate(c['surrogate']))
    prob = om.Problem()
    prob.model.add_subsystem('mm', mm, promotes=['*'])
    prob.setup()
    ok, msg = True, ''
    for qp in c['queries']:
        xq = np.array([float(fr(v)) for v in qp])
        for i in range(n):
            prob.set_val('x%d' % i, xq[i])
        prob.run_model()
        out = float(np.ravel(prob.get_val('f'))[0])
        J = np.array(prob.compute_totals(of=['f'], wrt=['x%d' % i for i in range(n)], return_format='array')).ravel()
        p = float(np.ravel(s.predict(xq.copy()))[0])
        jac = np.array(s.linearize(xq.copy()), dtype=float).ravel()
        sc = max(1.0, abs(p), float(np.max(np.abs(jac))))
        if abs(out - p) > 1e-9 * sc:
            ok, msg = False, 'MetaModelUnStructuredComp(%s) output %r at %s, surrogate predict %r' % (c['surrogate'], out, xq.tolist(), p)
            break
        if np.max(np.abs(J - jac)) > 1e-9 * sc:
            ok, msg = False, 'MetaModelUnStructuredComp(%s) partials %r at %s, surrogate linearize %r' % (
                c['surrogate'], J.tolist(), xq.tolist(), jac.tolist())
            break
    return {'res': '__none__', 'ok': ok, 'msg': msg, 'sig': 'metamodel', 'kind': 'mm/%s/%dD' % (c['surrogate'], n)}


def handle(c):
    return {'rs': handle_rs, 'nn': handle_nn, 'krig': handle_krig, 'krigcache': handle_krig_cache,
            'mm': handle_mm}[c['kind']](c)


if __name__ == '__main__':
    main(handle)
