"""C28 -- surrogate models reproduce training data and their own derivatives."""
import json
import random
from fractions import Fraction as Fr

import core
from core import Spec, qlit


def pj(x):
    x = Fr(x)
    return [x.numerator, x.denominator]


def fj(p):
    return Fr(p[0], p[1])


def points(rng, m, n, den=4, span=4):
    seen, out = set(), []
    while len(out) < m:
        p = tuple(Fr(rng.randrange(-span * den, span * den + 1), den) for _ in range(n))
        if p not in seen:
            seen.add(p)
            out.append(list(p))
    return out


def gen_rs(rng):
    n = rng.choice([1, 2, 2, 3])
    nterms = (n + 1) * (n + 2) // 2
    m = nterms + rng.choice([0, 1, 2, 4, 8]) if rng.random() < 0.85 else max(2, nterms - rng.randrange(1, 3))
    x = points(rng, m, n)
    c = {'kind': 'rs', 'x': [[pj(v) for v in r] for r in x],
         'queries': [[pj(Fr(rng.randrange(-40, 41), 8)) for _ in range(n)] for _ in range(2)]}
    if rng.random() < 0.6:
        c['coefs'] = [pj(rng.choice([-3, -2, -1, 0, 1, 2, 3, Fr(1, 2)])) for _ in range(nterms)]
    else:
        c['y'] = [pj(Fr(rng.randrange(-40, 41), 4)) for _ in range(m)]
    return c


def gen_nn(rng, typ, family=None, n=None):
    n = n or rng.choice([1, 2, 2, 3])
    m = rng.randrange(6, 13) if n < 4 else rng.randrange(9, 14)
    x = points(rng, m, n)
    ny = rng.choice([1, 1, 2])
    y = [[Fr(rng.randrange(-40, 41), 4) for _ in range(ny)] for _ in range(m)]
    qs = [x[rng.randrange(m)] for _ in range(2)] + \
         [[Fr(rng.randrange(-130, 131), 32) for _ in range(n)] for _ in range(2)]
    return {'kind': 'nn', 'type': typ, 'family': family, 'x': [[pj(v) for v in r] for r in x],
            'y': [[pj(v) for v in r] for r in y], 'queries': [[pj(v) for v in p] for p in qs]}


def gen_krig_cache(rng, scenario):
    c = gen_krig(rng)
    c['kind'], c['scenario'] = 'krigcache', scenario
    d = gen_krig(rng) if scenario == 'other-x' else c
    while scenario == 'other-x' and (len(d['x'][0]) != len(c['x'][0])):
        d = gen_krig(rng)
    c['x2'] = d['x']
    if scenario == 'same-x-other-y':
        c['y2'] = [[pj(fj(v) * 2 + Fr(rng.randrange(-12, 13), 4)) for v in r] for r in c['y']]
    else:
        c['y2'] = d['y']
    return c


def gen_krig(rng):
    n = rng.choice([1, 1, 2])
    m = rng.randrange(4, 10)
    x = points(rng, m, n, den=2, span=4)
    a, b, c0 = rng.randrange(-3, 4), rng.randrange(-3, 4), rng.randrange(-2, 3)
    y = [[Fr(a) * p[0] + Fr(b) * p[-1] * p[-1] / 4 + c0 + Fr(rng.randrange(-8, 9), 8)] for p in x]
    qs = [[Fr(rng.randrange(-130, 131), 32) for _ in range(n)] for _ in range(2)]
    return {'kind': 'krig', 'x': [[pj(v) for v in r] for r in x], 'y': [[pj(v) for v in r] for r in y],
            'queries': [[pj(v) for v in p] for p in qs]}


def gen_mm(rng, sur):
    c = gen_krig(rng) if sur == 'krig' else gen_nn(rng, 'weighted')
    c = dict(c, kind='mm', surrogate=sur)
    c.pop('type', None)
    if sur == 'rs':
        n = len(c['x'][0])
        nterms = (n + 1) * (n + 2) // 2
        while len(c['x']) < nterms + 2:
            c = dict(gen_nn(rng, 'weighted'), kind='mm', surrogate=sur)
            c.pop('type', None)
    return c


def ql(ps):
    return '[%s]' % '; '.join(qlit(fj(p['q'] if isinstance(p, dict) else p)) for p in ps)


class C28(Spec):
    pid = 'C28'
    imports = ['C28.Model']
    impl_script = 'props/C28/impl.py'
    impl_jobs = 4
    rule = ('random training sets (dimension 1-3, size from under-determined to over-determined, dyadic coordinates, '
            'distinct points), quadratic and random responses; ResponseSurface, NearestNeighbor linear/weighted/rbf, '
            '(rbf: every rbf_family -3..4 x 1,2,3,4,6 inputs), Kriging with zero nugget incl. training_cache histories '
            '(second training against the cache of the first: same x / other y, other x, same both), '
            'MetaModelUnStructuredComp with each of them; queries at training inputs and '
            'at random points; every case distinct')

    def gen(self, tier, rng):
        k = 1 if tier == 'quick' else 10
        cases = [gen_rs(rng) for _ in range(500 * k)]
        for typ in ('weighted', 'linear', 'rbf'):
            cases += [gen_nn(rng, typ) for _ in range((300 if typ == 'weighted' else 100) * k)]
        # every rbf_family x every dimension class of the Wendland tables (dims = n+1 <= 2, <= 4, <= 6, > 6)
        for fam in (-3, -2, -1, 0, 1, 2, 3, 4):
            for n in (1, 1, 2, 3, 4, 6):
                cases += [gen_nn(rng, 'rbf', fam, n) for _ in range(2 * k)]
        cases += [gen_krig(rng) for _ in range(80 * k)]
        for sc in ('same-x-other-y', 'other-x', 'same-x-same-y'):
            cases += [gen_krig_cache(rng, sc) for _ in range((10 if sc == 'same-x-other-y' else 5) * k)]
        for sur in ('rs', 'weighted', 'linear', 'rbf', 'krig'):
            cases += [gen_mm(rng, sur) for _ in range((25 if sur != 'krig' else 12) * k)]
        return cases

    def search_gen(self, tier, rng):
        return self.gen('quick', rng)

    def got(self, c, r):
        if c['kind'] == 'rs':
            b = ql(r['aux']['betas'])
            return '(VL [%s])' % '; '.join('run_rs %s %s' % (b, ql(qp)) for qp in c['queries'])
        p = len(c['x'][0]) + 1
        return '(VL [%s])' % '; '.join(
            'run_nnw %d%%positive %s %s %s %s' % (p, ql(a['ds']), ql(a['vs']), qlit(fj(a['tvr']['q'])), qlit(fj(a['tvm']['q'])))
            for a in r['aux'])


def main(tier):
    spec = C28()
    seed = core.seed_from_env()
    rng = random.Random(seed * 1000003 + sum(map(ord, spec.pid)))
    wd = core.workdir(spec.pid, tier)
    v = core.Verdict(spec.pid, tier, seed)
    v.cov['rule'] = spec.rule
    v.assumptions = ['LAPACK (lstsq, svd), the KD-tree neighbour query, exp() and the Kriging hyper-parameter optimiser '
                     'are oracles: betas / neighbour distances and values are read back from the real code and fed to '
                     'the model; the Kriging solve is certified per case by its residual |R alpha - Y| <= 1e-6',
                     'tolerances: model comparison 1e-9 relative; reproduction of quadratics 1e-7; training outputs 1e-7 '
                     '(nearest neighbour) / 1e-5 (Kriging, whose SVD solve is regularised with h = 1e-8*S0); '
                     'linearize vs difference quotients 1e-7 (ResponseSurface, exact for quadratics), 1e-4 / 1e-3 otherwise']
    gate = core.proof_gate(spec.pid, wd)
    v.add_proof(gate)
    cases = core.load_corpus(spec.pid) + list(spec.gen(tier, rng))
    results, log = core.run_impl(spec.impl_script, cases, wd, jobs=spec.impl_jobs)
    if results is None:
        v.broke('correspondence:implementation-run-failed')
        v.cov['broken_detail'] = log[-3000:]
        return v.finish()
    core._oracle_pass(spec, v, cases, results, wd)
    idx = [i for i in range(len(cases)) if results[i].get('res', '__none__') != '__none__' and results[i].get('aux') is not None]
    got = [spec.got(cases[i], results[i]) for i in idx]
    want = [core.to_val(results[i]['res']) for i in idx]
    bad, errors, cmd = core.coq_mismatches(wd, spec.imports, got, want, shard=150, tol=Fr(1, 10 ** 9))
    v.add_correspondence('model-vs-implementation (read-back betas / neighbours)', len(idx), len(bad), 'E4 rel 1e-9', cmd)
    bad_cases = []
    if errors:
        v.broke('correspondence:model-evaluation-failed')
        v.cov['broken_detail'] = json.dumps(errors[:2])[-3000:]
    if bad:
        v.broke('correspondence:model-vs-implementation (%d of %d cases differ)' % (len(bad), len(idx)))
        show = [idx[b] for b in bad[:3]]
        bad_cases = [cases[idx[b]] for b in bad[:100]]
        v.cov['broken_detail'] = json.dumps(
            {'first_mismatching_cases': [cases[i] for i in show],
             'implementation': [results[i].get('res') for i in show],
             'model': core.coq_show(wd, spec.imports, [spec.got(cases[i], results[i]) for i in show])})[-6000:]
    if v.broken and not v.violations:
        rng2 = random.Random(seed + 77)
        extra = bad_cases + list(spec.search_gen(tier, rng2))
        res2, _ = core.run_impl(spec.impl_script, extra, wd, tag='search', jobs=spec.impl_jobs)
        if res2 is not None:
            core._oracle_pass(spec, v, extra, res2, wd)
    return v.finish()


def replay(rep):
    case = rep.get('case')
    wd = core.workdir('C28', 'replay')
    res, log = core.run_impl('props/C28/impl.py', [case], wd, jobs=1)
    print(json.dumps({'case': case, 'result': res, 'log': log[-500:]}, indent=1)[:4000])
    return 0 if res and res[0].get('ok') else 1
