"""C22 implementation side: the real Driver.get_constraint_values(viol=True), Driver._compute_con_viol
and Problem.find_feasible of /repo on generated problems; the oracle is the property statement
evaluated with exact rational arithmetic on the case data (per element: signed distance outside the
bounds / from the equality value, times the constraint's scaling factor when driver scaling is on)."""
import io
import contextlib
import warnings
from fractions import Fraction as F

import numpy as np
from implutil import main, q

warnings.simplefilter('ignore')
import openmdao.api as om  # noqa: E402

INF = F(1.0e30)


def fr(p):
    return F(int(p[0]), int(p[1]))


def bnd(b, n):
    """case bound -> list of n Fractions (None stays None)"""
    if b is None:
        return None
    if 's' in b:
        return [fr(b['s'])] * n
    v = [fr(e) for e in b['a']]
    assert len(v) == n
    return v


def pyb(b):
    """case bound -> what the user passes to add_constraint"""
    if b is None:
        return None
    if 's' in b:
        return float(fr(b['s']))
    return np.array([float(fr(e)) for e in b['a']])


def con_size(c):
    return c['n'] if c['idx'] is None else len(c['idx'])


def build(case):
    p = om.Problem()
    m = p.model
    nx = case['nx']
    m.add_subsystem('ivc', om.IndepVarComp('x', np.zeros(nx)), promotes=['*'])
    for k, o in enumerate(case['outs']):
        n = o['n']
        ymeta = {'val': np.zeros(n)}
        if o['units']:
            ymeta['units'] = o['units']
        m.add_subsystem('c%d' % k, om.ExecComp('y = %r * x' % float(fr(o['coef'])), x=np.zeros(n), y=ymeta))
        m.connect('x', 'c%d.x' % k, src_indices=list(range(o['off'], o['off'] + n)))
    dv = case['dv']
    m.add_design_var('x', adder=float(fr(dv['adder'])), scaler=float(fr(dv['scaler'])))
    m.add_objective('x', index=0)
    names = []
    for j, c in enumerate(case['cons']):
        kw = {}
        for key in ('lower', 'upper', 'equals'):
            if c[key] is not None:
                kw[key] = pyb(c[key])
        sc = c['scaling']
        if sc['t'] == 'as':
            for key in ('adder', 'scaler'):
                if sc[key] is not None:
                    kw[key] = pyb(sc[key])
        elif sc['t'] == 'ref':
            for key in ('ref0', 'ref'):
                if sc[key] is not None:
                    kw[key] = pyb(sc[key])
        if c['idx'] is not None:
            kw['indices'] = list(c['idx'])
        if c['cunits']:
            kw['units'] = c['cunits']
        if c['linear']:
            kw['linear'] = True
        if c['alias']:
            kw['alias'] = c['alias']
            names.append(c['alias'])
        else:
            names.append('c%d.y' % c['out'])
        m.add_constraint('c%d.y' % c['out'], **kw)
    if case.get('scipy'):
        p.driver = om.ScipyOptimizeDriver(optimizer='SLSQP')
    p.setup()
    p.final_setup()
    return p, names


def total_scaler(c):
    """the constraint's scaling factor per element, from the user's arguments"""
    n = con_size(c)
    sc = c['scaling']
    if sc['t'] == 'none':
        return [F(1)] * n
    if sc['t'] == 'as':
        return bnd(sc['scaler'], n) or [F(1)] * n
    r0 = bnd(sc['ref0'], n) or [F(0)] * n
    r = bnd(sc['ref'], n) or [F(1)] * n
    return [1 / (a - b) for a, b in zip(r, r0)]


def con_values(case, c, x):
    """constraint value in the constraint's (driver) units from the model-space design vector"""
    o = case['outs'][c['out']]
    y = [fr(o['coef']) * x[o['off'] + i] for i in range(o['n'])]
    if c['idx'] is not None:
        y = [y[i] for i in c['idx']]
    return [v * F(c['factor']) for v in y]


def expected_viol(case, c, x, ds):
    n = con_size(c)
    cv = con_values(case, c, x)
    eq, lo, hi = bnd(c['equals'], n), bnd(c['lower'], n), bnd(c['upper'], n)
    out = []
    for j in range(n):
        if eq is not None:
            v = cv[j] - eq[j]
        else:
            l = lo[j] if lo is not None else -INF
            h = hi[j] if hi is not None else INF
            if cv[j] < l:
                v = cv[j] - l
            elif cv[j] > h:
                v = cv[j] - h
            else:
                v = F(0)
        out.append(v)
    if ds:
        s = total_scaler(c)
        out = [v * s[j] for j, v in enumerate(out)]
    return out


def sel(c, lintype, ctype):
    if lintype == 1 and not c['linear']:
        return False
    if lintype == 2 and c['linear']:
        return False
    if ctype == 1 and c['equals'] is None:
        return False
    if ctype == 2 and c['equals'] is not None:
        return False
    return True


LIN = {0: 'all', 1: 'linear', 2: 'nonlinear'}
CT = {0: 'all', 1: 'eq', 2: 'ineq'}


def fq(v):
    return [q(float(e)) for e in np.asarray(v).ravel()]


def eqv(got, exp):
    return len(got) == len(exp) and all(F(float(g)) == e for g, e in zip(got, exp))


def has_array_bounds(case):
    return any(c[k] is not None and 'a' in c[k] for c in case['cons'] for k in ('lower', 'upper'))


def handle_viol(case):
    p, names = build(case)
    drv = p.driver
    res, fails = [], []
    for xi, xq in enumerate(case['xs']):
        x = [fr(e) for e in xq]
        p.set_val('x', np.array([float(e) for e in x]))
        p.run_model()
        row = []
        for call in case['calls']:
            ds = bool(call['ds'])
            if call['api'] == 'gcv':
                chosen = [(nm, c) for nm, c in zip(names, case['cons']) if sel(c, call['lintype'], call['ctype'])]
                exp = [expected_viol(case, c, x, ds) for _, c in chosen]
                try:
                    d = drv.get_constraint_values(ctype=CT[call['ctype']], lintype=LIN[call['lintype']],
                                                  driver_scaling=ds, viol=True)
                except Exception as e:   # noqa
                    row.append({'e': 1})
                    fails.append(('raises', 'x=%s get_constraint_values(viol=True, driver_scaling=%s) raised %s: %s' % (
                        [str(v) for v in x], ds, type(e).__name__, str(e)[:120]), ds))
                    continue
                if list(d.keys()) != [nm for nm, _ in chosen]:
                    row.append({'e': 2})
                    fails.append(('names', 'returned names %s, expected %s' % (list(d.keys()), [nm for nm, _ in chosen]), ds))
                    continue
                row.append([fq(d[nm]) for nm, _ in chosen])
                for (nm, c), e in zip(chosen, exp):
                    if not eqv(d[nm], e):
                        fails.append(('value', 'x=%s get_constraint_values(viol=True, driver_scaling=%s)[%r] = %s, '
                                      'per-element signed distance%s is %s' % (
                                          [str(v) for v in x], ds, nm, np.asarray(d[nm]).tolist(),
                                          ' times the scaler' if ds else '', [str(v) for v in e]), ds))
                        break
            else:   # _compute_con_viol
                dv = case['dv']
                xnew = [(v + fr(dv['adder'])) * fr(dv['scaler']) for v in x]
                lin = [c for c in case['cons'] if c['linear']]
                nl = [c for c in case['cons'] if not c['linear']]
                exp = [e for c in lin + nl for e in expected_viol(case, c, x, ds)]
                drv._exc_info = None
                vec = drv._compute_con_viol(np.array([float(v) for v in xnew]), ['x'], driver_scaling=ds)
                raised = drv._exc_info is not None
                drv._exc_info = None
                row.append(fq(vec))
                if not eqv(vec, exp):
                    fails.append(('raises' if raised else 'value',
                                  'x=%s _compute_con_viol(driver_scaling=%s) = %s%s, per-element signed distance%s is %s' % (
                                      [str(v) for v in x], ds, np.asarray(vec).tolist(),
                                      ' (an exception was swallowed)' if raised else '',
                                      ' times the scaler' if ds else '', [str(v) for v in exp]), ds))
        res.append(row)
    ok = not fails
    sig, msg = '', ''
    if fails:
        kinds = {f[0] for f in fails}
        unscaled_bad = any(not f[2] for f in fails)
        if 'raises' in kinds and has_array_bounds(case):
            sig = 'C22:array-bounds-raise'
        elif not unscaled_bad:
            sig = 'C22:driver-scaling-wrong'
        else:
            sig = 'C22:violation-value'
        msg = fails[0][1]
    return {'res': res, 'ok': ok, 'msg': msg, 'sig': sig, 'kind': case.get('class', 'viol')}


def handle_ff(case):
    """Problem.find_feasible: when it reports success, the true violation of every element (computed
    independently from the model's outputs) must be within the tolerance implied by loss_tol."""
    p, names = build(case)
    x0 = [fr(e) for e in case['xs'][0]]
    p.set_val('x', np.array([float(e) for e in x0]))
    ds = bool(case['ds'])
    buf = io.StringIO()
    with contextlib.redirect_stdout(buf):
        failed = p.find_feasible(driver_scaling=ds, iprint=0)
    success = bool(p.driver.result.success) and not failed
    kind = 'ff:success' if success else 'ff:failed'
    if not success:
        return {'res': '__none__', 'ok': True, 'msg': '', 'sig': '', 'kind': kind}
    worst, where = 0.0, None
    for nm, c in zip(names, case['cons']):
        o = case['outs'][c['out']]
        y = np.asarray(p.get_val('c%d.y' % c['out'])).ravel()
        if c['idx'] is not None:
            y = y[list(c['idx'])]
        cv = y * float(c['factor'])
        n = con_size(c)
        eq, lo, hi = bnd(c['equals'], n), bnd(c['lower'], n), bnd(c['upper'], n)
        s = total_scaler(c) if ds else [F(1)] * n
        for j in range(n):
            if eq is not None:
                v = cv[j] - float(eq[j])
            else:
                l = float(lo[j]) if lo is not None else -1e30
                h = float(hi[j]) if hi is not None else 1e30
                v = cv[j] - l if cv[j] < l else (cv[j] - h if cv[j] > h else 0.0)
            v = abs(v * float(s[j]))
            if v > worst:
                worst, where = v, (nm, j, float(cv[j]))
    # success means 0.5 * sum(r^2) <= loss_tol = 1e-8 at the solution, hence every |r_j| <= sqrt(2e-8) < 1.5e-4
    # there; the model is left at the last point least_squares evaluated, which may be a trial point next
    # to the solution, so the check allows 1e-3 (a mis-measured violation is wrong by O(1) on this data)
    ok = bool(worst <= 1.0e-3)
    msg = '' if ok else ('find_feasible(driver_scaling=%s) reported success but constraint %r element %d = %r violates its '
                         'bounds by %g (in the units find_feasible minimises)' % (ds, where[0], where[1], where[2], worst))
    sig = '' if ok else ('C22:array-bounds-raise' if has_array_bounds(case) else 'C22:find-feasible-infeasible')
    return {'res': '__none__', 'ok': ok, 'msg': msg, 'sig': sig, 'kind': kind}


def handle(case):
    if case['kind'] == 'ff':
        return handle_ff(case)
    return handle_viol(case)


if __name__ == '__main__':
    main(handle)
