"""C22 — constraint violation is measured correctly elementwise and in driver units."""
import copy
from fractions import Fraction as F

import core
from core import Spec, standard_check, qlit, boollit, natlit

INF = F(1.0e30)
UNITS = [(None, None, 1), (None, None, 1), ('m', 'cm', 100), ('min', 's', 60), ('d', 'h', 24), ('km', 'm', 1000),
         ('m', None, 1)]
GRID = [F(-1), F(-1, 2), F(0), F(1, 2), F(1)]


def jq(fr):
    fr = F(fr)
    return [fr.numerator, fr.denominator]


def bs(v):
    return {'s': jq(v)}


def ba(vs):
    return {'a': [jq(v) for v in vs]}


def fr(p):
    return F(int(p[0]), int(p[1]))


# ----------------------------------------------------------------------------- Gallina emitters

def bterm(b):
    if 's' in b:
        return '(BS %s)' % qlit(fr(b['s']))
    return '(BA [%s])' % '; '.join(qlit(fr(e)) for e in b['a'])


def obterm(b):
    return 'None' if b is None else '(Some %s)' % bterm(b)


def scaling_term(sc):
    if sc['t'] == 'none':
        return 'ScNone'
    if sc['t'] == 'as':
        return '(ScAS %s %s)' % (obterm(sc['adder']), obterm(sc['scaler']))
    return '(ScRef %s %s)' % (obterm(sc['ref0']), obterm(sc['ref']))


def cspec_term(case, c):
    o = case['outs'][c['out']]
    idx = 'None' if c['idx'] is None else '(Some [%s])' % '; '.join(natlit(i) for i in c['idx'])
    return '(mkcspec %s %s %s %s %s %s %s %s %s %s)' % (
        natlit(o['off']), natlit(o['n']), qlit(fr(o['coef'])), idx, qlit(F(c['factor'])),
        obterm(c['lower']), obterm(c['upper']), obterm(c['equals']), scaling_term(c['scaling']),
        boollit(c['linear']))


def qvec(xs):
    return '[%s]' % '; '.join(qlit(v) for v in xs)


# ----------------------------------------------------------------------------- generator

def pow2(rng, lo=-2, hi=3, neg=0.3):
    v = F(2) ** rng.randrange(lo, hi + 1)
    return -v if rng.random() < neg else v


def rnd_scaling(rng, n):
    k = rng.random()
    if k < 0.2:
        return {'t': 'none'}
    arr = lambda f: ba([f() for _ in range(n)])   # noqa: E731
    dy = lambda: F(rng.randrange(-6, 7), 2)       # noqa: E731
    if k < 0.6:
        sc = {'t': 'as', 'adder': None, 'scaler': None}
        m = rng.random()
        if m < 0.85:
            sc['scaler'] = arr(lambda: pow2(rng)) if rng.random() < 0.4 else bs(pow2(rng))
        if rng.random() < 0.6:
            sc['adder'] = arr(dy) if rng.random() < 0.4 else bs(dy())
        return sc
    # ref / ref0 with ref - ref0 = +-2^j per element (so that 1/(ref - ref0) is exact in binary64)
    form = rng.choice(['ss', 'aa', 'ns', 'na', 'sn', 'an', 'as', 'sa'])
    d = [pow2(rng, -3, 2) for _ in range(n)]
    if form[0] != 'a' and form[1] != 'a':
        d = [d[0]] * n
    if form == 'ss':
        r0 = dy()
        return {'t': 'ref', 'ref0': bs(r0), 'ref': bs(r0 + d[0])}
    if form == 'aa':
        r0 = [dy() for _ in range(n)]
        return {'t': 'ref', 'ref0': ba(r0), 'ref': ba([a + b for a, b in zip(r0, d)])}
    if form == 'ns':
        return {'t': 'ref', 'ref0': None, 'ref': bs(d[0])}
    if form == 'na':
        return {'t': 'ref', 'ref0': None, 'ref': ba(d)}
    if form == 'sn':
        return {'t': 'ref', 'ref0': bs(1 - d[0]), 'ref': None}
    if form == 'an':
        return {'t': 'ref', 'ref0': ba([1 - e for e in d]), 'ref': None}
    if form == 'as':
        r = dy()
        return {'t': 'ref', 'ref0': ba([r - e for e in d]), 'ref': bs(r)}
    r0 = dy()
    return {'t': 'ref', 'ref0': bs(r0), 'ref': ba([r0 + e for e in d])}


def rnd_bounds(rng, n, factor):
    """(lower, upper, equals) in the constraint's units; per-element patterns when arrays"""
    val = lambda: F(rng.randrange(-6, 7), 2) * factor   # noqa: E731
    k = rng.random()
    if k < 0.2:
        return None, None, (ba([val() for _ in range(n)]) if rng.random() < 0.5 else bs(val()))
    def pair():   # noqa: E306
        a, b = sorted([val(), val()])
        m = rng.random()
        if m < 0.2:
            return a, INF
        if m < 0.4:
            return -INF, b
        if m < 0.5:
            return a, a
        return a, b
    form = rng.choice(['ss', 'ss', 'sn', 'ns', 'aa', 'aa', 'aa', 'an', 'na', 'as', 'sa'])
    prs = [pair() for _ in range(n)]
    if form == 'ss':
        a, b = sorted([val(), val()])
        return bs(a), bs(b), None
    if form == 'sn':
        return bs(val()), None, None
    if form == 'ns':
        return None, bs(val()), None
    if form == 'aa':
        return ba([p[0] for p in prs]), ba([p[1] for p in prs]), None
    if form == 'an':
        return ba([p[0] for p in prs]), None, None
    if form == 'na':
        return None, ba([p[1] for p in prs]), None
    if form == 'as':
        los = [p[0] for p in prs]
        hi = max([v for v in los if v > -INF] + [val()])
        return ba(los), bs(hi), None
    his = [p[1] for p in prs]
    lo = min([v for v in his if v < INF] + [val()])
    return bs(lo), ba(his), None


CALLS_STD = [{'api': 'gcv', 'lintype': 0, 'ctype': 0, 'ds': False}, {'api': 'gcv', 'lintype': 0, 'ctype': 0, 'ds': True},
             {'api': 'ccv', 'ds': False}, {'api': 'ccv', 'ds': True}]


def rnd_case(rng, kind='viol'):
    nx = 6
    nouts = rng.choice([1, 1, 2, 3])
    outs, cons = [], []
    for k in range(nouts):
        n = rng.randrange(1, 5)
        off = rng.randrange(0, nx - n + 1)
        su, cu, fac = rng.choice(UNITS)
        outs.append({'off': off, 'n': n, 'coef': jq(rng.choice([F(1), F(2), F(-1), F(1, 2), F(3), F(-2)])), 'units': su})
        parts = []
        m = rng.random()
        if m < 0.55 or n == 1:
            parts.append(None)
        elif m < 0.8:
            ix = rng.sample(range(n), rng.randrange(1, n + 1))
            parts.append(ix)
        else:
            perm = rng.sample(range(n), n)
            cut = rng.randrange(1, n)
            parts += [perm[:cut], perm[cut:]]
        for pi, ix in enumerate(parts):
            size = n if ix is None else len(ix)
            lo, hi, eq = rnd_bounds(rng, size, fac)
            cons.append({'out': k, 'n': n, 'idx': ix, 'cunits': cu, 'factor': fac, 'lower': lo, 'upper': hi, 'equals': eq,
                         'scaling': rnd_scaling(rng, size), 'linear': rng.random() < 0.3,
                         'alias': ('al%d_%d' % (k, pi)) if pi > 0 else None})
    rng.shuffle(cons)
    dv = {'adder': jq(F(rng.randrange(-4, 5), 2)) if rng.random() < 0.5 else jq(0),
          'scaler': jq(pow2(rng, -1, 2)) if rng.random() < 0.5 else jq(1)}
    case = {'kind': kind, 'class': 'random', 'nx': nx, 'outs': outs, 'cons': cons, 'dv': dv,
            'scipy': any(c['linear'] for c in cons) or rng.random() < 0.3}
    if kind == 'ff':
        case['class'] = 'ff'
        case['ds'] = rng.random() < 0.5
        case['xs'] = [[jq(F(rng.randrange(-16, 17), 4)) for _ in range(nx)]]
        return case
    case['xs'] = [[jq(F(rng.randrange(-16, 17), 4)) for _ in range(nx)] for _ in range(3)]
    extra = {'api': 'gcv', 'lintype': rng.randrange(0, 3), 'ctype': rng.randrange(0, 3), 'ds': rng.random() < 0.5}
    case['calls'] = CALLS_STD + [extra]
    return case


def bound_pairs():
    vals = [None] + GRID
    out = []
    for lo in vals:
        for hi in vals:
            if lo is None or hi is None or lo <= hi:
                out.append((lo, hi))
    return out     # 26 patterns


SCALINGS_EXH = [
    {'t': 'none'},
    {'t': 'as', 'adder': None, 'scaler': bs(2)},
    {'t': 'as', 'adder': bs(F(3, 2)), 'scaler': bs(F(-1, 2))},
    {'t': 'as', 'adder': bs(-1), 'scaler': None},
    {'t': 'ref', 'ref0': bs(1), 'ref': bs(3)},
    {'t': 'ref', 'ref0': bs(F(1, 2)), 'ref': bs(F(1, 4))},
    {'t': 'ref', 'ref0': None, 'ref': bs(4)},
]


def exhaustive_cases():
    """every (lower, upper) pattern over the grid x every value of the grid (and just outside), as
    per-element array bounds and as scalar bounds, x the scaling forms"""
    cs = []
    prs = bound_pairs()
    n = len(prs)
    cvals = [F(-3, 2)] + GRID + [F(3, 2)]
    xs = [[jq(cvals[(j + s) % len(cvals)]) for j in range(n)] for s in range(len(cvals))]
    for si, sc in enumerate(SCALINGS_EXH + ['arr']):
        if sc == 'arr':
            sc = {'t': 'as', 'adder': ba([F(j % 5 - 2, 2) for j in range(n)]),
                  'scaler': ba([F(2) ** (j % 4 - 1) * (-1 if j % 3 == 0 else 1) for j in range(n)])}
        lo = ba([-INF if p[0] is None else p[0] for p in prs])
        hi = ba([INF if p[1] is None else p[1] for p in prs])
        cs.append({'kind': 'viol', 'class': 'exh-array', 'nx': n, 'dv': {'adder': jq(0), 'scaler': jq(1)},
                   'outs': [{'off': 0, 'n': n, 'coef': jq(1), 'units': None}],
                   'cons': [{'out': 0, 'n': n, 'idx': None, 'cunits': None, 'factor': 1, 'lower': lo, 'upper': hi,
                             'equals': None, 'scaling': sc, 'linear': False, 'alias': None}],
                   'scipy': False, 'xs': xs, 'calls': CALLS_STD})
    m = len(cvals)
    xs1 = [[jq(v) for v in cvals]]
    for si, sc in enumerate(SCALINGS_EXH):
        for (lo, hi) in prs:
            if lo is None and hi is None:
                continue
            cs.append({'kind': 'viol', 'class': 'exh-scalar', 'nx': m, 'dv': {'adder': jq(0), 'scaler': jq(1)},
                       'outs': [{'off': 0, 'n': m, 'coef': jq(1), 'units': None}],
                       'cons': [{'out': 0, 'n': m, 'idx': None, 'cunits': None, 'factor': 1,
                                 'lower': None if lo is None else bs(lo), 'upper': None if hi is None else bs(hi),
                                 'equals': None, 'scaling': sc, 'linear': False, 'alias': None}],
                       'scipy': False, 'xs': xs1, 'calls': CALLS_STD})
        for e in GRID:
            for arr in (False, True):
                eq = ba([e + F(j, 2) for j in range(m)]) if arr else bs(e)
                cs.append({'kind': 'viol', 'class': 'exh-equals', 'nx': m, 'dv': {'adder': jq(0), 'scaler': jq(1)},
                           'outs': [{'off': 0, 'n': m, 'coef': jq(1), 'units': None}],
                           'cons': [{'out': 0, 'n': m, 'idx': None, 'cunits': None, 'factor': 1, 'lower': None, 'upper': None,
                                     'equals': eq, 'scaling': sc, 'linear': False, 'alias': None}],
                           'scipy': False, 'xs': xs1, 'calls': CALLS_STD})
    return cs


def restrict(c, keep):
    """the single-output, single-constraint case c restricted to the elements in keep"""
    d = copy.deepcopy(c)
    o, con = d['outs'][0], d['cons'][0]
    off, n = o['off'], o['n']

    def sub(b):
        if b is None or 's' in b:
            return b
        return {'a': [b['a'][j] for j in keep]}
    for key in ('lower', 'upper', 'equals'):
        con[key] = sub(con[key])
    sc = con['scaling']
    for key in ('adder', 'scaler', 'ref0', 'ref'):
        if key in sc:
            sc[key] = sub(sc[key])
    d['xs'] = [[x[off + j] for j in keep] for x in d['xs']]
    o['off'], o['n'], con['n'], d['nx'] = 0, len(keep), len(keep), len(keep)
    return d


class C22(Spec):
    pid = 'C22'
    imports = ['C22.Model']
    impl_script = 'props/C22/impl.py'
    exactness = ('E3 (dyadic-exact): every element of every violation vector, as an exact rational, through '
                 'Driver.get_constraint_values(viol=True) and Driver._compute_con_viol')
    shard = 60
    impl_jobs = 4
    rule = ('exhaustive: all (lower, upper) patterns over {absent,-1,-1/2,0,1/2,1} with lower <= upper x constraint '
            'values {-3/2..3/2 step 1/2}, as per-element array bounds (one 26-element constraint) and as scalar bounds, '
            'and equality (scalar/array), x 7-8 scaling forms x driver_scaling on/off; random: problems with 1-3 outputs, '
            '1-5 constraints (indices, aliases, linear flag, units m->cm, min->s, d->h, km->m), scalar/array one- and '
            'two-sided bounds, scaler/adder/ref/ref0 scalar and array (scalers +-2^j), design-variable scaling, '
            '3 design points each, 5 API calls per point (ctype/lintype filters); find_feasible runs on random problems. '
            'One case = one problem; a case is non-trivial when distinct.')
    assumptions = ['float arithmetic is exact on the generated dyadic data (class E3); rounding is not modelled',
                   'the constraint value itself (ExecComp y = coef*x, connections, unit conversion) is taken from the real model; '
                   'the Coq evaluator recomputes it from the design vector']

    def gen(self, tier, rng):
        cases = exhaustive_cases()
        nrand = 400 if tier == 'quick' else 6000
        for _ in range(nrand):
            cases.append(rnd_case(rng))
        for _ in range(40 if tier == "quick" else 600):
            cases.append(rnd_case(rng, 'ff'))
        return cases

    def search_gen(self, tier, rng):
        return [rnd_case(rng) for _ in range(1500)]

    def got_term(self, c):
        cs = '[%s]' % ';\n   '.join(cspec_term(c, k) for k in c['cons'])
        dv_a, dv_s = fr(c['dv']['adder']), fr(c['dv']['scaler'])
        rows = []
        for xq in c['xs']:
            x = [fr(e) for e in xq]
            xnew = [(v + dv_a) * dv_s for v in x]
            items = []
            for call in c['calls']:
                if call['api'] == 'gcv':
                    items.append('get_constraint_viol cs (%d) (%d) %s x' % (call['lintype'], call['ctype'], boollit(call['ds'])))
                else:
                    items.append('compute_con_viol cs %s %s %s %s' % (boollit(call['ds']), qlit(dv_a), qlit(dv_s), qvec(xnew)))
            rows.append('(let x := %s in VL [%s])' % (qvec(x), '; '.join(items)))
        return '(let cs := %s in\n  VL [%s])' % (cs, ';\n  '.join(rows))

    def shrink(self, c):
        if c['kind'] != 'viol':
            return
        if len(c['xs']) > 1:
            for x in c['xs']:
                yield dict(c, xs=[x])
        if len(c['calls']) > 1:
            for call in c['calls']:
                yield dict(c, calls=[call])
        if len(c['cons']) > 1:
            for k in range(len(c['cons'])):
                d = copy.deepcopy(c)
                del d['cons'][k]
                d['scipy'] = True
                yield d
        if len(c['cons']) == 1 and len(c['outs']) == 1 and c['cons'][0]['idx'] is None and c['outs'][0]['n'] > 1:
            n = c['outs'][0]['n']
            keeps = [list(range(0, n // 2)), list(range(n // 2, n))]
            if n <= 8:
                keeps += [[j for j in range(n) if j != k] for k in range(n)]
            for keep in keeps:
                yield restrict(c, keep)
        for k, con in enumerate(c['cons']):
            if con['scaling']['t'] != 'none':
                d = copy.deepcopy(c)
                d['cons'][k]['scaling'] = {'t': 'none'}
                yield d


def main(tier):
    return standard_check(C22(), tier)
