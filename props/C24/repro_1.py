"""C24/C01 finding 1: relevance drops the residual rows of an implicit component's state that feeds no response."""
import numpy as np, openmdao.api as om

class TwoStates(om.ImplicitComponent):
    # R0 = 2*y0 + y1 - x ;  R1 = y0 - y1 + 3*x      =>  dy0/dx = -2/3, dy1/dx = 7/3
    def setup(self):
        self.add_input('x', 1.0); self.add_output('y0', 1.0); self.add_output('y1', 1.0)
        self.declare_partials('y0', 'y0', val=2.0); self.declare_partials('y0', 'y1', val=1.0)
        self.declare_partials('y0', 'x', val=-1.0)
        self.declare_partials('y1', 'y0', val=1.0); self.declare_partials('y1', 'y1', val=-1.0)
        self.declare_partials('y1', 'x', val=3.0)
        self.Ainv = np.linalg.inv(np.array([[2., 1.], [1., -1.]]))
    def apply_nonlinear(self, i, o, r):
        r['y0'] = 2 * o['y0'] + o['y1'] - i['x']; r['y1'] = o['y0'] - o['y1'] + 3 * i['x']
    def solve_nonlinear(self, i, o):
        o['y0'], o['y1'] = self.Ainv @ np.array([i['x'][0], -3 * i['x'][0]])
    def solve_linear(self, d_o, d_r, mode):
        if mode == 'fwd':
            d_o['y0'], d_o['y1'] = self.Ainv @ np.array([d_r['y0'][0], d_r['y1'][0]])
        else:
            d_r['y0'], d_r['y1'] = self.Ainv.T @ np.array([d_o['y0'][0], d_o['y1'][0]])

for solver in (om.DirectSolver, om.LinearRunOnce, om.ScipyKrylov):
    p = om.Problem()
    p.model.add_subsystem('d', om.IndepVarComp('x', 1.0))
    p.model.add_subsystem('c', TwoStates())
    p.model.connect('d.x', 'c.x')
    p.model.add_design_var('d.x'); p.model.add_objective('c.y0')
    p.model.linear_solver = solver()
    p.setup(mode='fwd'); p.run_model()
    print(solver.__name__, p.compute_totals(return_format='array'))
