"""C24 finding 4: model-level approx_totals + declare_coloring + a design variable with indices"""
import numpy as np, openmdao.api as om
p = om.Problem()
d = p.model.add_subsystem('d', om.IndepVarComp())
d.add_output('x', np.array([1., 2., 3., 4.])); d.add_output('z', np.array([1., 2.])); d.add_output('w', 3.0)
p.model.add_subsystem('a', om.ExecComp('ya = 3*x', x=np.zeros(4), ya=np.zeros(4)))
p.model.add_subsystem('b', om.ExecComp('yb = 5*z', z=np.zeros(2), yb=np.zeros(2)))
p.model.add_subsystem('c', om.ExecComp('f = w*w'))
p.model.connect('d.x', 'a.x'); p.model.connect('d.z', 'b.z'); p.model.connect('d.w', 'c.w')
p.model.add_design_var('d.x', indices=[1, 3]); p.model.add_design_var('d.z'); p.model.add_design_var('d.w')
p.model.add_constraint('a.ya', upper=100.); p.model.add_constraint('b.yb', upper=100.); p.model.add_objective('c.f')
p.model.approx_totals(method='fd')
p.model.declare_coloring(show_summary=False, show_sparsity=False)
p.driver.declare_coloring(show_summary=False, show_sparsity=False)
p.setup(); p.run_model()
J = p.compute_totals(return_format='dict')
for of in J:
    for wrt in J[of]:
        if np.any(J[of][wrt]) or (of, wrt) in (('b.yb', 'd.z'), ('c.f', 'd.w'), ('a.ya', 'd.x')):
            print(of, wrt, np.round(J[of][wrt], 4).tolist())
J = p.compute_totals(return_format='dict')
print('second call', np.round(J['b.yb']['d.z'], 4).tolist(), np.round(J['c.f']['d.w'], 4).tolist())
