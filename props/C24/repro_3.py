"""C24 finding 3: a matrix-free component in reverse mode leaks into irrelevant systems."""
import numpy as np, openmdao.api as om


class MF(om.ExplicitComponent):          # f = 5*y + 7*z, derivatives by compute_jacvec_product
    def setup(self):
        self.add_input('y', 1.0); self.add_input('z', 1.0); self.add_output('f', 1.0)
    def compute(self, i, o):
        o['f'] = 5 * i['y'] + 7 * i['z']
    def compute_jacvec_product(self, i, di, do, mode):
        if mode == 'fwd':
            if 'f' in do:
                if 'y' in di: do['f'] += 5 * di['y']
                if 'z' in di: do['f'] += 7 * di['z']
        else:
            if 'f' in do:
                if 'y' in di: di['y'] += 5 * do['f']
                if 'z' in di: di['z'] += 7 * do['f']


for solver in ('DirectSolver', 'ScipyKrylov', 'LinearBlockGS'):
    for mode in ('fwd', 'rev'):
        p = om.Problem()
        d = p.model.add_subsystem('d', om.IndepVarComp()); d.add_output('a', 1.0); d.add_output('b', 1.0)
        g = p.model.add_subsystem('g', om.Group())
        g.add_subsystem('e1', om.ExecComp('y = 2*a'))          # not downstream of the design variable b
        g.add_subsystem('e2', om.ExecComp('z = 3*b'))
        p.model.add_subsystem('c', MF())
        p.model.connect('d.a', 'g.e1.a'); p.model.connect('d.b', 'g.e2.b')
        p.model.connect('g.e1.y', 'c.y'); p.model.connect('g.e2.z', 'c.z')
        p.model.add_design_var('d.b'); p.model.add_objective('c.f')
        if solver == 'DirectSolver':
            p.model.linear_solver = om.DirectSolver(assemble_jac=False)
        elif solver == 'ScipyKrylov':
            p.model.linear_solver = om.ScipyKrylov(atol=1e-13, rtol=1e-14, iprint=-1)
        else:
            p.model.linear_solver = om.LinearBlockGS(maxiter=30, atol=1e-12, rtol=1e-14, iprint=-1, err_on_non_converge=True)
            g.linear_solver = om.LinearBlockGS(maxiter=30, atol=1e-12, rtol=1e-14, iprint=-1, err_on_non_converge=True)
        p.setup(mode=mode); p.run_model()
        try:
            print(solver, mode, p.compute_totals(return_format='array').ravel())
        except om.AnalysisError as e:
            print(solver, mode, 'AnalysisError:', str(e)[:80])
