"""C24 implementation side.

The relevance-off run must converge (its iterative linear solvers raise on non-convergence; otherwise the case is
vacuous).  The relevance-on run uses OpenMDAO's default behaviour of iterative linear solvers (a message, no
exception), so that a solve that goes wrong only because of the pruning shows up as different totals instead of
being discarded as "not converged".

Oracle (the property): totals (fwd and rev) and converged outputs of every generated model computed with
relevance enabled (this process) equal those computed with OPENMDAO_NO_RELEVANCE=1 (a fresh subprocess).
Canonical result for the Coq comparison: the relevance sets of the REAL Relevance object (systems downstream of
each design variable, systems upstream of each response, at the granularity component / independent variable)."""
import json
import os
import subprocess
import sys
import tempfile
import traceback

import numpy as np

HERE = os.path.dirname(os.path.abspath(__file__))
sys.path.insert(0, os.path.join(HERE, '..', 'C01'))
sys.path.insert(0, HERE)
import specgen as sg  # noqa: E402
import ombuild as ob  # noqa: E402
from openmdao.api import AnalysisError  # noqa: E402
from openmdao.utils.relevance import get_relevance  # noqa: E402


def nodes_of(spec):
    """graph nodes in execution order: one per independent variable (auto_ivc outputs, IndepVarComp outputs),
    one per other component.  Returns list of ('var', comp, k, 'in'|'out') / ('comp', comp)"""
    nodes = []
    for ci, c in enumerate(spec['comps']):
        for k, i in enumerate(c['ins']):
            if i['src'] is None:
                nodes.append(('var', ci, k, 'in'))
    for ci, c in enumerate(spec['comps']):
        if c['kind'] == 'ivc':
            for k in range(len(c['outs'])):
                nodes.append(('var', ci, k, 'out'))
        else:
            nodes.append(('comp', ci))
    return nodes


def observe(spec, cfg, history=()):
    out = {}
    flat = sg.flatten(spec)
    for mk, mode in enumerate(cfg.get('modes', ('fwd', 'rev'))):
        c2 = dict(cfg, mode=mode)
        p = ob.build(spec, c2)
        p.run_model()
        # a history of compute_totals calls with different of / wrt subsets on the SAME problem (each builds its
        # own Relevance object), then the full set
        names = ob.voi_names(spec)
        hist = []
        for of_idx, wrt_idx in history:
            of = []
            for k in of_idx:
                if names['responses_src'][k] not in of:
                    of.append(names['responses_src'][k])
            wrt = [names['desvars'][k] for k in wrt_idx]
            Jh = p.compute_totals(of=of, wrt=wrt, return_format='array')
            hist.append(np.atleast_2d(Jh).tolist())
        out['H' + mode] = hist
        out['J' + mode] = np.atleast_2d(ob.totals(p, spec, dict(c2, fmt='array', driver_scaling=False))).tolist()
        if mk == 0:
            ci = getattr(p.driver, '_coloring_info', None)
            col = getattr(ci, 'coloring', None) if ci is not None else None
            out['coloring_modes'] = '+'.join(col.modes()) if col is not None else None
            vals = []
            for v in flat['vars']:
                c = spec['comps'][v['comp']]
                nm = c['path'] + '.' + (c['ins'][v['in']]['name'] if v['auto'] else c['outs'][v['out']]['name'])
                vals.extend(np.array(p.get_val(nm), dtype=float).ravel().tolist())
            out['state'] = vals
            out['prob'] = p
    return out


def real_sets(p, spec):
    """D per design variable and A per response over nodes_of(spec), from the real Relevance object"""
    m = p.model
    drv = p.driver
    of_meta, wrt_meta, _ = m._get_totals_metadata(drv, None, None)
    rel = get_relevance(m, of_meta, wrt_meta)
    conn = m._conn_global_abs_in2out
    nodes = nodes_of(spec)
    names = []
    for nd in nodes:
        if nd[0] == 'comp':
            names.append(('sys', spec['comps'][nd[1]]['path']))
        else:
            c = spec['comps'][nd[1]]
            if nd[3] == 'in':
                names.append(('var', conn[c['path'] + '.' + c['ins'][nd[2]]['name']]))
            else:
                names.append(('var', c['path'] + '.' + c['outs'][nd[2]]['name']))

    def sets(direction, metas):
        res = []
        for meta in metas.values():
            src = meta['source']
            varr = rel._single_seed2relvars[direction][src]
            sarr = rel._single_seed2relsys[direction][src]
            row = []
            for kind, nm in names:
                if kind == 'sys':
                    row.append(bool(sarr[rel._sys2idx[nm]]))
                else:
                    row.append(bool(varr[rel._var2idx[nm]]))
            res.append(row)
        return res
    return sets('fwd', wrt_meta), sets('rev', of_meta)


def run_all(cases, with_sets):
    outs = []
    for c in cases:
        try:
            o = observe(c['spec'], dict(c['cfg'], err=not with_sets), c.get('history', ()))
            r = {'state': o['state'], 'coloring_modes': o.get('coloring_modes')}
            for mode in c['cfg'].get('modes', ('fwd', 'rev')):
                r['J' + mode], r['H' + mode] = o['J' + mode], o['H' + mode]
            if with_sets:
                r['D'], r['A'] = real_sets(o['prob'], c['spec'])
        except AnalysisError as e:
            r = {'vacuous': True, 'why': str(e)[:150]}
        except Exception as e:
            r = {'error': traceback.format_exc()[-1500:], 'etype': type(e).__name__ + ':' + str(e)[:60]}
        outs.append(r)
    return outs


def same(a, b, exact, slack=0.0):
    a, b = np.asarray(a, dtype=float), np.asarray(b, dtype=float)
    if a.shape != b.shape:
        return False, 'shape %s vs %s' % (a.shape, b.shape)
    bad = np.nonzero(a != b) if exact else np.nonzero(~(np.abs(a - b) <= 1e-9 * np.maximum(1.0, np.abs(b)) + slack))
    if len(bad[0]):
        k = tuple(int(x[0]) for x in bad)
        return False, 'entry %s: relevance on %r, relevance off %r' % (k, float(a[k]), float(b[k]))
    return True, ''


def main():
    if sys.argv[1] == '--off':
        cases = json.load(open(sys.argv[2]))
        json.dump(run_all(cases, False), open(sys.argv[3], 'w'))
        return
    allcases = json.load(open(sys.argv[1]))
    # the pre / iterated / post cases are self-contained (props/C24/ppp.py); the others need the second process
    ppp_idx = [k for k, c in enumerate(allcases) if c['spec'].get('ppp')]
    cases = [c for c in allcases if not c['spec'].get('ppp')]
    on = run_all(cases, True)
    # relevance disabled: fresh interpreter, OPENMDAO_NO_RELEVANCE is read at import time
    tmp = tempfile.mkdtemp(prefix='c24_')
    fin, fout = os.path.join(tmp, 'in.json'), os.path.join(tmp, 'out.json')
    json.dump(cases, open(fin, 'w'))
    env = dict(os.environ, OPENMDAO_NO_RELEVANCE='1')
    pr = subprocess.run([sys.executable, os.path.abspath(__file__), '--off', fin, fout], env=env,
                        stdout=subprocess.PIPE, stderr=subprocess.STDOUT, timeout=3000)
    off = json.load(open(fout)) if os.path.exists(fout) else None
    res = []
    for k, c in enumerate(cases):
        a = on[k]
        b = off[k] if off is not None else {'error': 'relevance-off subprocess failed: ' + pr.stdout.decode()[-800:]}
        r = {'res': '__none__', 'ok': True, 'msg': '', 'sig': '', 'kind': c.get('kind', ''), 'exact': True}
        if 'error' in a and 'error' in b and a.get('etype') == b.get('etype'):
            # the model is rejected in the same way with relevance on and off: nothing to compare
            r['kind'] += ':both-raise'
            r['vacuous'] = 1
            r['both_raise'] = a.get('etype')
        elif 'error' in a or 'error' in b:
            r.update(ok=False, sig='relevance:raises-on-one-side' if ('error' in a) != ('error' in b)
                     else 'harness-exception',
                     msg='relevance on: %s | relevance off: %s' % (a.get('error', 'ok')[-700:], b.get('error', 'ok')[-700:]))
        elif a.get('vacuous') or b.get('vacuous'):
            r['kind'] += ':vacuous'
            r['vacuous'] = 1
        else:
            exact = c['cfg'].get('lin') == 'runonce' and not c['spec']['coupled'] and not c['cfg'].get('approx') \
                and not c['cfg'].get('approx_model')
            slack = 0.0
            if not exact:
                # both runs met the iterative solvers' absolute tolerance; their solutions may differ by twice the
                # corresponding error bound
                ex = sg.exact_all(sg.flatten(c['spec']))
                slack = 2 * sg.solver_slack(ex) if ex is not None else 0.0
            modes = c['cfg'].get('modes', ('fwd', 'rev'))
            items = [('J' + m, 'total derivatives (%s)' % m, a['J' + m], b['J' + m]) for m in modes]
            items.append(('state', 'converged outputs / responses', a['state'], b['state']))
            for m in modes:
                for k, (ha, hb) in enumerate(zip(a['H' + m], b['H' + m])):
                    items.append(('H' + m, 'total derivatives (%s) of call %d of the history %s' % (
                        m, k, c['history'][k]), ha, hb))
            if a.get('coloring_modes'):
                r['kind'] += ':coloring=' + a['coloring_modes']
            for key, what, va, vb in items:
                good, why = same(va, vb, exact, slack)
                if not good and r['ok']:
                    r.update(ok=False, sig='relevance:%s:%s%s' % (key, c['cfg'].get('lin'),
                                                                ':approx_totals' if c['cfg'].get('approx') else
                                                                (':model-approx_totals' + (':coloring' if c['cfg'].get('coloring') else ''))
                                                                if c['cfg'].get('approx_model') else ''),
                             msg='%s differ with relevance on / off (%s): %s | cfg=%s' % (
                                 what, 'exact' if exact else 'tol 1e-9', why, c['cfg']))
            r['res'] = [a['D'], a['A']]
        res.append(r)
    if ppp_idx:
        import ppp
        full = []
        it = iter(res)
        for k, c in enumerate(allcases):
            if c['spec'].get('ppp'):
                try:
                    full.append(ppp.handle(c))
                except Exception:
                    full.append({'res': '__none__', 'ok': False, 'sig': 'harness-exception',
                                 'msg': traceback.format_exc()[-1500:], 'kind': c.get('kind', 'ppp')})
            else:
                full.append(next(it))
        res = full
    json.dump(res, open(sys.argv[2], 'w'))


if __name__ == '__main__':
    main()
