"""C24 — relevance pruning is unobservable in results."""
import os
import sys

sys.path.insert(0, os.path.join(os.path.dirname(os.path.abspath(__file__)), '..', 'C01'))
import specgen as sg  # noqa: E402
import flow  # noqa: E402
from core import Spec  # noqa: E402
from check import spec_kind  # noqa: E402  (props/C01/check.py)

LIN_FF = ['runonce', 'runonce', 'lbgs', 'lbjac', 'krylov', 'direct', 'direct_sub']
LIN_CPL = ['runonce', 'lbgs', 'krylov', 'direct', 'direct_cyc', 'krylov_cyc']


def graph(spec):
    """(deps, dseeds, rseeds) over the nodes of impl.nodes_of: one node per independent variable
    (auto_ivc outputs first, IndepVarComp outputs in place), one node per other component"""
    comps = spec['comps']
    nodes = []
    for ci, c in enumerate(comps):
        for k, i in enumerate(c['ins']):
            if i['src'] is None:
                nodes.append(('var', ci, k, 'in'))
    for ci, c in enumerate(comps):
        if c['kind'] == 'ivc':
            for k in range(len(c['outs'])):
                nodes.append(('var', ci, k, 'out'))
        else:
            nodes.append(('comp', ci))
    idx = {nd: n for n, nd in enumerate(nodes)}

    def src_node(ci, k, i):
        if i['src'] is None:
            return idx[('var', ci, k, 'in')]
        sc, so = i['src']
        if comps[sc]['kind'] == 'ivc':
            return idx[('var', sc, so, 'out')]
        return idx[('comp', sc)]
    deps = [[] for _ in nodes]
    for ci, c in enumerate(comps):
        if c['kind'] == 'ivc':
            continue
        me = idx[('comp', ci)]
        for k, i in enumerate(c['ins']):
            s = src_node(ci, k, i)
            if s not in deps[me]:
                deps[me].append(s)
    dseeds = []
    for d in spec['desvars']:
        dseeds.append([idx[('var', d['comp'], d['out'], 'out')] if 'out' in d else idx[('var', d['comp'], d['in'], 'in')]])
    order = [r for r in spec['responses'] if r['type'] == 'obj'] + [r for r in spec['responses'] if r['type'] == 'con']
    rseeds = []
    for r in order:
        c = comps[r['comp']]
        rseeds.append([idx[('var', r['comp'], r['out'], 'out')] if c['kind'] == 'ivc' else idx[('comp', r['comp'])]])
    return deps, dseeds, rseeds


def missing_partials(spec):
    for c in spec['comps']:
        if c['kind'] == 'ivc' or not c['sparse']:
            continue
        for o in c['outs']:
            blocks = (o['A'] if c['kind'] == 'exp' else o['Ay'] + o['Bx'])
            for m in blocks:
                if all(sg.fr(v) == 0 for row in m for v in row):
                    return True
    return False


def nl(xs):
    return '[%s]%%nat' % '; '.join(str(x) for x in xs)


def nll(xss):
    return '[%s]' % '; '.join(nl(x) for x in xss)


def bl(xs):
    return '[%s]' % '; '.join('true' if x else 'false' for x in xs)


class C24(Spec):
    pid = 'C24'
    imports = ['C01.Model', 'C24.Model']
    impl_script = 'props/C24/impl.py'
    exactness = 'E1 (relevance sets, closure certificate on the real sets); results on/off: bitwise for LinearRunOnce on feed-forward specs, 1e-9 (+ iterative-solver slack) otherwise'
    shard = 100
    impl_jobs = 4
    impl_timeout = 2500
    extra_dirs = ['Base', 'C01']
    model_deps = ['coq/C01/Model.vo', 'coq/C24/Model.vo']
    rule = ('the model specs of C01 (irrelevant side branches, unrelated sources, several design variables and responses, '
            'multi-output IndepVarComps and implicit components, aliases, feedback connections), one sampled solver '
            'configuration each (a third of the feed-forward ones with approx_totals on the first-level groups); a history of 1-3 '
            'compute_totals calls with random of / wrt subsets on the same Problem followed by the full totals (fwd, rev), and '
            'converged outputs, with relevance enabled vs OPENMDAO_NO_RELEVANCE=1 in '
            'a fresh subprocess; per design variable / response the real reachability sets vs the model; a case is a '
            'distinct spec')
    assumptions = ['optimizer runs (run_driver) are not part of the generated stream: affine objectives have no interior '
                   'optimum; the property is checked on responses and total derivatives',
                   'the DAG theorem needs a topological execution order; for coupled specs (feedback connections) only '
                   'the reachability sets, their closure certificate and the on/off oracle are checked (cyclic case: partial)',
                   'parallel_deriv_color needs MPI and is out of scope; multi-seed soundness is the union lemma']

    def gen(self, tier, rng):
        n = 75 if tier == 'quick' else 700
        cases = []
        for k in range(n):
            cpl = (k % 5 == 4)
            spec = sg.gen_valid_spec(rng, coupled=cpl, ncomp=rng.randrange(4, 9))
            cfg = {'lin': rng.choice(LIN_CPL if cpl else LIN_FF), 'jac': None,
                   'nl': 'nlbgs', 'mf': rng.random() < 0.7}
            if cfg['lin'].startswith(('direct', 'krylov')):
                cfg['jac'] = rng.choice([None, None, 'csc', 'dense'])
            if not cpl and cfg['jac'] is None and rng.random() < 0.35:
                cfg['approx'] = True          # first-level groups are semi-total finite-difference groups
            nd, nr = len(spec['desvars']), len(spec['responses'])
            history = []
            for _ in range(rng.randrange(1, 4)):
                history.append([sorted(rng.sample(range(nr), rng.randrange(1, nr + 1))),
                                sorted(rng.sample(range(nd), rng.randrange(1, nd + 1)))])
            cases.append({'spec': spec, 'cfg': cfg, 'history': history,
                          'kind': spec_kind(spec) + ':' + cfg['lin'] + (':approx_totals' if cfg.get('approx') else '')})
        # matrix-free components whose inputs are partly irrelevant: one design variable only, every component
        # matrix-free, iterative top-level solver (the reverse products of such components must not reach the
        # skipped systems)
        for k in range(24 if tier == 'quick' else 160):
            if k % 2 == 0:
                spec = sg.gen_leak_spec(rng)
            else:
                spec = sg.gen_valid_spec(rng, ncomp=rng.randrange(4, 8), allow_units=False)
                spec['desvars'] = spec['desvars'][:1]
                for c in spec['comps']:
                    c['mf'] = c['kind'] != 'ivc'
            cfg = {'lin': rng.choice(['krylov', 'krylov', 'krylov_sub', 'lbgs']), 'jac': None, 'nl': 'nlbgs', 'mf': True}
            nr = len(spec['responses'])
            history = [[sorted(rng.sample(range(nr), rng.randrange(1, nr + 1))), [0]]] if rng.random() < 0.5 else []
            cases.append({'spec': spec, 'cfg': cfg, 'history': history, 'kind': 'matrix-free-single-desvar:' + cfg['lin']})
        # model-level approx_totals with a total colouring and design variables declared with `indices`
        # (the colours' seed variables decide which branches are pruned)
        for k in range(16 if tier == 'quick' else 120):
            spec = sg.gen_color_spec(rng)
            cfg = {'lin': 'runonce', 'jac': None, 'nl': 'nlbgs', 'mf': False, 'approx_model': True,
                   'coloring': rng.random() < 0.85}
            cases.append({'spec': spec, 'cfg': cfg, 'history': [],
                          'kind': 'model-approx_totals' + (':coloring' if cfg['coloring'] else '') + ':indexed-desvar'})
        # arrowhead total jacobians under the default mode with a dynamic total colouring of the driver:
        # bidirectional colourings solve the dense rows in reverse although the problem's mode is fwd
        for k in range(16 if tier == 'quick' else 150):
            cases.append({'spec': sg.gen_arrow_spec(rng), 'history': [],
                          'cfg': {'lin': rng.choice(['runonce', 'runonce', 'lbgs', 'direct']), 'jac': None, 'nl': 'nlbgs',
                                  'mf': False, 'coloring': True, 'modes': ['auto']},
                          'kind': 'arrowhead:auto:driver-coloring'})
        # pre-opt / iterated / post-opt split of a driver run, with discrete links on design-variable -> response paths
        for k in range(40 if tier == 'quick' else 400):
            cases.append({'spec': sg.gen_ppp_spec(rng), 'cfg': {}, 'kind': 'pre-iter-post:discrete-links'})
        return cases

    def search_gen(self, tier, rng):
        return self.gen('quick', rng)

    def got_term(self, c):
        if c['spec'].get('ppp'):
            deps, seeds = sg.ppp_graph(c['spec'])
            return '(v_bset (iter_set %s %s))' % (nll(deps), nl(seeds))
        deps, ds, rs = graph(c['spec'])
        return '(VL [run_relevance %s %s %s; VB true])' % (nll(deps), nll(ds), nll(rs))

    def want_term(self, c, res):
        if c['spec'].get('ppp'):
            return '(v_bset %s)' % bl(res['res'])
        deps, ds, rs = graph(c['spec'])
        D, A = res['res']
        lit = '(VL [VL [%s]; VL [%s]; VB true])' % ('; '.join('(v_bset %s)' % bl(d) for d in D),
                                                  '; '.join('(v_bset %s)' % bl(a) for a in A))
        chk = '(check_real %s %s %s [%s] [%s])' % (nll(deps), nll(ds), nll(rs), '; '.join(bl(d) for d in D),
                                                 '; '.join(bl(a) for a in A))
        return '(VL [%s; %s])' % (lit, chk)

    def signature(self, case, res):
        return res.get('sig') or 'C24'

    def compare_case(self, case, res):
        # components with undeclared (all-zero, sparse) partial blocks make OpenMDAO refine its graph to
        # variable level for that component (_update_dataflow_graph); the node-level model does not represent
        # that: such cases are checked by the on/off oracle only
        if case['spec'].get('ppp'):
            return res.get('res', '__none__') != '__none__'
        return res.get('res', '__none__') != '__none__' and not missing_partials(case['spec'])


def _after(v, cases, results):
    v.cov['vacuous_nonconverged_runs'] = sum(r.get('vacuous', 0) for r in results)
    v.cov['rejected_identically_on_and_off'] = sorted({r.get('both_raise') for r in results if r.get('both_raise')})
    v.cov['dag_cases'] = sum(1 for c in cases if not c['spec'].get('coupled'))
    v.cov['pre_iter_post_cases'] = sum(1 for c in cases if c['spec'].get('ppp'))
    results = [r for c, r in zip(cases, results) if not c['spec'].get('ppp')]
    v.cov['irrelevant_systems_total'] = sum(
        sum(1 for col in zip(*[[x and y for x, y in zip(d, a)] for d in r['res'][0] for a in r['res'][1]]) if not any(col))
        for r in results if isinstance(r.get('res'), list) and r['res'][0] and r['res'][1])


def main(tier):
    return flow.two_group_check(C24(), tier, after_oracle=_after)
