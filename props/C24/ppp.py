"""pre-opt / iterated / post-opt split of a driver run (C24): the real Problem of a specgen.gen_ppp_spec model,
driven by a minimal optimisation-type driver that visits a fixed list of design points.

Oracle (the property, no second process needed — the model is explicit and integer valued): the responses the
driver sees at EVERY iteration, and every output after the run (the post-opt systems run once at the end), equal the
values of a complete evaluation of the model at that design point; every component on a design-variable -> response
path of the full connection graph (continuous and discrete links) is in the iterated set."""
import os
import sys

import numpy as np

sys.path.insert(0, os.path.join(os.path.dirname(os.path.abspath(__file__)), '..', 'C01'))
import specgen as sg  # noqa: E402
import openmdao.api as om  # noqa: E402
from openmdao.core.driver import Driver, RecordingDebugging  # noqa: E402


class Node(om.ExplicitComponent):
    def initialize(self):
        self.options.declare('cs', types=dict)

    def setup(self):
        for k, i in enumerate(self.options['cs']['ins']):
            if i['kind'] == 'c':
                self.add_input('x%d' % k, 0.0)
            else:
                self.add_discrete_input('k%d' % k, val={'v': 0.0})
        self.add_output('y', 0.0)
        self.add_discrete_output('cfg', val={'v': 0.0})

    def compute(self, inputs, outputs, discrete_inputs=None, discrete_outputs=None):
        cs = self.options['cs']
        v = float(cs['const'])
        for k, i in enumerate(cs['ins']):
            v += i['coef'] * (float(inputs['x%d' % k][0]) if i['kind'] == 'c' else float(discrete_inputs['k%d' % k]['v']))
        outputs['y'] = v
        discrete_outputs['cfg'] = {'v': v}


class ListOpt(Driver):
    """an optimisation-type driver (so that the pre / iterated / post split is active) that evaluates a fixed
    list of design points"""

    def __init__(self, points=(), dvnames=(), **kw):
        super().__init__(**kw)
        self.supports['optimization'] = True
        self.supports['inequality_constraints'] = True
        self._points, self._dvnames, self.seen = list(points), list(dvnames), []

    def run(self):
        for pt in self._points:
            for nm, val in zip(self._dvnames, pt):
                self._set_design_var(nm, np.array([float(val)]))
            with RecordingDebugging(self._get_name(), self.iter_count, self):
                self._run_solve_nonlinear()
            self.iter_count += 1
            vals = {}
            vals.update(self.get_objective_values(driver_scaling=False))
            vals.update(self.get_constraint_values(driver_scaling=False))
            self.seen.append({k: float(np.asarray(v).ravel()[0]) for k, v in vals.items()})
        return False


def path_of(spec, ci):
    c = spec['comps'][ci]
    return ('g.' if c.get('group') == 'g' else '') + c['name']


def build(spec):
    p = om.Problem()
    m = p.model
    comps = spec['comps']
    ivc = om.IndepVarComp()
    for k, v in enumerate(comps[0]['vals']):
        ivc.add_output('x%d' % k, float(v))
    holders = {}
    for ci in sg.ppp_order(spec):
        c = comps[ci]
        if c['ivc']:
            m.add_subsystem('d', ivc)
        elif c.get('group') == 'g':
            if 'g' not in holders:
                holders['g'] = m.add_subsystem('g', om.Group())
            holders['g'].add_subsystem(c['name'], Node(cs=c))
        else:
            m.add_subsystem(c['name'], Node(cs=c))
    for ci, c in enumerate(comps):
        if c['ivc']:
            continue
        for k, i in enumerate(c['ins']):
            if i['src'] == 0:
                m.connect('d.x%d' % i['dv'], path_of(spec, ci) + '.x%d' % k)
            elif i['kind'] == 'c':
                m.connect(path_of(spec, i['src']) + '.y', path_of(spec, ci) + '.x%d' % k)
            else:
                m.connect(path_of(spec, i['src']) + '.cfg', path_of(spec, ci) + '.k%d' % k)
    dvn = ['d.x%d' % k for k in range(comps[0]['ndv'])]
    for nm in dvn:
        m.add_design_var(nm, lower=-100., upper=100.)
    for k, ci in enumerate(spec['responses']):
        if k == 0:
            m.add_objective(path_of(spec, ci) + '.y')
        else:
            m.add_constraint(path_of(spec, ci) + '.y', upper=1e6)
    p.driver = ListOpt(points=spec['points'], dvnames=dvn)
    p.setup()
    return p


def handle(c):
    spec = c['spec']
    comps = spec['comps']
    out = {'ok': True, 'msg': '', 'sig': '', 'kind': c.get('kind', 'ppp'), 'exact': True}
    p = build(spec)
    p.run_driver()
    m = p.model
    names = ['d'] + [path_of(spec, ci) for ci in range(1, len(comps))]
    pre, post = set(m._pre_components or ()), set(m._post_components or ())
    iterated = [nm not in pre and nm not in post for nm in names]

    def fail(sig, msg):
        if out['ok']:
            out.update(ok=False, sig=sig, msg=msg)
    # (1) the responses seen by the driver at every iteration
    for k, (pt, seen) in enumerate(zip(spec['points'], p.driver.seen)):
        y = sg.ppp_eval(spec, pt)
        for ci in spec['responses']:
            got = seen.get(path_of(spec, ci) + '.y')
            if got != float(y[ci]):
                fail('ppp:stale-response-during-iteration',
                     'iteration %d at design point %s: the driver sees %s = %r, a complete evaluation of the model '
                     'gives %r (pre=%s post=%s)' % (k, pt, path_of(spec, ci) + '.y', got, float(y[ci]),
                                                    sorted(pre), sorted(post)))
    # (2) everything after the run (post-opt systems run once at the end)
    y = sg.ppp_eval(spec, spec['points'][-1])
    for ci in range(1, len(comps)):
        got = float(p.get_val(path_of(spec, ci) + '.y')[0])
        if got != float(y[ci]):
            fail('ppp:stale-output-after-run',
                 'after run_driver %s = %r, a complete evaluation at the final design point gives %r (pre=%s post=%s)'
                 % (path_of(spec, ci) + '.y', got, float(y[ci]), sorted(pre), sorted(post)))
    # (3) components on a design-variable -> response path are iterated
    deps, seeds = sg.ppp_graph(spec)
    n = len(comps)
    down = {0}
    for ci in range(1, n):
        if any(s in down for s in deps[ci]):
            down.add(ci)
    up = set(spec['responses'])
    for ci in range(n - 1, -1, -1):
        if any(ci in deps[k] for k in up):
            up.add(ci)
    for ci in sorted(down & up):
        if not iterated[ci]:
            fail('ppp:path-component-not-iterated',
                 '%s lies on a design variable -> response path of the connection graph but is in the %s set' % (
                     names[ci], 'pre-opt' if names[ci] in pre else 'post-opt'))
    out['res'] = iterated
    return out
