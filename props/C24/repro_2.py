import numpy as np, openmdao.api as om
def build():
    p = om.Problem()
    p.model.add_subsystem('d', om.IndepVarComp()); p.model.d.add_output('x', 1.0); p.model.d.add_output('y', 2.0)
    g = p.model.add_subsystem('g', om.Group())
    g.add_subsystem('c1', om.ExecComp('z = 3*x + 10*y'))
    g.add_subsystem('c2', om.ExecComp('f = 6*z'))
    g.connect('c1.z', 'c2.z')
    g.approx_totals(method='fd')
    p.model.connect('d.x', 'g.c1.x'); p.model.connect('d.y', 'g.c1.y')
    p.model.add_design_var('d.x'); p.model.add_design_var('d.y'); p.model.add_objective('g.c2.f')
    p.setup(); p.run_model()
    return p
p = build()
print('x then y:', p.compute_totals(of=['g.c2.f'], wrt=['d.x'], return_format='array'), p.compute_totals(of=['g.c2.f'], wrt=['d.y'], return_format='array'))
p = build()
print('y then x:', p.compute_totals(of=['g.c2.f'], wrt=['d.y'], return_format='array'), p.compute_totals(of=['g.c2.f'], wrt=['d.x'], return_format='array'))
p = build()
print('both:', p.compute_totals(return_format='array'))
