"""C08 — solver scaling (ref / ref0 / res_ref) never changes physical results."""
import os
import sys

sys.path.insert(0, os.path.join(os.path.dirname(os.path.abspath(__file__)), '..', 'C01'))
import specgen as sg  # noqa: E402
import flow  # noqa: E402
from core import Spec  # noqa: E402
from check import spec_kind  # noqa: E402  (props/C01/check.py)

LIN_FF = ['runonce', 'runonce', 'lbgs', 'direct', 'direct_sub', 'krylov']
LIN_CPL = ['runonce', 'lbgs', 'direct', 'direct_cyc', 'krylov']


def iterative(c):
    return bool(c['spec']['coupled']) or not (c['cfg'].get('lin') == 'runonce' or
                                              str(c['cfg'].get('lin', '')).startswith('direct'))


class C08(Spec):
    pid = 'C08'
    imports = ['C01.Model', 'C08.Model']
    impl_script = 'props/C08/impl.py'
    exactness = 'E3 dyadic-exact (scaling arrays always; results for feed-forward specs with power-of-two factors)'
    shard = 40
    impl_jobs = 8
    impl_timeout = 1500
    extra_dirs = ['Base', 'C01']
    model_deps = ['coq/C01/Model.vo', 'coq/C08/Model.vo']
    rule = ('the model specs of C01 (nested groups, explicit / implicit / IndepVarComp / auto_ivc, src_indices, units, '
            'feedback connections), each run unscaled and under 2 (quick) random assignments of positive and negative '
            'ref / ref0 / res_ref (scalar and per-entry; power-of-two spans so that the comparison is exact, and general '
            'values compared to solver tolerance), given through add_output, through System.set_output_solver_options '
            '(on the component, on an ancestor group or on the model with the relative path) or both, including '
            'models whose ONLY scaling is one ref0 (scalar or array) set by set_output_solver_options; one sampled '
            'solver configuration per spec (30 % of the feed-forward ones with approx_totals on the first-level groups); a case '
            'is a distinct spec')
    assumptions = ['convergence-rate differences are not observed; coupled specs are compared at 1e-7 relative '
                   '(the scaled run converges on scaled residual norms), feed-forward ones exactly or at 1e-9',
                   'bounds / line searches under scaling belong to C10']

    def gen(self, tier, rng):
        n = 70 if tier == 'quick' else 350
        nvar = 2 if tier == 'quick' else 4
        cases = []
        for k in range(n):
            cpl = (k % 4 == 3)
            spec = sg.gen_valid_spec(rng, coupled=cpl)
            cfg = {'lin': rng.choice(LIN_CPL if cpl else LIN_FF), 'jac': rng.choice([None, None, 'dense', 'csc']),
                   'nl': rng.choice(['nlbgs', 'newton']) if cpl else 'nlbgs', 'mf': rng.random() < 0.7}
            if cfg['lin'] in ('runonce', 'lbgs'):
                cfg['jac'] = None
            if not cpl and cfg['jac'] is None and rng.random() < 0.4:
                cfg['approx'] = True      # first-level groups become semi-total finite-difference groups
            scaled = []
            for j in range(nvar):
                if j % 2 == 0:
                    pow2, route, only = True, rng.choice(['add', 'sso', 'mixed']), None
                else:
                    pow2 = rng.random() < 0.5
                    route = rng.choice(['sso', 'sso', 'mixed', 'add'])
                    only = rng.choice(['ref0', 'ref0', 'one', None])
                if cfg.get('approx') and j % 2 == 1:
                    only = rng.choice(['ref0', 'one'])
                scaled.append({'pow2': pow2, 'route': route, 'only': only,
                               'spec': sg.with_scaling(spec, rng, pow2=pow2, route=route, only=only,
                                                       prefer_group=bool(cfg.get('approx')))})
            cases.append({'spec': spec, 'cfg': cfg, 'scaled': scaled,
                          'kind': spec_kind(spec) + ':' + cfg['lin'] + (':approx_totals' if cfg.get('approx') else '') + ':' + '/'.join('%s%s' % (v['route'], '-only-' + v['only'] if v['only'] else '') for v in scaled)})
        return cases

    def search_gen(self, tier, rng):
        return self.gen('quick', rng)

    def got_term(self, c):
        s2 = c['scaled'][0]['spec']
        flat = sg.flatten(s2)
        if iterative(c):
            # results of iterative solvers are only as good as the solver tolerance in SCALED residual norms;
            # they are checked by the oracle (scaled vs unscaled run); the model comparison is the scaling arrays
            return '(VL [scaling_arrays %s %s; VN])' % (sg.gallina_spec(flat), sg.gallina_oscals(s2, flat))
        return '(run_scaled %s %s %s %s)' % (sg.gallina_spec(flat), sg.gallina_oscals(s2, flat),
                                             sg.gallina_vois(flat['desvars']), sg.gallina_vois(flat['responses']))

    def signature(self, case, res):
        return res.get('sig') or 'C08'

    def shrink(self, c):
        if len(c['scaled']) > 1:
            for v in c['scaled']:
                yield dict(c, scaled=[v])


def _after(v, cases, results):
    vac = sum(r.get('vacuous', 0) for r in results)
    v.cov['vacuous_nonconverged_runs'] = vac
    v.cov['exact_cases'] = sum(1 for r in results if r.get('exact'))
    if vac > len(cases):
        v.broke('correspondence:too-many-vacuous-runs (%d)' % vac)


def main(tier):
    # the tolerance group holds coupled / iterative / non-power-of-two cases: 1e-7 (solver tolerance, DESIGN C08)
    from fractions import Fraction
    return flow.two_group_check(C08(), tier, tol=Fraction(1, 10 ** 7), after_oracle=_after)
