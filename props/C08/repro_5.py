"""C08 finding 5: set_output_solver_options from a system two or more levels above the component."""
import openmdao.api as om
for where in ('component', 'parent group', 'model'):
    p = om.Problem()
    g = p.model.add_subsystem('g', om.Group())
    d = g.add_subsystem('d', om.IndepVarComp('x', 1.0))
    p.model.add_subsystem('c', om.ExecComp('y = 5*a'))
    p.model.connect('g.d.x', 'c.a')
    if where == 'component':
        d.set_output_solver_options('x', ref0=0.5)
    elif where == 'parent group':
        g.set_output_solver_options('d.x', ref0=0.5)
    else:
        p.model.set_output_solver_options('g.d.x', ref0=0.5)
    p.model.add_design_var('g.d.x'); p.model.add_objective('c.y')
    p.setup()
    try:
        p.run_model(); print(where, p.get_val('c.y'), p.compute_totals(return_format='array'))
    except Exception as e:
        print(where, type(e).__name__, e)
