"""C08 finding 1: array ref0 + scalar ref on a source whose consumer uses src_indices -> setup crashes."""
import numpy as np, openmdao.api as om
p = om.Problem()
ivc = p.model.add_subsystem('d', om.IndepVarComp())
ivc.add_output('x', np.array([1., 2., 3.]), ref0=np.array([0., 0., 2.]))      # ref stays the scalar 1.0 ... 
p.model.add_subsystem('c', om.ExecComp('y = 5*a', a=np.zeros(1), y=np.zeros(1)))
p.model.connect('d.x', 'c.a', src_indices=[1])
p.setup()
try:
    p.run_model(); print('y =', p.get_val('c.y'))
except Exception as e:
    print(type(e).__name__, e)
