import numpy as np, openmdao.api as om
for kw in ({}, {'ref0': -2.0}, {'ref': 4.0, 'res_ref': 1.0}, {'ref': 4.0}, {'ref0': -2.0, 'ref': 8.0, 'res_ref': 3.0}):
  for mode in ('fwd', 'rev'):
    for top in (om.LinearRunOnce, om.DirectSolver):
        p = om.Problem()
        p.model.add_subsystem('d', om.IndepVarComp('x', 1.0))
        g = p.model.add_subsystem('g', om.Group())
        g.add_subsystem('c1', om.ExecComp('z = 3*x', z=dict(kw)))
        g.add_subsystem('c2', om.ExecComp('f = 6*z', f=dict(kw)))
        g.connect('c1.z', 'c2.z')
        g.approx_totals(method='cs')
        p.model.add_subsystem('e', om.ExecComp('h = 2*f'))
        p.model.connect('d.x', 'g.c1.x'); p.model.connect('g.c2.f', 'e.f')
        p.model.add_design_var('d.x'); p.model.add_objective('e.h')
        p.model.linear_solver = top(assemble_jac=False) if top is om.DirectSolver else top()
        p.setup(mode=mode, force_alloc_complex=True); p.run_model()
        print(kw, mode, top.__name__, p.compute_totals(return_format='array').ravel(), p.get_val('e.h'))
