import numpy as np, openmdao.api as om
class C(om.ExplicitComponent):
    def initialize(self): self.options.declare('mf', default=False); self.options.declare('kw', default={})
    def setup(self):
        self.add_input('a', np.zeros(1)); self.add_output('y', np.zeros(1), **self.options['kw'])
        if not self.options['mf']: self.declare_partials('y','a',val=5.)
    def compute(self,i,o): o['y']=5*i['a']
class CM(C):
    def compute_jacvec_product(self, inputs, d_inputs, d_outputs, mode):
        if 'y' in d_outputs and 'a' in d_inputs:
            if mode=='fwd': d_outputs['y'] += 5*d_inputs['a']
            else: d_inputs['a'] += 5*d_outputs['y']
for kw in ({}, {'ref':4.}, {'res_ref':4.}, {'ref':4., 'res_ref':4.}, {'ref':2.,'res_ref':8.}):
  for mf in (False, True):
    for mode in ('fwd','rev'):
      for solver in (om.LinearRunOnce, om.DirectSolver):
        p = om.Problem()
        p.model.add_subsystem('d', om.IndepVarComp('x', 1.0))
        p.model.add_subsystem('c', (CM if mf else C)(mf=mf, kw=kw))
        p.model.connect('d.x', 'c.a')
        p.model.add_design_var('d.x'); p.model.add_objective('c.y')
        p.model.linear_solver = solver(assemble_jac=False)
        p.setup(mode=mode); p.run_model()
        print(kw, 'mf' if mf else 'partials', mode, solver.__name__, p.compute_totals(return_format='array').ravel(), p.get_val('c.y'))
