"""C08 implementation side: every spec is run unscaled and with random positive and negative ref / ref0 /
res_ref; the oracle is the property itself: converged outputs, inputs and total derivatives of the scaled run
equal those of the unscaled run (exactly for feed-forward specs with power-of-two scale factors, else to solver
tolerance).  The canonical result for the Coq comparison: the real root scaling arrays of the scaled problem and
its physical results."""
import os
import sys
from fractions import Fraction as F

import numpy as np

sys.path.insert(0, os.path.join(os.path.dirname(os.path.abspath(__file__)), '..', 'C01'))
import specgen as sg  # noqa: E402
import ombuild as ob  # noqa: E402
from implutil import main, q  # noqa: E402
from openmdao.api import AnalysisError  # noqa: E402


def observe(spec, cfg):
    """state, inputs, totals (fwd & rev, with and without driver scaling) of one real run"""
    flat = sg.flatten(spec)
    out = {}
    for mode in ('fwd', 'rev'):
        c2 = dict(cfg, mode=mode)
        p = ob.build(spec, c2)
        p.run_model()
        for ds in (False, True):
            out['J', mode, ds] = ob.totals(p, spec, dict(c2, driver_scaling=ds, fmt='array'))
        if mode == 'fwd':
            vals = []
            for v in flat['vars']:
                c = spec['comps'][v['comp']]
                nm = c['path'] + '.' + (c['ins'][v['in']]['name'] if v['auto'] else c['outs'][v['out']]['name'])
                vals.extend(np.array(p.get_val(nm), dtype=float).ravel().tolist())
            out['state'] = vals
            ins = []
            for c in spec['comps']:
                for i in c['ins']:
                    ins.extend(np.array(p.get_val(c['path'] + '.' + i['name']), dtype=float).ravel().tolist())
            out['inputs'] = ins
            out['prob'] = p
    return out


def scaling_arrays(p, spec, flat):
    """the real root scaling arrays in the order of the model's variables"""
    m = p.model
    conn = m._conn_global_abs_in2out
    onames = []
    for v in flat['vars']:
        c = spec['comps'][v['comp']]
        if v['auto']:
            onames.append(conn[c['path'] + '.' + c['ins'][v['in']]['name']])
        else:
            onames.append(c['path'] + '.' + c['outs'][v['out']]['name'])
    inames = [c['path'] + '.' + i['name'] for c in spec['comps'] for i in c['ins']]

    def pick(vec, names, k, dflt):
        sc = vec._scaling
        arr = None if sc is None else sc[k]
        res = []
        for nm in names:
            a, b = vec.get_range(nm)
            if arr is None:
                res.extend([dflt] * (b - a))
            else:
                res.extend(np.asarray(arr, dtype=float)[a:b].tolist())
        return res
    lin_in = m._vectors['input']['linear']
    return [pick(m._outputs, onames, 0, 1.0), pick(m._outputs, onames, 1, 0.0),
            pick(m._residuals, onames, 0, 1.0),
            pick(m._inputs, inames, 0, 1.0), pick(m._inputs, inames, 1, 0.0),
            pick(lin_in, inames, 0, 1.0)]


def same(a, b, exact, tol, slack=0.0):
    a, b = np.asarray(a, dtype=float), np.asarray(b, dtype=float)
    if a.shape != b.shape:
        return False, 'shape %s vs %s' % (a.shape, b.shape)
    if exact:
        bad = np.nonzero(a != b)
    else:
        bad = np.nonzero(~(np.abs(a - b) <= tol * np.maximum(1.0, np.abs(b)) + slack))
    if len(bad[0]):
        k = tuple(int(x[0]) for x in bad)
        return False, 'entry %s: scaled run %r, unscaled run %r' % (k, float(a[k]), float(b[k]))
    return True, ''


def handle(c):
    spec, cfg = c['spec'], c['cfg']
    kind = c.get('kind', '')
    out = {'ok': True, 'msg': '', 'sig': '', 'kind': kind, 'exact': False, 'vacuous': 0, 'res': '__none__'}
    try:
        base = observe(spec, cfg)
    except AnalysisError:
        out['vacuous'] = 1
        out['kind'] = kind + ':vacuous'
        return out
    coupled = spec['coupled']
    tol = 1e-7 if coupled else 1e-9
    # iterative solvers of the scaled run converge on residuals divided by |res_ref| <= 100: the solution error
    # their absolute tolerance permits, in physical units
    slack = 0.0
    if coupled or cfg.get('lin') in ('lbgs', 'lbjac', 'krylov', 'krylov_cyc'):
        ex = sg.exact_all(sg.flatten(spec))
        slack = 100 * sg.solver_slack(ex) if ex is not None else 0.0
    for k, variant in enumerate(c['scaled']):
        s2 = variant['spec']
        try:
            obs = observe(s2, cfg)
        except AnalysisError:
            out['vacuous'] += 1
            continue
        except Exception as e:     # the unscaled model runs, the scaled one raises: scaling changed the outcome
            if out['ok']:
                import traceback
                out['ok'] = False
                out['sig'] = 'scaled-run-raises:%s' % type(e).__name__
                out['msg'] = 'the unscaled model runs but the scaled one (variant %d) raises %s: %s | %s | cfg=%s' % (
                    k, type(e).__name__, str(e)[:200], traceback.format_exc()[-400:], cfg)
            continue
        exact = bool(variant['pow2']) and not coupled and cfg.get('lin') in ('runonce', 'lbgs') and \
            not cfg.get('approx')
        for key in [('state',), ('inputs',)] + [('J', m, ds) for m in ('fwd', 'rev') for ds in (False, True)]:
            kk = key[0] if len(key) == 1 else key
            good, why = same(obs[kk], base[kk], exact, tol, 0.0 if exact else slack)
            if not good and out['ok']:
                out['ok'] = False
                what = {'state': 'converged outputs', 'inputs': 'inputs'}.get(key[0], 'compute_totals %s' % (key[1:],))
                out['msg'] = '%s change under solver scaling (variant %d, %s): %s | cfg=%s' % (
                    what, k, 'exact' if exact else 'tol %g' % tol, why, cfg)
                out['sig'] = 'scaling:%s:%s:%s%s' % (key[0], cfg.get('lin'), key[1] if len(key) > 1 else '',
                                                     ':approx_totals' if cfg.get('approx') else '')
                if key[0] == 'J' and key[1] == 'rev' and str(cfg.get('lin', '')).startswith('direct') \
                        and cfg.get('jac') is None:
                    out['sig'] = 'direct-rev-nonassembled-scaled'
        if k == 0 and not cfg.get('approx'):
            # (finite-difference groups are not what the C01 model describes: approx cases are oracle-only)
            flat2 = sg.flatten(s2)
            arrays = scaling_arrays(obs['prob'], s2, flat2)
            itv = bool(coupled) or not (cfg.get('lin') == 'runonce' or str(cfg.get('lin', '')).startswith('direct'))
            out['res'] = [[[q(v) for v in a] for a in arrays], None] if itv else [[[q(v) for v in a] for a in arrays],
                          [[[q(v) for v in row] for row in np.atleast_2d(obs['J', 'fwd', False])],
                           [[q(v) for v in row] for row in np.atleast_2d(obs['J', 'rev', False])],
                           [[q(v) for v in row] for row in np.atleast_2d(obs['J', 'fwd', True])],
                           [[q(v) for v in row] for row in np.atleast_2d(obs['J', 'rev', True])],
                           [q(v) for v in obs['state']]]]
            # exact comparison with the model only where binary64 arithmetic is exact (see C01)
            fl = flat2
            dy = all(sg.is_dyadic(r['unit_scaler']) for r in fl['responses']) and \
                all(sg.is_dyadic(d['unit_scaler']) and sg.is_dyadic(1 / d['unit_scaler']) for d in fl['desvars'])
            out['exact'] = exact and dy
    return out


if __name__ == '__main__':
    main(handle)
