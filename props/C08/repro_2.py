"""C08 finding: explicit component whose output has ref/ref0 but res_ref == 1 (e.g. ref0 only)"""
import numpy as np, openmdao.api as om
for kw in ({}, {'ref0': -2.0}, {'ref': 4.0, 'res_ref': 1.0}, {'ref': 4.0}):
    for mode in ('fwd', 'rev'):
        p = om.Problem()
        p.model.add_subsystem('d', om.IndepVarComp('x', 1.0))
        p.model.add_subsystem('c', om.ExecComp('y = 5*a', y=dict(kw)))
        p.model.connect('d.x', 'c.a')
        p.model.add_design_var('d.x'); p.model.add_objective('c.y')
        p.model.linear_solver = om.LinearRunOnce()
        p.setup(mode=mode); p.run_model()
        print(kw, mode, p.compute_totals(return_format='array').ravel(), p.get_val('c.y'))
