"""C20 implementation side: the real determine_adder_scaler, Autoscaler and Driver API on small real
problems, plus the property's oracle in exact rational arithmetic on the numbers the code returns."""
import warnings
from fractions import Fraction

import numpy as np

from implutil import main, q, err

warnings.simplefilter('ignore')
import openmdao.api as om  # noqa: E402
from openmdao.utils.general_utils import determine_adder_scaler  # noqa: E402
from openmdao.drivers.autoscalers.autoscaler import Autoscaler  # noqa: E402
from openmdao.utils.units import unit_conversion  # noqa: E402

INF = Fraction(1e30)      # INF_BOUND as the code sees it


def F(x):
    return Fraction(float(x))


def fr(v):
    """JSON rational [n, d] (or 'inf'/'-inf') -> Fraction / float inf"""
    return Fraction(v[0], v[1])


def py(v):
    """JSON scaling quantity (None | [n,d] | {'a': [[n,d],...]}) -> None / float / ndarray"""
    if v is None:
        return None
    if isinstance(v, dict):
        return np.array([float(fr(e)) for e in v['a']])
    return float(fr(v))


def fracs(v, size):
    """JSON scaling quantity -> list of `size` Fractions (None stays None)"""
    if v is None:
        return None
    if isinstance(v, dict):
        return [fr(e) for e in v['a']]
    return [fr(v)] * size


def qv(x):
    a = np.atleast_1d(np.asarray(x, dtype=float)).ravel()
    return [q(v) for v in a]


def sv_res(x):
    return q(x) if np.isscalar(x) else [q(v) for v in np.asarray(x).ravel()]


def declared_map(spec, size):
    """(adder_k, scaler_k) per element implied by the user's declaration, exactly"""
    ref0, ref = fracs(spec.get('ref0'), size), fracs(spec.get('ref'), size)
    adder, scaler = fracs(spec.get('adder'), size), fracs(spec.get('scaler'), size)
    if ref0 is not None or ref is not None:
        ref0 = ref0 or [Fraction(0)] * size
        ref = ref or [Fraction(1)] * size
        return [-r0 for r0 in ref0], [1 / (r - r0) for r, r0 in zip(ref, ref0)]
    return adder or [Fraction(0)] * size, scaler or [Fraction(1)] * size


class Aff(om.ExplicitComponent):
    def initialize(self):
        for k in ('A', 'b', 'c', 'd', 'units'):
            self.options.declare(k)

    def setup(self):
        A = self.options['A']
        m, n = A.shape
        u = self.options['units']
        self.add_input('x', np.zeros(n), units=u)
        self.add_output('y', np.zeros(m), units=u)
        self.add_output('z', 0.0, units=u)
        self.declare_partials('y', 'x', val=A)
        self.declare_partials('z', 'x', val=self.options['c'].reshape(1, n))

    def compute(self, inputs, outputs):
        outputs['y'] = self.options['A'] @ inputs['x'] + self.options['b']
        outputs['z'] = self.options['c'] @ inputs['x'] + self.options['d']


def scal_kwargs(spec):
    kw = {}
    for k in ('ref0', 'ref', 'adder', 'scaler', 'lower', 'upper', 'equals'):
        if spec.get(k) is not None:
            kw[k] = py(spec[k])
    if spec.get('units'):
        kw['units'] = spec['units']
    if spec.get('idx') is not None:
        kw['indices'] = list(spec['idx'])
    return kw


def build(c):
    A = np.array([[float(fr(v)) for v in row] for row in c['A']])
    b = np.array([float(fr(v)) for v in c['b']])
    cc = np.array([float(fr(v)) for v in c['c']])
    x0 = np.array([float(fr(v)) for v in c['x']])
    p = om.Problem()
    p.model.add_subsystem('ivc', om.IndepVarComp('x', x0, units=c['src_units']), promotes=['*'])
    p.model.add_subsystem('f', Aff(A=A, b=b, c=cc, d=float(fr(c['d'])), units=c['src_units']), promotes=['*'])
    p.model.add_design_var('x', **scal_kwargs(c['dv']))
    p.model.add_constraint('y', **scal_kwargs(c['con']))
    okw = scal_kwargs(c['obj'])
    p.model.add_objective('z', **okw)
    p.driver = om.ScipyOptimizeDriver()
    p.setup()
    p.final_setup()
    p.run_model()
    return p, A, b, cc, x0


def close(a, b, tol):
    if tol is None:
        return a == b
    return abs(a - b) <= tol * max(1, abs(a), abs(b))


def handle_prob(c):
    fails = []
    tol = None if c['kind'] == 'prob' else Fraction(1, 10**9)
    p, A, b, cc, x0 = build(c)
    dr = p.driver
    n, m = len(x0), len(b)
    didx = c['dv'].get('idx') if c['dv'].get('idx') is not None else list(range(n))
    ridx = c['con'].get('idx') if c['con'].get('idx') is not None else list(range(m))
    xu = dr.get_design_var_values(driver_scaling=False)['x'].copy()
    xs = dr.get_design_var_values(driver_scaling=True)['x'].copy()
    yu = dr.get_constraint_values(driver_scaling=False)['y'].copy()
    ys = dr.get_constraint_values(driver_scaling=True)['y'].copy()
    zu = dr.get_objective_values(driver_scaling=False)['z'].copy()
    zs = dr.get_objective_values(driver_scaling=True)['z'].copy()
    lo_d, up_d, _ = dr._autoscaler.get_bounds_scaling('design_var')
    lo_c, up_c, eq_c = dr._autoscaler.get_bounds_scaling('constraint')
    lo_d, up_d = lo_d['x'].copy(), up_d['x'].copy()
    lo_c, up_c, eq_c = lo_c['y'].copy(), up_c['y'].copy(), eq_c['y'].copy()
    Ju = p.compute_totals(driver_scaling=False)            # the driver's own responses and design vars
    Js = p.compute_totals(driver_scaling=True)
    Jd = dr._compute_totals(return_format='flat_dict', driver_scaling=True)
    Ju = {k: np.array(v) for k, v in Ju.items()}
    Js = {k: np.array(v) for k, v in Js.items()}
    Jd = {k: np.array(v) for k, v in Jd.items()}
    # a subset / another order of the driver's responses, still with driver scaling
    Jsub = {}
    for of in (['y'], ['z'], ['y', 'z']):
        for k, v in p.compute_totals(of=of, wrt=['x'], driver_scaling=True).items():
            Jsub[tuple(of), k] = np.array(v)

    # ---- oracle -------------------------------------------------------------------------
    def unit_tuple(spec):
        if not spec.get('units') or spec['units'] == c['src_units']:
            return Fraction(1), Fraction(0)
        f, o = unit_conversion(c['src_units'], spec['units'])
        return F(f), F(o)

    xm = [F(v) for v in p.get_val('x', units=c['src_units'])]
    ym = [F(v) for v in p.get_val('y', units=c['src_units'])]
    zm = [F(v) for v in np.atleast_1d(p.get_val('z', units=c['src_units']))]
    sets = [('design_var x', c['dv'], [xm[i] for i in didx], xu, xs, lo_d, up_d, None),
            ('constraint y', c['con'], [ym[i] for i in ridx], yu, ys, lo_c, up_c, eq_c),
            ('objective z', c['obj'], zm, zu, zs, None, None, None)]
    maps = {}
    for label, spec, vm, vu, vs, lo, up, eq in sets:
        size = len(vm)
        f, o = unit_tuple(spec)
        a, s = declared_map(spec, size)
        maps[label] = (f, o, a, s)
        for k in range(size):
            want_u = (vm[k] + o) * f
            if not close(F(vu[k]), want_u, tol):
                fails.append(('value-units', '%s[%d]: driver-unit value %r, model value converted is %s' % (
                    label, k, vu[k], float(want_u))))
            want_s = (F(vu[k]) + a[k]) * s[k]
            if not close(F(vs[k]), want_s, tol):
                fails.append(('value-scaled', '%s[%d]: scaled value %r, image of %r under the declared map is %s' % (
                    label, k, vs[k], vu[k], float(want_s))))
        for name, arr, is_lower in (('lower', lo, True), ('upper', up, False), ('equals', eq, False)):
            if arr is None:
                continue
            bound = fracs(spec.get(name), size)
            for k in range(size):
                got = arr[k]
                if name != 'equals' and s[k] < 0:
                    # a negative scaler reverses the order: the scaled lower bound is the image of the
                    # upper bound (-1e30 when there is none) and vice versa
                    other = fracs(spec.get('upper' if is_lower else 'lower'), size)
                    sent = -INF if is_lower else INF
                    if other is None or (other[k] >= INF if is_lower else other[k] <= -INF):
                        wantq = sent
                    else:
                        wantq = (other[k] + a[k]) * s[k]
                    if np.isnan(got) or not close(F(got), wantq, tol):
                        fails.append(('bound-image', '%s %s[%d] (negative scaler): scaled bound %r, image of the declared %s bound is %s' % (
                            label, name, k, got, 'upper' if is_lower else 'lower', float(wantq))))
                    continue
                if bound is None:
                    if name == 'equals':
                        ok = np.isnan(got)
                    else:
                        ok = F(got) == (-INF if is_lower else INF)
                    want = 'nan' if name == 'equals' else ('-1e30' if is_lower else '1e30')
                else:
                    v = bound[k]
                    inf = (v <= -INF) if is_lower else (v >= INF)
                    wantq = (-INF if is_lower else INF) if inf else (v + a[k]) * s[k]
                    ok = (not np.isnan(got)) and close(F(got), wantq, tol)
                    want = float(wantq)
                if not ok:
                    fails.append(('bound-image', '%s %s[%d]: scaled bound %r, image of the declared bound is %s' % (
                        label, name, k, got, want)))
    # jacobian blocks: model block (the declared partials) times response scaling over design scaling
    fd, od, ad, sd = maps['design_var x']
    for of, label, rows, Mrows in (('y', 'constraint y', ridx, A), ('z', 'objective z', [0], cc.reshape(1, -1))):
        f_r, o_r, a_r, s_r = maps[label]
        for i, ri in enumerate(rows):
            for j, dj in enumerate(didx):
                base = F(Mrows[ri][dj])
                want_u = base * f_r / fd
                want_s = base * (s_r[i] * f_r) / (sd[j] * fd)
                if not close(F(Ju[of, 'x'][i][j]), want_u, tol):
                    fails.append(('jac-units', 'd%s/dx[%d,%d] driver_scaling=False: %r, model block in driver units is %s' % (
                        of, i, j, Ju[of, 'x'][i][j], float(want_u))))
                for nm, JJ in (('Problem.compute_totals', Js), ('Driver._compute_totals', Jd)):
                    if not close(F(JJ[of, 'x'][i][j]), want_s, tol):
                        fails.append(('jac-scaled', '%s d%s/dx[%d,%d]: %r, response scaling * model block / design scaling is %s' % (
                            nm, of, i, j, JJ[of, 'x'][i][j], float(want_s))))
                for (ofl, key), blk in Jsub.items():
                    if key == (of, 'x') and not close(F(blk[i][j]), want_s, tol):
                        fails.append(('jac-scaled-subset', 'compute_totals(of=%s, wrt=[x], driver_scaling=True) d%s/dx[%d,%d]: %r, '
                                      'response scaling * model block / design scaling is %s' % (
                                          list(ofl), of, i, j, blk[i][j], float(want_s))))
    # unscaling returns exactly the model values: write the scaled values back
    vec = dr._vectors['design_var']
    vec.set_data(xs.copy(), driver_scaling=True)
    dr._set_design_vars()
    after = p.get_val('x', units=c['src_units']).copy()
    for k in range(n):
        if not close(F(after[k]), xm[k], tol):
            fails.append(('unscale-roundtrip', 'x[%d] = %r after writing its own scaled value back (was %s)' % (
                k, after[k], float(xm[k]))))
    # a new optimizer vector
    xnew = np.array([float(fr(v)) for v in c['xnew']])
    vec.set_data(xnew.copy(), driver_scaling=True)
    dr._set_design_vars()
    after = p.get_val('x', units=c['src_units']).copy()
    back = [after[i] for i in didx]
    for k, i in enumerate(didx):
        want = (F(xnew[k]) / sd[k] - ad[k]) / fd - od
        if not close(F(back[k]), want, tol):
            fails.append(('unscale', 'x[%d] = %r after setting scaled %r; inverse of the declared map gives %s' % (
                i, back[k], xnew[k], float(want))))
    if c['kind'] == 'prob':
        res = [qv(xu), qv(xs), qv(yu), qv(ys),
               [qv(lo_d), qv(up_d), None],
               [qv(lo_c), qv(up_c), None if c['con'].get('equals') is None else qv(eq_c)],
               [qv(r) for r in Ju['y', 'x']], [qv(r) for r in Js['y', 'x']], qv(back)]
    else:
        res = '__none__'
    return res, fails


def handle_lagr(c):
    """the same problem, sitting at a KKT point with active equality constraints, under two scalings:
    the multipliers reported in model units must agree"""
    fails = []
    out = []
    for key in ('s1', 's2'):
        cc = dict(c)
        cc.update(c[key])
        p, A, b, cvec, x0 = build(cc)
        try:
            adv, acon = p.driver.compute_lagrange_multipliers(driver_scaling=False, use_sparse_solve=False)
        except Exception as e:   # noqa
            fails.append(('multipliers-raise', 'compute_lagrange_multipliers raises %s: %s under scaling %s' % (
                type(e).__name__, str(e)[:100], {k: cc[k] for k in ('dv', 'con', 'obj')})))
            return '__none__', fails
        out.append(({k: v['multipliers'] for k, v in adv.items()}, {k: v['multipliers'] for k, v in acon.items()}))
    (d1, c1), (d2, c2) = out
    for nm, m1, m2 in (('design var', d1, d2), ('constraint', c1, c2)):
        if sorted(m1) != sorted(m2):
            fails.append(('multipliers-active-set', '%s active sets differ: %s vs %s' % (nm, sorted(m1), sorted(m2))))
            continue
        for k in m1:
            if not np.allclose(m1[k], m2[k], rtol=1e-8, atol=1e-9):
                fails.append(('multipliers-depend-on-scaling', '%s %s multipliers %s under scaling 1, %s under scaling 2' % (
                    nm, k, m1[k], m2[k])))
    return '__none__', fails


def handle_kkt(c):
    """design variables exactly on their bounds (scaled), active constraint elements: the active sets
    found by _get_active_cons_and_dvs and the multipliers reported in model units must be the exact ones
    under every scaling"""
    fails = []
    exp = c['expect']
    want_dv = np.array([float(fr(v)) for v in exp['dv_mult']])
    want_con = np.array([float(fr(v)) for v in exp['con_mult']])
    for t, sc in enumerate(c['scalings']):
        cc = dict(c)
        cc.update(sc)
        shown = {k: {kk: vv for kk, vv in sc[k].items() if kk in ('scaler', 'adder', 'ref', 'ref0')} for k in ('dv', 'con', 'obj')}
        p, A, b, cvec, x0 = build(cc)
        try:
            acons, advs = p.driver._get_active_cons_and_dvs(feas_atol=1e-6, feas_rtol=1e-6)
            got_dv = sorted(int(i) for i in advs['x']['indices']) if 'x' in advs else []
            got_con = sorted(int(i) for i in acons['y']['indices']) if 'y' in acons else []
            if got_dv != sorted(exp['dv_active']):
                fails.append(('active-set', 'active design-variable elements %s, exactly on a bound are %s (scaling %d: %s)' % (
                    got_dv, sorted(exp['dv_active']), t, shown)))
            if got_con != sorted(exp['con_active']):
                fails.append(('active-set', 'active constraint elements %s, exactly active are %s (scaling %d: %s)' % (
                    got_con, sorted(exp['con_active']), t, shown)))
            for sparse in (False,):
                adv, acon = p.driver.compute_lagrange_multipliers(driver_scaling=False, use_sparse_solve=sparse)
                md = adv['x']['multipliers'] if 'x' in adv else np.zeros(len(want_dv))
                mc = acon['y']['multipliers'] if 'y' in acon else np.zeros(len(want_con))
                if not np.allclose(md, want_dv, rtol=1e-8, atol=1e-9):
                    fails.append(('multipliers-depend-on-scaling', 'bound multipliers of x in model units %s, exact KKT multipliers %s (scaling %d: %s)' % (
                        md, want_dv, t, shown)))
                if not np.allclose(mc, want_con, rtol=1e-8, atol=1e-9):
                    fails.append(('multipliers-depend-on-scaling', 'multipliers of y in model units %s, exact KKT multipliers %s (scaling %d: %s)' % (
                        mc, want_con, t, shown)))
        except Exception as e:   # noqa
            fails.append(('multipliers-raise', 'raises %s: %s (scaling %d: %s)' % (type(e).__name__, str(e)[:120], t, shown)))
    return '__none__', fails


def handle(c):
    kind = c['kind']
    fails = []
    if kind == 'das':
        args = [py(c[k]) for k in ('ref0', 'ref', 'adder', 'scaler')]
        try:
            a, s = determine_adder_scaler(*args)
            res = [sv_res(a), sv_res(s)]
            if c['ref0'] is not None or c['ref'] is not None:
                size = max([len(v['a']) for v in (c['ref0'], c['ref']) if isinstance(v, dict)] + [1])
                r0 = fracs(c['ref0'], size) or [Fraction(0)] * size
                r1 = fracs(c['ref'], size) or [Fraction(1)] * size
                aa = [F(v) for v in np.broadcast_to(np.atleast_1d(a), (size,))]
                ss = [F(v) for v in np.broadcast_to(np.atleast_1d(s), (size,))]
                for k in range(size):
                    if (r0[k] + aa[k]) * ss[k] != 0 or (r1[k] + aa[k]) * ss[k] != 1:
                        fails.append(('ref-map', 'ref0=%s ref=%s -> adder %s scaler %s: T(ref0)=%s T(ref)=%s' % (
                            r0[k], r1[k], aa[k], ss[k], (r0[k] + aa[k]) * ss[k], (r1[k] + aa[k]) * ss[k])))
        except ValueError:
            res = err(1)
        except ZeroDivisionError:
            res = err(2)
    elif kind == 'bound':
        size = c['size']
        val = py(c['val'])
        arr = Autoscaler()._scale_bound(val, py(c['adder']), py(c['scaler']), size, c['is_lower'])
        res = qv(arr)
        bound = fracs(c['val'], size)
        a = fracs(c['adder'], size) or [Fraction(0)] * size
        s = fracs(c['scaler'], size) or [Fraction(1)] * size
        sent = -INF if c['is_lower'] else INF
        for k in range(size):
            v = sent if bound is None else bound[k]
            inf = (v <= -INF) if c['is_lower'] else (v >= INF)
            want = sent if inf else (v + a[k]) * s[k]
            if F(arr[k]) != want:
                fails.append(('bound-image', '_scale_bound[%d] = %r, image is %s' % (k, arr[k], float(want))))
    elif kind == 'mult':
        p, A, b, cvec, x0 = build(c)
        n, m = len(x0), len(b)
        dm = {'x': np.array([float(fr(v)) for v in c['dv_mult']])}
        cm = {'y': np.array([float(fr(v)) for v in c['con_mult']])}
        try:
            d2, c2 = p.driver._autoscaler.apply_mult_unscaling(dm, cm)
            res = [qv(d2['x']), qv(c2['y'])]
            _, sd = declared_map(c['dv'], len(dm['x']))
            _, sc = declared_map(c['con'], len(cm['y']))
            _, so = declared_map(c['obj'], 1)
            for nm, got, lam, sg in (('x', d2['x'], c['dv_mult'], sd), ('y', c2['y'], c['con_mult'], sc)):
                for k in range(len(lam)):
                    want = fr(lam[k]) * sg[k] / so[0]
                    if F(got[k]) != want:
                        fails.append(('multiplier-unscale', '%s[%d]: %r, (s_g/s_f)*lambda is %s' % (nm, k, got[k], float(want))))
        except Exception as e:   # noqa
            res = '__none__'
            fails.append(('multipliers-raise', 'apply_mult_unscaling raises %s: %s' % (type(e).__name__, str(e)[:100])))
    elif kind in ('prob', 'probg'):
        res, fails = handle_prob(c)
    elif kind == 'lagr':
        res, fails = handle_lagr(c)
    elif kind == 'kkt':
        res, fails = handle_kkt(c)
    else:
        raise ValueError(kind)
    if fails:
        return {'res': res, 'ok': False, 'sig': fails[0][0], 'kind': c.get('cls', kind),
                'msg': '; '.join('%s: %s' % f for f in fails[:4])}
    return {'res': res, 'ok': True, 'msg': '', 'sig': '', 'kind': c.get('cls', kind)}


if __name__ == '__main__':
    main(handle)
