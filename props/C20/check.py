"""C20 — driver scaling is an exact, invertible affine map applied consistently."""
import itertools
from fractions import Fraction

import core
from core import Spec, standard_check, qlit, boollit

# exactly convertible units (IEC prefixes are powers of two): source 'byte'
EXACT_UNITS = {None: None, 'byte': None, 'Kibyte': (Fraction(1, 2**10), Fraction(0)),
               'Mibyte': (Fraction(1, 2**20), Fraction(0))}
BIG = int(Fraction(1e30))      # the binary64 value of INF_BOUND = 1e30


def Q(n, d=1):
    f = Fraction(n, d)
    return [f.numerator, f.denominator]


def fr(v):
    return Fraction(v[0], v[1])


def sv_term(v):
    if v is None:
        return 'None'
    if isinstance(v, dict):
        return '(Some (Ar [%s]))' % '; '.join(qlit(fr(e)) for e in v['a'])
    return '(Some (Sc %s))' % qlit(fr(v))


def oq_term(v):
    return 'None' if v is None else '(Some %s)' % qlit(fr(v))


def qs_term(l):
    return '[%s]' % '; '.join(qlit(fr(e)) for e in l)


def voi_term(spec):
    idx = spec.get('idx')
    idx_t = 'None' if idx is None else '(Some [%s])' % '; '.join('%d%%nat' % i for i in idx)
    u = EXACT_UNITS[spec.get('units')]
    u_t = 'None' if u is None else '(Some (%s, %s))' % (qlit(u[0]), qlit(u[1]))
    return '(mkVoi %s %s %s %s %s %s %s %s %s)' % (
        idx_t, u_t, sv_term(spec.get('ref0')), sv_term(spec.get('ref')), sv_term(spec.get('adder')),
        sv_term(spec.get('scaler')), sv_term(spec.get('lower')), sv_term(spec.get('upper')),
        sv_term(spec.get('equals')))


def solve(M, rhs):
    """exact solution of the square system M z = rhs over Fractions, None when singular"""
    n = len(M)
    aug = [list(M[i]) + [rhs[i]] for i in range(n)]
    for col in range(n):
        piv = next((i for i in range(col, n) if aug[i][col] != 0), None)
        if piv is None:
            return None
        aug[col], aug[piv] = aug[piv], aug[col]
        aug[col] = [v / aug[col][col] for v in aug[col]]
        for i in range(n):
            if i != col and aug[i][col] != 0:
                f = aug[i][col]
                aug[i] = [a - f * b for a, b in zip(aug[i], aug[col])]
    return [aug[i][n] for i in range(n)]


class C20(Spec):
    pid = 'C20'
    imports = ['C20.Model']
    impl_script = 'props/C20/impl.py'
    exactness = ('E3 dyadic-exact: scalers +-2^k, ref-ref0 = +-2^k, dyadic adders / values / matrices, '
                 'IEC-prefixed units (factors 2^-10, 2^-20): every float operation of the code is exact and is '
                 'compared exactly with the rational model; a general stream (scalers 3, 0.3, -7, units ft / degC / '
                 'degF ...) and the Lagrange-multiplier runs are checked by the oracle only (1e-9)')
    shard = 400
    impl_jobs = 8
    rule = ('determine_adder_scaler: all None/scalar/array combinations over a small dyadic set; _scale_bound: '
            'None/scalar/array bounds with finite and +-1e30 entries x None/scalar/array adder and scaler x lower/upper; '
            'real problems (IndepVarComp -> affine component, ScipyOptimizeDriver, not run) with random sizes <= 4, '
            'indices, units, scaler/adder/ref/ref0 scalar and per element, bounds / equals: values, bounds and total '
            'jacobians through Driver.get_*_values, get_bounds_scaling, Problem.compute_totals and '
            'Driver._compute_totals, write-back through _set_design_vars; apply_mult_unscaling on given multipliers; '
            'compute_lagrange_multipliers and _get_active_cons_and_dvs at constructed KKT points (equality constraints; scaled design '
            'variables exactly on their bounds with active inequality elements) under two or three scalings against the exact '
            'rational multipliers and active sets. A case is non-trivial when distinct.')
    assumptions = ['unit factors are those of C06 (IEC prefixes exact)',
                   'the optimizer itself is not run; the driver API is exercised on a set-up problem']

    # ---------------------------------------------------------------- generators
    def dy(self, rng, lo=-8, hi=8, den=(1, 1, 2, 4)):
        return Q(rng.randint(lo, hi), rng.choice(den))

    def pow2(self, rng, neg=True):
        k = rng.randint(-3, 3)
        s = Fraction(2) ** k
        if neg and rng.random() < 0.3:
            s = -s
        return [s.numerator, s.denominator]

    def quantity(self, rng, size, gen, p_array=0.5):
        """scalar or per-element array"""
        if size > 1 and rng.random() < p_array or (size == 1 and rng.random() < 0.2):
            return {'a': [gen() for _ in range(size)]}
        return gen()

    def scaling(self, rng, size, exact=True, neg=True):
        """one of: none, scaler, adder, both, ref, ref0, ref+ref0"""
        mode = rng.choice(['none', 'scaler', 'adder', 'both', 'both', 'ref', 'ref0', 'refs', 'refs'])
        sp = {}
        if exact:
            gs = lambda: self.pow2(rng, neg)                 # noqa
            ga = lambda: self.dy(rng)                        # noqa
        else:
            gs = lambda: Q(rng.choice([3, -7, 5, 3, 10]), rng.choice([1, 10, 3]))     # noqa
            ga = lambda: Q(rng.randint(-50, 50), rng.choice([1, 10, 3]))              # noqa
        if mode in ('scaler', 'both'):
            sp['scaler'] = self.quantity(rng, size, gs)
        if mode in ('adder', 'both'):
            sp['adder'] = self.quantity(rng, size, ga)
        if mode in ('ref', 'ref0', 'refs'):
            # ref - ref0 = +-2^k (exact) ; with a single one given the other defaults to 0 / 1
            arr = size > 1 and rng.random() < 0.5
            r0s, rs = [], []
            for _ in range(size if arr else 1):
                d = fr(gs())
                if mode == 'ref':
                    r0, r = Fraction(0), d
                elif mode == 'ref0':
                    r0 = 1 - d
                    r = Fraction(1)
                else:
                    r0 = fr(ga())
                    r = r0 + d
                r0s.append([r0.numerator, r0.denominator])
                rs.append([r.numerator, r.denominator])
            if mode in ('ref', 'refs'):
                sp['ref'] = {'a': rs} if arr else rs[0]
            if mode in ('ref0', 'refs'):
                sp['ref0'] = {'a': r0s} if arr else r0s[0]
        return sp

    def bounds(self, rng, size, allow_equals):
        sp = {}
        if allow_equals and rng.random() < 0.3:
            sp['equals'] = self.quantity(rng, size, lambda: self.dy(rng))
            return sp

        def gl():
            return Q(-BIG) if rng.random() < 0.2 else self.dy(rng, -16, 0)

        def gu():
            return Q(BIG) if rng.random() < 0.2 else self.dy(rng, 1, 16)
        if rng.random() < 0.8:
            sp['lower'] = self.quantity(rng, size, gl)
        if rng.random() < 0.8:
            sp['upper'] = self.quantity(rng, size, gu)
        if 'lower' not in sp and 'upper' not in sp and allow_equals:
            sp['upper'] = gu()
        return sp

    def problem(self, rng, exact=True, force_eq=False):
        n, m = rng.randint(1, 4), rng.randint(1, 3)
        c = {'A': [[self.dy(rng, -3, 3, (1, 1, 2)) for _ in range(n)] for _ in range(m)],
             'b': [self.dy(rng) for _ in range(m)], 'c': [self.dy(rng, -3, 3, (1, 2)) for _ in range(n)],
             'd': self.dy(rng), 'x': [self.dy(rng) for _ in range(n)]}
        if exact:
            c['src_units'] = 'byte'
            units = lambda: rng.choice([None, None, 'byte', 'Kibyte', 'Mibyte'])     # noqa
        else:
            c['src_units'] = rng.choice(['m', 'K', 'kg'])
            fam = {'m': [None, 'ft', 'km', 'inch', 'm'], 'K': [None, 'degC', 'degF', 'degR'], 'kg': [None, 'lb', 'g']}
            units = lambda: rng.choice(fam[c['src_units']])                           # noqa

        def voi(size_all, allow_equals, with_bounds=True, with_idx=True):
            sp = {}
            if with_idx and rng.random() < 0.4:
                k = rng.randint(1, size_all)
                sp['idx'] = rng.sample(range(size_all), k)
            size = len(sp['idx']) if 'idx' in sp else size_all
            sp.update(self.scaling(rng, size, exact))
            if with_bounds:
                sp.update(self.bounds(rng, size, allow_equals))
            sp['units'] = units()
            return sp, size
        c['dv'], nd = voi(n, False)
        c['con'], _ = voi(m, True)
        c['obj'], _ = voi(1, False, with_bounds=False, with_idx=False)
        c['xnew'] = [self.dy(rng) for _ in range(nd)]
        return c

    def gen(self, tier, rng):
        cases = []
        # determine_adder_scaler: scalars exhaustively, arrays sampled
        sc = [None, Q(0), Q(1), Q(-2), Q(1, 2), Q(3), Q(5, 4)]
        for r0, r, a, s in itertools.product(sc, sc, [None, Q(0), Q(3, 2), Q(-1)], [None, Q(1), Q(4), Q(-1, 2)]):
            if r0 is not None or r is not None:
                d = fr(r if r is not None else Q(1)) - fr(r0 if r0 is not None else Q(0))
                if d != 0 and (abs(d).numerator & (abs(d).numerator - 1) or abs(d).denominator & (abs(d).denominator - 1)):
                    continue        # 1/(ref-ref0) would not be exact
            cases.append({'kind': 'das', 'cls': 'das-scalar', 'ref0': r0, 'ref': r, 'adder': a, 'scaler': s})
        for _ in range(300 if tier == 'quick' else 3000):
            size = rng.randint(1, 4)
            sp = self.scaling(rng, size)
            if rng.random() < 0.1:
                sp['adder'] = self.dy(rng)         # both families given -> ValueError
                sp.setdefault('ref', Q(2))
            cases.append({'kind': 'das', 'cls': 'das-array', 'ref0': sp.get('ref0'), 'ref': sp.get('ref'),
                          'adder': sp.get('adder'), 'scaler': sp.get('scaler')})
        # _scale_bound
        for _ in range(1200 if tier == 'quick' else 15000):
            size = rng.randint(1, 4)
            is_lower = rng.random() < 0.5
            kind = rng.random()

            def gv():
                t = rng.random()
                if t < 0.2:
                    return Q(-BIG if is_lower else BIG)
                if t < 0.25:
                    return Q(-2 * BIG if is_lower else 2 * BIG)
                if t < 0.3:
                    huge.append(1)
                    return Q(BIG if is_lower else -BIG)       # the "wrong" infinity is an ordinary number
                return self.dy(rng, -16, 16)
            huge = []
            val = None if kind < 0.1 else self.quantity(rng, size, gv)
            # adding a small adder to 1e30 is not exact in binary64: no adder in that case
            adder = None if (huge or rng.random() < 0.3) else self.quantity(rng, size, lambda: self.dy(rng))
            scaler = None if rng.random() < 0.3 else self.quantity(rng, size, lambda: self.pow2(rng))
            cases.append({'kind': 'bound', 'cls': 'scale_bound', 'val': val, 'adder': adder, 'scaler': scaler,
                          'size': size, 'is_lower': is_lower})
        # real problems, exact
        for _ in range(200 if tier == 'quick' else 2600):
            c = self.problem(rng)
            c['kind'], c['cls'] = 'prob', 'problem-exact'
            cases.append(c)
        for _ in range(60 if tier == 'quick' else 600):
            c = self.problem(rng, exact=False)
            c['kind'], c['cls'] = 'probg', 'problem-general(oracle only)'
            cases.append(c)
        # multipliers
        for _ in range(80 if tier == 'quick' else 800):
            c = self.problem(rng)
            nd = len(c['xnew'])
            mc = len(c['con']['idx']) if 'idx' in c['con'] else len(c['b'])
            c['dv_mult'] = [self.dy(rng) for _ in range(nd)]
            c['con_mult'] = [self.dy(rng) for _ in range(mc)]
            c['kind'], c['cls'] = 'mult', 'apply_mult_unscaling'
            cases.append(c)
        for _ in range(25 if tier == 'quick' else 400):
            cases.append(self.lagr_case(rng))
        for _ in range(70 if tier == 'quick' else 700):
            cases.append(self.kkt_case(rng))
        return cases

    def lagr_case(self, rng):
        """2x2 invertible affine map, equality constraint active at x, one problem under two scalings"""
        while True:
            A = [[rng.randint(-3, 3) for _ in range(2)] for _ in range(2)]
            if A[0][0] * A[1][1] - A[0][1] * A[1][0] in (1, -1, 2, -2):
                break
        x = [Fraction(rng.randint(-4, 4)), Fraction(rng.randint(-4, 4))]
        b = [Fraction(rng.randint(-4, 4)) for _ in range(2)]
        y = [A[i][0] * x[0] + A[i][1] * x[1] + b[i] for i in range(2)]
        c = {'kind': 'lagr', 'cls': 'lagrange-multipliers(oracle only)', 'src_units': 'byte',
             'A': [[Q(v) for v in r] for r in A], 'b': [Q(v) for v in b], 'x': [Q(v) for v in x],
             'c': [Q(rng.randint(-3, 3)), Q(rng.randint(1, 3))], 'd': Q(0), 'xnew': [Q(0), Q(0)]}
        for key in ('s1', 's2'):
            dv = self.scaling(rng, 2, neg=False)
            dv.update({'lower': Q(-64), 'upper': Q(64), 'units': None})
            con = self.scaling(rng, 2, neg=False)
            con.update({'equals': {'a': [Q(v) for v in y]}, 'units': None})
            obj = self.scaling(rng, 1)
            for k in ('scaler', 'ref'):       # keep the objective a minimisation: positive slope
                if k in obj and not isinstance(obj[k], dict) and fr(obj[k]) < 0:
                    obj[k] = Q(-fr(obj[k]))
            if 'ref0' in obj or 'ref' in obj:
                obj = {'scaler': self.pow2(rng, neg=False)}
            obj['units'] = None
            c[key] = {'dv': dv, 'con': con, 'obj': obj}
        return c

    def kkt_case(self, rng):
        """A constructed KKT point of  min c.x  s.t. active rows of y = A x + b, x on some of its bounds:
        k >= 1 design variables sit exactly ON a (lower or upper) bound, r = n - k constraint elements are
        active (equality, or an inequality on its bound), optionally one more inactive inequality element.
        The active set is square and invertible, so the multipliers in model units are the unique exact
        rational solution of  c + A_act^T lam_g + E^T lam_b = 0.  The same problem under 3 scalings."""
        n = rng.choice([2, 2, 3])
        k = rng.randint(1, n - 1)
        r = n - k
        bounded = sorted(rng.sample(range(n), k))
        free = [j for j in range(n) if j not in bounded]
        while True:
            Aact = [[rng.randint(-3, 3) for _ in range(n)] for _ in range(r)]
            M = [[Fraction(Aact[i][j]) for j in free] for i in range(r)]
            if solve(M, [Fraction(0)] * r) is not None:
                break
        extra = rng.random() < 0.5
        A = Aact + ([[rng.randint(-3, 3) for _ in range(n)]] if extra else [])
        m = len(A)
        x = [Fraction(rng.randint(-4, 4)) for _ in range(n)]
        b = [Fraction(rng.randint(-4, 4)) for _ in range(m)]
        y = [sum(A[i][j] * x[j] for j in range(n)) + b[i] for i in range(m)]
        cvec = [Fraction(rng.choice([-3, -2, -1, 1, 2, 3])) for _ in range(n)]
        # stationarity: for every design variable j:  c_j + sum_i lam_g,i A[i][j] + lam_b,j = 0
        lam_g = solve([[Fraction(Aact[i][j]) for i in range(r)] for j in free], [-cvec[j] for j in free])
        lam_b = {j: -cvec[j] - sum(lam_g[i] * Aact[i][j] for i in range(r)) for j in bounded}
        # bounds of the design variable (driver units = model units here)
        lower, upper = [], []
        for j in range(n):
            if j in bounded and rng.random() < 0.5:
                lower.append(x[j]); upper.append(x[j] + rng.randint(3, 8))
            elif j in bounded:
                lower.append(x[j] - rng.randint(3, 8)); upper.append(x[j])
            else:
                lower.append(x[j] - rng.randint(3, 8)); upper.append(x[j] + rng.randint(3, 8))
        equality = (not extra) and rng.random() < 0.5
        if equality:
            conb = {'equals': {'a': [Q(v) for v in y]}}
        else:
            lo, up = [], []
            for i in range(m):
                if i < r and rng.random() < 0.5:
                    lo.append(y[i]); up.append(y[i] + rng.randint(3, 8))
                elif i < r:
                    lo.append(y[i] - rng.randint(3, 8)); up.append(y[i])
                else:
                    lo.append(y[i] - rng.randint(3, 8)); up.append(y[i] + rng.randint(3, 8))
            conb = {'lower': {'a': [Q(v) for v in lo]}, 'upper': {'a': [Q(v) for v in up]}}
        c = {'kind': 'kkt', 'cls': 'kkt-desvars-on-bounds(oracle only)', 'src_units': 'byte',
             'A': [[Q(v) for v in row] for row in A], 'b': [Q(v) for v in b], 'x': [Q(v) for v in x],
             'c': [Q(v) for v in cvec], 'd': Q(0), 'xnew': [Q(0)] * n,
             'expect': {'dv_active': bounded, 'con_active': list(range(r)),
                        'dv_mult': [Q(lam_b.get(j, 0)) for j in range(n)],
                        'con_mult': [Q(lam_g[i]) if i < r else Q(0) for i in range(m)]},
             'scalings': []}
        for t in range(3):
            if t == 0:
                dv, con, obj = {}, {}, {}
            else:
                dv = self.scaling(rng, n)
                while not any(k_ in dv for k_ in ('scaler', 'ref', 'ref0', 'adder')):
                    dv = self.scaling(rng, n)            # the design variable is always scaled
                con = self.scaling(rng, m)
                obj = self.scaling(rng, 1)
                if 'ref0' in obj or 'ref' in obj or 'adder' in obj:
                    obj = {'scaler': self.pow2(rng)}
            dv = dict(dv, lower={'a': [Q(v) for v in lower]}, upper={'a': [Q(v) for v in upper]}, units=None)
            con = dict(con, units=None, **conb)
            obj = dict(obj, units=None)
            c['scalings'].append({'dv': dv, 'con': con, 'obj': obj})
        return c

    def search_gen(self, tier, rng):
        return self.gen('quick', rng)

    # ---------------------------------------------------------------- model side
    def got_term(self, c):
        k = c['kind']
        if k == 'das':
            args = [c['ref0'], c['ref'], c['adder'], c['scaler']]
            if any(isinstance(a, dict) for a in args):
                return '(run_das_sv %s)' % ' '.join(sv_term(a) for a in args)
            return '(run_das %s)' % ' '.join(oq_term(a) for a in args)
        if k == 'bound':
            return '(run_bound %s %s %s %d%%nat %s)' % (sv_term(c['val']), sv_term(c['adder']), sv_term(c['scaler']),
                                                       c['size'], boollit(c['is_lower']))
        if k == 'mult':
            return '(run_mult %s %s %s %s %s)' % (voi_term(c['dv']), voi_term(c['con']), voi_term(c['obj']),
                                                  qs_term(c['dv_mult']), qs_term(c['con_mult']))
        A = '[%s]' % '; '.join(qs_term(r) for r in c['A'])
        return '(run_prob %s %s %s %s %s %s)' % (A, qs_term(c['b']), qs_term(c['x']), voi_term(c['dv']),
                                                voi_term(c['con']), qs_term(c['xnew']))

    def compare_case(self, c, res):
        return c['kind'] in ('das', 'bound', 'prob', 'mult') and res.get('res', '__none__') != '__none__'

    def kind(self, c, res):
        return c.get('cls')

    def want_term(self, c, res):
        r = res['res']
        if c['kind'] == 'das' and isinstance(r, list):
            # a float result is a scalar, an ndarray a list
            return '(VL [%s])' % '; '.join(core.to_val(x) for x in r)
        return core.to_val(r)

    def shrink(self, c):
        """drop one declaration at a time (ref and ref0 only together: ref - ref0 must stay +-2^k)"""
        if c['kind'] not in ('prob', 'probg', 'mult'):
            return
        for who in ('dv', 'con', 'obj'):
            for keys in (('units',), ('ref0', 'ref'), ('adder',), ('scaler',), ('lower',), ('upper',)):
                if any(c[who].get(k) is not None for k in keys):
                    d = dict(c)
                    d[who] = {k: v for k, v in c[who].items() if k not in keys}
                    d[who].setdefault('units', None)
                    if who == 'con' and not any(d[who].get(k) is not None for k in ('lower', 'upper', 'equals')):
                        continue
                    yield d


def main(tier):
    return standard_check(C20(), tier)
