"""C06 implementation side: the real openmdao.utils.units on the generated cases, plus the property's
oracle evaluated with exact rational arithmetic on the numbers the real code returns."""
import ast
import math
import os
import re
import warnings
from fractions import Fraction

from implutil import main, q, err

warnings.simplefilter('ignore')
import openmdao.utils.units as U  # noqa: E402

INI = os.path.join(os.path.dirname(U.__file__), 'unit_library.ini')
TOL = Fraction(1, 10**12)


def F(x):
    return Fraction(float(x))


def rel_close(a, b, tol=TOL):
    return abs(a - b) <= tol * max(abs(a), abs(b))


def fresh_library():
    with open(INI) as f:
        U.import_library(f)


def compose(t1, t2):
    """(S, D) of x -> ((x + D1) S1 + D2) S2 written as (x + D) S, exactly."""
    (s1, d1), (s2, d2) = t1, t2
    return (s1 * s2, d1 + d2 / s1)


def tuple_close(t, u, scale_off):
    """two conversion tuples describe the same affine map up to binary64 rounding"""
    return rel_close(t[0], u[0]) and abs(t[1] - u[1]) <= TOL * scale_off


def conv(a, b):
    """unit_conversion as exact fractions, or None when it raises TypeError (incompatible)"""
    try:
        f, o = U.unit_conversion(a, b)
    except TypeError:
        return None
    return (F(f), F(o))


def off_scale(ua, ub):
    return abs(F(ua._offset)) + abs(F(ub._offset) * F(ub._factor) / F(ua._factor))


def laws_pair(a, b, vals, fails):
    """compatibility decides convertibility, symmetry, round trip; returns the A->B tuple"""
    ua, ub = U._find_unit(a), U._find_unit(b)
    c = bool(U.is_compatible(a, b))
    if c != bool(U.is_compatible(b, a)):
        fails.append(('compat-symmetry', 'is_compatible(%r,%r)=%s but reversed %s' % (a, b, c, not c)))
    t = conv(a, b)
    if (t is not None) != c:
        fails.append(('compat-decides', 'is_compatible(%r,%r)=%s but unit_conversion %s' % (
            a, b, c, 'succeeds' if t is not None else 'raises TypeError')))
    for v in vals:
        try:
            r = U.convert_units(float(Fraction(*v)), a, b)
            ok = True
        except TypeError:
            ok = False
        if ok != c:
            fails.append(('compat-decides', 'is_compatible(%r,%r)=%s but convert_units %s' % (
                a, b, c, 'succeeds' if ok else 'raises TypeError')))
            break
        if ok and t is not None:
            x = Fraction(*v)
            want = (x + t[1]) * t[0]
            sc = (abs(x) + off_scale(ua, ub)) * abs(t[0])
            if abs(F(r) - want) > TOL * sc:
                fails.append(('convert-vs-tuple', 'convert_units(%s,%r,%r)=%r but tuple gives %s' % (
                    x, a, b, r, float(want))))
    if t is not None:
        tb = conv(b, a)
        if tb is None:
            fails.append(('roundtrip', '%r->%r converts but %r->%r raises' % (a, b, b, a)))
        else:
            rt = compose(t, tb)
            sc = off_scale(ua, ub) + off_scale(ub, ua) / abs(t[0])
            if not tuple_close(rt, (Fraction(1), Fraction(0)), sc):
                fails.append(('roundtrip', '%r->%r->%r is x -> (x + %s) * %s' % (a, b, a, float(rt[1]), float(rt[0]))))
    return t


def law_triple(a, b, c, fails):
    tab, tbc, tac = conv(a, b), conv(b, c), conv(a, c)
    if tab is not None and tbc is not None:
        if tac is None:
            fails.append(('compat-transitive', '%r~%r and %r~%r but %r,%r incompatible' % (a, b, b, c, a, c)))
            return
        ua, ub, uc = U._find_unit(a), U._find_unit(b), U._find_unit(c)
        comp = compose(tab, tbc)
        sc = off_scale(ua, ub) + off_scale(ub, uc) / abs(tab[0]) + off_scale(ua, uc)
        if not tuple_close(comp, tac, sc):
            fails.append(('transitive', '%r->%r->%r = (x+%s)*%s but direct (x+%s)*%s' % (
                a, b, c, float(comp[1]), float(comp[0]), float(tac[1]), float(tac[0]))))


def conv_result(a, b, vals):
    c = bool(U.is_compatible(a, b))
    try:
        f, o = U.unit_conversion(a, b)
    except TypeError:
        return [c, err(3)]
    except ZeroDivisionError:
        return [c, err(4)]
    return [c, q(f), q(o), [q(U.convert_units(float(Fraction(*v)), a, b)) for v in vals]]


# ---------------------------------------------------------------- independent "factor implied by the parts"

AS = re.compile(r'\bas\b')


def leaf_parts(name, table0, prefixes):
    """(factor, powers) of a shipped or prefixed unit name from the library's own parts, exactly"""
    if name in table0:
        u = table0[name]
        return F(u._factor), list(u._powers), F(u._offset)
    base = name[1:].rstrip('_')
    if name[0] in prefixes and base in table0:
        u = table0[base]
        return F(prefixes[name[0]]) * F(u._factor), list(u._powers), Fraction(0)
    if name[0:2] in prefixes and name[2:] in table0:
        u = table0[name[2:]]
        return F(prefixes[name[0:2]]) * F(u._factor), list(u._powers), Fraction(0)
    raise KeyError(name)


def implied(text, table0, prefixes, nbase):
    """exact (factor, powers) implied by the parts of an expression; numbers are dimensionless factors"""
    tree = ast.parse(AS.sub('as_', text.strip()), mode='eval').body

    def go(n):
        if isinstance(n, ast.Name):
            f, p, _ = leaf_parts(n.id, table0, prefixes)
            return ('u', f, p)
        if isinstance(n, ast.Constant):
            return ('n', Fraction(n.value), [0] * nbase)
        if isinstance(n, ast.UnaryOp):
            k, f, p = go(n.operand)
            return (k, None if f is None else -f, p)
        a, b = go(n.left), go(n.right)
        if isinstance(n.op, ast.Mult):
            return ('u' if 'u' in (a[0], b[0]) else 'n', None if None in (a[1], b[1]) else a[1] * b[1],
                    [x + y for x, y in zip(a[2], b[2])])
        if isinstance(n.op, ast.Div):
            return ('u' if 'u' in (a[0], b[0]) else 'n', None if None in (a[1], b[1]) else a[1] / b[1],
                    [x - y for x, y in zip(a[2], b[2])])
        if isinstance(n.op, ast.Pow):
            e = b[1]
            if b[0] != 'n':
                raise KeyError('unit exponent')
            if e.denominator == 1:
                return (a[0], None if a[1] is None else a[1] ** int(e), [x * int(e) for x in a[2]])
            inv = Fraction(int(math.floor(float(1 / e) + 0.5)))   # inverse-integer power
            # the implied factor is the inv-th root of the part's factor (irrational in general): taken in
            # binary64 and compared with the relative tolerance of rel_close
            root = None
            if a[1] is not None and a[1] > 0 and inv != 0:
                root = Fraction(float(a[1]) ** (1.0 / float(inv)))
            return (a[0], root, [Fraction(x) / inv for x in a[2]])
        raise KeyError('op')
    return go(tree)


def is_float_token(t):
    if re.fullmatch(r'-?[0-9]+', t):
        return False
    try:
        float(t)
    except ValueError:
        return False
    return True


def unit_record(s):
    """('ok', unit) | ('none',) | ('raise', exc)"""
    try:
        u = U._find_unit(s)
    except Exception as e:      # noqa
        return ('raise', e)
    if u is None:
        return ('none',)
    return ('ok', u)


def check_simplify(s, u, fails):
    try:
        simp = U.simplify_unit(s)
    except Exception as e:    # noqa
        fails.append(('simplify-raises', 'simplify_unit(%r) raises %s' % (s, type(e).__name__)))
        return '!'
    if simp is not None and simp != s and any(is_float_token(t) for t in re.split(r'\*\*|\*|/', simp)):
        shown = '~'          # a float repr inside the name: str(float) is not modelled
    else:
        shown = simp
    if simp is None:
        if not (rel_close(F(u._factor), Fraction(1)) and F(u._offset) == 0 and not any(u._powers)):
            fails.append(('simplify-none', 'simplify_unit(%r) is None but factor=%r offset=%r powers=%s' % (
                s, u._factor, u._offset, u._powers)))
        return None
    try:
        u2 = U._find_unit(simp)
    except Exception as e:    # noqa
        fails.append(('simplify-not-a-unit', 'simplify_unit(%r) = %r which raises %s: %s' % (
            s, simp, type(e).__name__, str(e)[:80])))
        return shown
    if u2 is None:
        fails.append(('simplify-not-a-unit', 'simplify_unit(%r) = %r which is not a valid unit' % (s, simp)))
        return shown
    if list(u2._powers) != list(u._powers):
        fails.append(('simplify-dimension', 'simplify_unit(%r) = %r: powers %s -> %s' % (s, simp, u._powers, u2._powers)))
    if not rel_close(F(u2._factor), F(u._factor)):
        fails.append(('simplify-factor', 'simplify_unit(%r) = %r: factor %r -> %r' % (s, simp, u._factor, u2._factor)))
    if F(u2._offset) != F(u._offset):
        fails.append(('simplify-offset', 'simplify_unit(%r) = %r: offset %r -> %r' % (s, simp, u._offset, u2._offset)))
    return shown


def handle(c):
    fails = []
    kind = c['kind']
    if kind == 'row':
        a, bs, vals = c['a'], c['bs'], c['vals']
        res, compat = [], []
        for b in bs:
            res.append(conv_result(a, b, vals))
            if laws_pair(a, b, vals, fails) is not None:
                compat.append(b)
        if not U.is_compatible(a, a):
            fails.append(('compat-reflexive', a))
        for i, b in enumerate(compat):
            law_triple(a, b, compat[(i + 1) % len(compat)], fails)
            law_triple(a, b, compat[(i * 7 + 3) % len(compat)], fails)
        u = U._find_unit(a)
        simp = check_simplify(a, u, fails)
        out = [[[int(x) for x in u._powers], q(u._factor), q(u._offset), simp], res]
    else:
        fresh_library()
        table0 = dict(U._UNIT_LIB.unit_table)
        prefixes = dict(U._UNIT_LIB.prefixes)
        nbase = len(U._UNIT_LIB.base_names)
        recs, finds = [], []
        for s in c['es']:
            r = unit_record(s)
            recs.append(r)
            if (r[0] == 'ok' and not (1e-140 < abs(r[1]._factor) < 1e140)) or \
                    (r[0] == 'raise' and isinstance(r[1], (OverflowError, ZeroDivisionError))):
                # the factor left the comfortable binary64 range (underflow to 0.0, overflow to inf):
                # rounding / range of floats is not part of the model, the case is not used
                return {'res': '__none__', 'ok': True, 'msg': '', 'sig': '', 'kind': 'outside-binary64-range(skipped)'}
            if r[0] == 'ok':
                u = r[1]
                simp = check_simplify(s, u, fails)
                try:
                    k, f, p = implied(s, table0, prefixes, nbase)
                except (KeyError, SyntaxError, ZeroDivisionError) as e:
                    fails.append(('accepted-unknown-part', '%r accepted but its parts are not units of the library: %r' % (s, e)))
                else:
                    if [Fraction(x) for x in u._powers] != [Fraction(x) for x in p]:
                        fails.append(('power-law', '%r: powers %s, parts imply %s' % (s, u._powers, [str(x) for x in p])))
                    if f is not None and not rel_close(F(u._factor), f):
                        fails.append(('factor-law', '%r: factor %r, parts imply %r' % (s, u._factor, float(f))))
                if kind == 'seq':
                    finds.append([[int(x) for x in u._powers], q(u._factor), q(u._offset), simp])
            elif r[0] == 'none':
                finds.append(err(1))
            else:
                finds.append(err(2))
        oks = [s for s, r in zip(c['es'], recs) if r[0] == 'ok']
        for s in oks:
            if not U.is_compatible(s, s):
                fails.append(('compat-reflexive', s))
        for i in range(len(oks)):
            for j in range(len(oks)):
                if i != j:
                    laws_pair(oks[i], oks[j], c['vals'], fails)
        if len(oks) >= 3:
            law_triple(oks[0], oks[1], oks[2], fails)
            law_triple(oks[2], oks[0], oks[1], fails)
        if kind == 'seq':
            pair = None
            if len(recs) >= 2 and recs[0][0] == 'ok' and recs[1][0] == 'ok':
                pair = conv_result(c['es'][0], c['es'][1], c['vals'])
            out = [finds, pair]
        else:
            out = '__none__'
    if fails:
        return {'res': out, 'ok': False, 'sig': fails[0][0], 'kind': kind,
                'msg': '; '.join('%s: %s' % f for f in fails[:4])}
    return {'res': out, 'ok': True, 'msg': '', 'sig': '', 'kind': kind}


if __name__ == '__main__':
    main(handle)
