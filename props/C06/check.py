"""C06 — unit conversion is a consistent affine algebra."""
import os
import re
import sys
from fractions import Fraction

import core
from core import Spec, standard_check, qlit

HERE = os.path.dirname(os.path.abspath(__file__))
sys.path.insert(0, HERE)
import translate  # noqa: E402

INI = os.path.join(core.REPO, 'openmdao', 'utils', 'unit_library.ini')
GEN = os.path.join(core.COQ, 'C06', 'GenUnitLib.v')

ROW_VALS = [[-40, 1], [8001, 8]]
SEQ_VALS = [[-5, 2]]

FAMILIES = [
    ['m', 'ft', 'inch', 'mi', 'NM', 'km', 'cm', 'mm', 'ly', 'AU', 'Ang', 'nmi', 'um', 'dam', 'pc'],
    ['s', 'min', 'h', 'd', 'wk', 'ms', 'yr', 'a', 'mo', 'as', 'us', 'ks', 'week', 'year'],
    ['kg', 'g', 'lb', 'lbm', 'oz', 't', 'slug', 'ton', 'mg', 'Da', 'u', 'me'],
    ['N', 'lbf', 'dyn', 'kN', 'mN', 'MN'],
    ['Pa', 'psi', 'bar', 'atm', 'torr', 'kPa', 'psf', 'inHg32', 'mbar', 'hPa', 'MPa'],
    ['J', 'cal', 'Btu', 'eV', 'erg', 'kJ', 'cali', 'MMBtu', 'Eh', 'Ken', 'MJ', 'keV'],
    ['W', 'hp', 'kW', 'MW', 'mW', 'GW'],
    ['K', 'degR', 'degK', 'degC', 'degF', 'mK'],
    ['rad', 'deg', 'rev', 'arc_minute', 'arc_second', 'mrad', 'urad'],
    ['L', 'galUS', 'galUK', 'cup', 'pt', 'qt', 'tsp', 'tbsp', 'floz', 'mL', 'dL'],
    ['Hz', 'Bq', 'kHz', 'MHz', 'rps', 'rpm'],
    ['ha', 'acre', 'b'],
    ['V', 'mV', 'kV'], ['A', 'mA', 'kA'], ['C', 'e', 'mC'], ['mol', 'mmol', 'kmol'],
    ['byte', 'kbyte', 'Kibyte', 'Mibyte', 'Gbyte', 'Eibyte'],
    ['unitless', 'percent', 'drag_count'], ['USD', 'kUSD', 'MUSD'], ['kn', 'knot', 'c0'],
]
FAM_OF = {}
for _f in FAMILIES:
    for _n in _f:
        FAM_OF.setdefault(_n, _f)
IDENT = re.compile(r'[A-Za-z_][A-Za-z0-9_]*')


def render(x):
    """canonical result -> val literal; binary64 values are written m * 2^e (short literals)"""
    if isinstance(x, dict) and 'q' in x:
        n, d = int(x['q'][0]), int(x['q'][1])
        if d & (d - 1) == 0 and n != 0:
            e = -(d.bit_length() - 1)
            while n % 2 == 0:
                n //= 2
                e += 1
            return '(VQ (fq (%d) (%d)))' % (n, e)
        return '(VQ ((%d) # %d))' % (n, d)
    if isinstance(x, (list, tuple)):
        return '(VL [%s])' % '; '.join(render(e) for e in x)
    return core.to_val(x)


class C06(Spec):
    pid = 'C06'
    imports = ['C06.Model', 'C06.GenUnitLib', 'C06.Lib']
    impl_script = 'props/C06/impl.py'
    exactness = ('E1 exact: acceptance class, base-unit powers, compatibility, simplified name string; '
                 'E4 factors relative 1e-12; offsets and converted values absolute 1e-12 x magnitude of the '
                 'operands of the subtraction (unit factors are decimal literals evaluated in binary64 by the '
                 'code and exactly by the model)')
    tol = Fraction(1, 10**12)
    shard = 600
    impl_jobs = 8
    rule = ('every ordered pair of shipped units (one case = one source unit against all shipped units, 2 values), '
            'triples inside every compatibility class; every prefix x every shipped unit name through _find_unit '
            'from a freshly loaded library; random composite expressions (products, quotients, integer powers, '
            'prefixes, integer factors, as/as_, offset units) in sequences of 1-3 look-ups from a fresh library '
            '(the table grows with prefixed units); inverse-integer float powers by the oracle only. '
            'A case is non-trivial when distinct.')
    assumptions = ['string -> AST is Python\'s own parser (the code uses eval); the model starts from the AST',
                   'binary64 rounding of factors is not modelled: 1e-12 relative tolerance on factors',
                   'float exponents and float literals inside composite expressions are outside the model '
                   'grammar (oracle only)']

    def __init__(self):
        self.names = None

    # -- translation
    def translate(self, wd):
        text = translate.generate(INI)          # raises on anything unrecognised -> broken tie
        core.write_if_changed(GEN, text)
        self.names = translate.names_of(INI)
        self.prelude = ('Definition mismatches_tol := mismatches6.\n'
                        'Definition allnames : list string := [%s].\n' % '; '.join('"%s"' % n for n in self.names) +
                        'Definition rvals : list Q := [%s].\n' % '; '.join(qlit(Fraction(*v)) for v in ROW_VALS) +
                        'Definition svals : list Q := [%s].\n' % '; '.join(qlit(Fraction(*v)) for v in SEQ_VALS))
        return []

    # -- generation
    def atom(self, rng, names, prefixes):
        k = rng.random()
        if k < 0.40:
            return rng.choice(['m', 's', 'kg', 'ft', 'N', 'Pa', 'J', 'W', 'K', 'rad', 'deg', 'lb', 'h', 'min', 'L',
                               'mol', 'A', 'V', 'inch', 'lbf', 'psi', 'degR', 'arc_minute', 'byte', 'g', 'd', 'Hz'])
        if k < 0.60:
            return rng.choice(names)
        if k < 0.80:
            return rng.choice(['k', 'm', 'c', 'M', 'u', 'n', 'd', 'da', 'h', 'G', 'Ki', 'Mi', 'p', 'T']) + \
                rng.choice(['m', 's', 'g', 'N', 'Pa', 'J', 'W', 'V', 'Hz', 'L', 'mol', 'rad', 'byte', 'A', 'K', 'W'])
        if k < 0.86:
            return rng.choice(prefixes) + rng.choice(names)
        if k < 0.90:
            return rng.choice(['as', 'as', 'as_'])
        if k < 0.94:
            return rng.choice(['degC', 'degF'])
        return str(rng.choice([1, 2, 3, 4, 10, 12, 60, 100, 1000]))

    def expr(self, rng, depth, names, prefixes):
        if depth == 0 or rng.random() < 0.25:
            return self.atom(rng, names, prefixes)
        a = self.expr(rng, depth - 1, names, prefixes)
        r = rng.random()
        wrap = lambda s: s if IDENT.fullmatch(s) or s.isdigit() or rng.random() < 0.25 else '(' + s + ')'  # noqa
        if r < 0.35:
            return wrap(a) + rng.choice(['*', ' * ']) + wrap(self.expr(rng, depth - 1, names, prefixes))
        if r < 0.70:
            return wrap(a) + rng.choice(['/', ' / ']) + wrap(self.expr(rng, depth - 1, names, prefixes))
        if r < 0.92:
            n = rng.choice([2, 2, 3, -1, -2, 0, 1, 4, -3])
            if '**' in a:        # no power of a power: keeps the factors inside the binary64 range
                return a
            return (a if IDENT.fullmatch(a) or a.isdigit() else '(' + a + ')') + '**' + str(n)
        if r < 0.96:
            return str(rng.choice([1, 1, 2, 1000])) + '/' + wrap(a)
        return wrap(a) + rng.choice(['*', '/']) + str(rng.choice([2, 3, 10, 1000]))

    def variant(self, rng, s):
        def sub(m):
            fam = FAM_OF.get(m.group(0))
            return rng.choice(fam) if fam and rng.random() < 0.8 else m.group(0)
        return IDENT.sub(sub, s)

    def gen(self, tier, rng):
        if self.names is None:
            self.names = translate.names_of(INI)
        names = self.names
        prefixes = [p for p, _ in translate.read_library(INI)[0]]
        cases = []
        for a in names:
            cases.append({'kind': 'row', 'cls': 'row', 'a': a, 'bs': names, 'vals': ROW_VALS})
        # history dependence of acceptance, aliases, specials
        for es in [['km*arc_minute', 'km', 'km*arc_minute'], ['Da', 'u', 'K', 'degK'], ['as', 'm/as', 'as_'],
                   ['1/degC', 'degC', 'degF'], ['mdegC'], ['degC*m'], ['degC**2'], ['m/m'], ['1/s', 'Hz', 'Bq'],
                   ['km/m'], ['ft*s/s', 'ft'], ['kg*m/s**2', 'N', 'lbf'], ['pi*m'], ['m**-2', '1/m**2'],
                   ['dam', 'dm', 'mm'], ['Kibyte', 'kbyte', 'byte'], ['min', 'ha', 'cd'], ['yr', 'a', 'year']]:
            cases.append({'kind': 'seq', 'cls': 'seq-special', 'es': es, 'vals': SEQ_VALS})
        # every prefix x every shipped name
        for p in prefixes:
            for n in names:
                cases.append({'kind': 'seq', 'cls': 'seq-prefix', 'es': [p + n], 'vals': SEQ_VALS})
        count = 1800 if tier == 'quick' else 25000
        for _ in range(count):
            e1 = self.expr(rng, rng.choice([1, 2, 2, 3]), names, prefixes)
            L = rng.choice([1, 2, 2, 3])
            es = [e1]
            for _k in range(L - 1):
                es.append(self.variant(rng, e1) if rng.random() < 0.7 else
                          self.expr(rng, rng.choice([0, 1, 2]), names, prefixes))
            cases.append({'kind': 'seq', 'cls': 'seq-composite', 'es': es, 'vals': SEQ_VALS})
        # inverse-integer float powers: oracle only
        for _ in range(150 if tier == 'quick' else 1500):
            e = self.expr(rng, rng.choice([0, 1, 1, 2]), names, prefixes)
            n = rng.choice([2, 2, 2, 3, 4])
            root = rng.choice(['%r' % (1.0 / n), '(1/%d)' % n, '(1./%d)' % n])
            form = rng.choice(['(%s)**%d' % (e, n), '(%s)**%d' % (e, 2 * n), '%s**%d' % (e, n)])
            cases.append({'kind': 'fpow', 'cls': 'float-power(oracle only)', 'es': ['(%s)**%s' % (form, root)],
                          'vals': SEQ_VALS})
        for c in cases:
            if c['kind'] == 'seq':
                try:
                    c['terms'] = [translate.expr_term(s, allow_float=False) for s in c['es']]
                except translate.Untranslatable:
                    c['kind'] = 'fpow'
                    c['cls'] = 'outside-model-grammar(oracle only)'
        # spread the (heavy) row cases evenly over the shards
        rows = [c for c in cases if c['kind'] == 'row']
        rest = [c for c in cases if c['kind'] != 'row']
        step = max(1, len(rest) // max(1, len(rows)))
        out = []
        for i, c in enumerate(rest):
            if i % step == 0 and rows:
                out.append(rows.pop())
            out.append(c)
        return out + rows

    def search_gen(self, tier, rng):
        return self.gen('quick', rng)

    def terms(self, c):
        """Gallina expressions of a seq case (corpus cases come without them); None = outside the grammar"""
        if 'terms' not in c:
            try:
                c['terms'] = [translate.expr_term(s, allow_float=False) for s in c['es']]
            except translate.Untranslatable:
                c['terms'] = None
        return c['terms']

    def got_term(self, c):
        if c['kind'] == 'row':
            return '(run_row lib "%s" allnames rvals)' % c['a']
        return '(run_seq lib [%s] svals)' % '; '.join(
            '(%s, %s)' % (t, translate.slit(s)) for t, s in zip(c['terms'], c['es']))

    def want_term(self, c, res):
        return render(res['res'])

    def compare_case(self, c, res):
        if c['kind'] == 'seq' and self.terms(c) is None:
            return False
        return c['kind'] in ('row', 'seq') and res.get('res', '__none__') != '__none__'

    def kind(self, c, res):
        k = res.get('kind') if isinstance(res, dict) else None
        return k if k and k.startswith('outside') else c.get('cls')

    def shrink(self, c):
        if c['kind'] == 'row':
            return
        es = c['es']
        if len(es) > 1:
            for k in range(len(es)):
                yield self.retag(dict(c, es=es[:k] + es[k + 1:]))
        for k, s in enumerate(es):
            for m in re.finditer(r'\(([^()]*)\)', s):
                yield self.retag(dict(c, es=es[:k] + [m.group(1)] + es[k + 1:]))
            parts = re.split(r'\s*[*/]\s*(?![*])', s)
            if len(parts) > 1 and '(' not in s:
                for j in range(len(parts)):
                    t = re.sub(r'^\s*[*/]\s*', '', s.replace(parts[j], '', 1)).replace('**', '^').replace(
                        '*/', '/').replace('/*', '*').replace('//', '/').replace('^', '**').strip('*/ ')
                    if t and t != s:
                        yield self.retag(dict(c, es=es[:k] + [t] + es[k + 1:]))

    def retag(self, c):
        c = dict(c)
        c.pop('terms', None)
        if c['kind'] in ('seq',):
            try:
                c['terms'] = [translate.expr_term(s, allow_float=False) for s in c['es']]
            except translate.Untranslatable:
                c['kind'] = 'fpow'
        return c


def main(tier):
    return standard_check(C06(), tier)
