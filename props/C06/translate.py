"""Fail-closed translator  /repo/openmdao/utils/unit_library.ini -> coq/C06/GenUnitLib.v

The file is read with the same RawConfigParser configuration as openmdao.utils.units.import_library
(case-sensitive option names), the [units] entries are split exactly as _update_library does, and
every unit-expression is parsed with Python's own parser (the code uses eval) into the model's
expression type.  Decimal literals are taken from the SOURCE TEXT (exact rationals), `pi` is the
binary64 value of math.pi (exact).  Anything the translator does not recognise raises Untranslatable.
Also used by check.py to turn unit strings of the cases into Gallina expressions.
"""
import ast
import math
import re
from configparser import RawConfigParser
from decimal import Decimal, InvalidOperation
from fractions import Fraction


class Untranslatable(Exception):
    pass


AS_PLACEHOLDER = 'AS9KW9'
_AS = re.compile(r'\bas\b')
_NUM = re.compile(r'^[0-9]+\.?[0-9]*([eE][-+]?[0-9]+)?$|^\.[0-9]+([eE][-+]?[0-9]+)?$')


def qlit(fr):
    fr = Fraction(fr)
    return '((%d) # %d)' % (fr.numerator, fr.denominator)


def slit(s):
    if not re.match(r'^[A-Za-z0-9_ ./*()+-]*$', s):
        raise Untranslatable('unexpected character in %r' % s)
    return '"%s"' % s


def number_text(src, node):
    seg = ast.get_source_segment(src, node)
    if seg is None or not _NUM.match(seg):
        raise Untranslatable('numeric literal %r' % seg)
    return seg


def number_value(n):
    """exact value of a pure-number sub-expression, None when it contains names (or divides by zero)"""
    try:
        if isinstance(n, ast.Constant) and isinstance(n.value, (int, float)) and not isinstance(n.value, bool):
            return Fraction(n.value)
        if isinstance(n, ast.UnaryOp) and isinstance(n.op, ast.USub):
            v = number_value(n.operand)
            return None if v is None else -v
        if isinstance(n, ast.BinOp):
            a, b = number_value(n.left), number_value(n.right)
            if a is None or b is None:
                return None
            if isinstance(n.op, ast.Mult):
                return a * b
            if isinstance(n.op, ast.Div):
                return a / b
            if isinstance(n.op, ast.Pow):
                if b.denominator != 1 or abs(b) > 64:
                    raise Untranslatable('exponent')
                return a ** int(b)
    except ZeroDivisionError:
        return None
    return None


def expr_term(src, allow_float=True, allow_exponent=True):
    """Unit string -> Gallina term of type Model.expr.  The keyword `as` (attoseconds) cannot be parsed
    by Python before the code's own `as` -> `as_` substitution; it is parsed through a placeholder and
    handed to the model as the name "as" (the model performs the substitution itself)."""
    text = _AS.sub(AS_PLACEHOLDER, src.strip())
    try:
        tree = ast.parse(text, mode='eval')
    except SyntaxError as e:
        raise Untranslatable('syntax: %s' % e)

    def go(n):
        if isinstance(n, ast.Name):
            return '(EName %s)' % slit('as' if n.id == AS_PLACEHOLDER else n.id)
        if isinstance(n, ast.Constant):
            if isinstance(n.value, bool) or not isinstance(n.value, (int, float)):
                raise Untranslatable('constant %r' % (n.value,))
            seg = number_text(text, n)
            if isinstance(n.value, int):
                return '(ENum %s true)' % qlit(int(seg))
            if not allow_float or (not allow_exponent and re.search('[eE]', seg)):
                raise Untranslatable('float literal %r outside the grammar' % seg)
            try:
                return '(ENum %s false)' % qlit(Fraction(Decimal(seg)))
            except InvalidOperation:
                raise Untranslatable('numeric literal %r' % seg)
        if isinstance(n, ast.BinOp):
            op = {ast.Mult: 'EMul', ast.Div: 'EDiv', ast.Pow: 'EPow'}.get(type(n.op))
            if op is None:
                raise Untranslatable('operator %s' % type(n.op).__name__)
            if op == 'EPow' and not allow_float:
                v = number_value(n.right)
                if v is not None and v.denominator != 1:
                    raise Untranslatable('non-integral exponent outside the model grammar')
            return '(%s %s %s)' % (op, go(n.left), go(n.right))
        if isinstance(n, ast.UnaryOp) and isinstance(n.op, ast.USub):
            return '(ENeg %s)' % go(n.operand)
        raise Untranslatable('node %s' % type(n).__name__)

    return go(tree.body)


def read_library(path):
    cfg = RawConfigParser()
    cfg.optionxform = lambda s: s
    with open(path) as f:
        cfg.read_file(f)
    if sorted(cfg.sections()) != ['base_units', 'prefixes', 'units']:
        raise Untranslatable('sections %s' % cfg.sections())
    prefixes = []
    for p, val in cfg.items('prefixes'):
        factor = val.partition(',')[0].strip()
        if not _NUM.match(factor):
            raise Untranslatable('prefix %s: %r' % (p, factor))
        prefixes.append((p, Fraction(Decimal(factor))))
    bases = [name.strip() for _, name in cfg.items('base_units')]
    types = [t for t, _ in cfg.items('base_units')]
    for req in ['length', 'mass', 'time', 'temperature', 'angle']:
        if req not in types:
            raise Untranslatable('missing base type %s' % req)
    defs = []
    for name, unit in cfg.items('units'):
        data = [item.strip() for item in unit.split(',')]
        if len(data) == 2:
            defs.append(('expr', name, data[0]))
        elif len(data) == 4:
            factor, base, offset, _ = data
            for t in (factor, offset):
                if not _NUM.match(t.lstrip('-')):
                    raise Untranslatable('offset unit %s: %r' % (name, t))
            defs.append(('offset', name, Fraction(Decimal(factor)), base, Fraction(Decimal(offset))))
        else:
            raise Untranslatable('unit %s has %d fields' % (name, len(data)))
    return prefixes, bases, defs


def names_of(path):
    _, bases, defs = read_library(path)
    return bases + [d[1] for d in defs]


def generate(path):
    prefixes, bases, defs = read_library(path)
    out = ['(* GENERATED on every run by props/C06/translate.py from openmdao/utils/unit_library.ini — do not edit *)',
           'From Coq Require Import ZArith QArith List String.',
           'From OMV Require Import C06.Model.',
           'Import ListNotations.', 'Open Scope string_scope.', '',
           '(* binary64 value of math.pi, exact *)',
           'Definition gen_pi : Q := %s.' % qlit(Fraction(math.pi)), '',
           'Definition gen_prefixes : list (string * Q) := [',
           ';\n'.join('  (%s, %s)' % (slit(p), qlit(v)) for p, v in prefixes), '].', '',
           'Definition gen_bases : list string := [%s].' % '; '.join(slit(b) for b in bases), '',
           'Definition gen_defs : list def := [']
    rows = []
    for d in defs:
        if d[0] == 'expr':
            rows.append('  DExpr %s %s' % (slit(d[1]), expr_term(d[2])))
        else:
            rows.append('  DOffset %s %s %s %s' % (slit(d[1]), qlit(d[2]), expr_term(d[3]), qlit(d[4])))
    out += [';\n'.join(rows), '].', '']
    return '\n'.join(out)
