"""C04 implementation side: builds the generated hierarchy with the real OpenMDAO, checks every input
before every component evaluation (inside solver iterations) and after run_model against the source
output indexed by NumPy through the whole chain and converted by exact rational unit factors."""
import warnings
from fractions import Fraction as F
import numpy as np
from implutil import main, q
from c04common import conversion, prod

warnings.simplefilter('ignore')
import openmdao.api as om   # noqa: E402

LAST = {}      # abs source name -> last computed physical value (ndarray)
LASTD = {}     # abs discrete source name -> last object
CHECKS = []    # failures found at evaluation time
NCHECK = [0]
CUR = {}       # current case bookkeeping
SNAP = {}      # abs input -> source value at the most recent transfer into it
SNAPD = {}     # sink path -> source object at the most recent transfer into it


def py_item(it):
    t = it['t']
    if t == 'int':
        return int(it['v'])
    if t == 'slice':
        return slice(*it['v'])
    return np.array(it['v'], dtype=int)


def py_idx(ix):
    t = ix['t']
    if t == 'tup':
        return tuple(py_item(i) for i in ix['v'])
    if t == 'ell':
        return tuple([py_item(i) for i in ix['pre']] + [Ellipsis] + [py_item(i) for i in ix['post']])
    return py_item(ix)


def om_idx(ix):
    """what the user passes as src_indices"""
    t = ix['t']
    if t == 'int':
        return int(ix['v'])
    if t == 'arr':
        return list(ix['v'])
    return py_idx(ix)


def through_chain(val, chain):
    """the property's reference: NumPy indexing, one level after another"""
    arr = np.asarray(val)
    for lv in chain:
        if lv['rflat']:
            arr = arr.ravel()[py_idx(lv['ix'])]
        else:
            arr = arr[py_idx(lv['ix'])]
        arr = np.atleast_1d(arr)
    return arr


def expected(srcval, inp):
    """exact rational expectation of the input (flat list of Fractions)"""
    vals = through_chain(srcval, inp['chain']).ravel()
    fac, off = conversion(inp['src_units'], inp['units'])
    return [(F(float(v)) + off) * fac for v in vals], (fac != 1 or off != 0 or bool(inp.get('src_scaled')))


def close(got, exp, inexact):
    g = F(float(got))
    if not inexact:
        return g == exp
    return abs(g - exp) <= F(1, 10**12) * max(1, abs(exp))


def ref_value(inp):
    """what the input must hold now: the source's current output; under a Jacobi solver (all transfers
    at the start of the sweep) the source's output at the most recent transfer into this input"""
    if CUR.get('solver') == 'jac' and inp['abs'] in SNAP:
        return SNAP[inp['abs']]
    return LAST[inp['src_abs']]


def check_input(where, inp, got, srcval):
    NCHECK[0] += 1
    exp, inexact = expected(srcval, inp)
    got = np.asarray(got).ravel()
    bad = len(got) != len(exp) or any(not close(g, e, inexact) for g, e in zip(got, exp))
    if bad and len(CHECKS) < 3:
        CHECKS.append('%s: input %s = %s, source %s = %s through %s and units %s->%s gives %s' % (
            where, inp['abs'], got.tolist(), inp['src_abs'], np.asarray(srcval).tolist(),
            [(lv['flat'], repr(om_idx(lv['ix']))) for lv in inp['chain']], inp['src_units'], inp['units'],
            [float(e) for e in exp]))


class Tracked(om.ExplicitComponent):
    """apply_nonlinear evaluates compute() and then puts the old outputs back: the bookkeeping of the
    last computed continuous outputs must follow (discrete outputs are not restored by the framework)"""

    def _apply_nonlinear(self):
        pre = self.pathname + '.'
        saved = {k: np.array(v, copy=True) for k, v in LAST.items() if k.startswith(pre)}
        super()._apply_nonlinear()
        LAST.update(saved)


class Src(Tracked):
    def initialize(self):
        self.options.declare('spec', types=dict)

    def setup(self):
        s = self.options['spec']
        kw = {}
        for key in ('ref', 'ref0', 'res_ref'):
            spec = s.get(key)
            if spec is not None:
                if 's' in spec:
                    kw[key] = float(F(*spec['s']))
                else:
                    kw[key] = np.array([float(F(*v)) for v in spec['a']]).reshape(s['shape'])
        shape = None
        self.add_input('fb', val=0.0)
        if CUR.get('round') == 0 and s.get('shape0'):
            # first round of a 'resize' case: another source shape (no solver scaling)
            shape = s['shape0']
            kw = {}
            self.base = np.array(s['base0'], dtype=float).reshape(shape)
            self.gain = np.zeros(shape)
        else:
            shape = s['shape']
            self.base = np.array(s['base'], dtype=float).reshape(shape)
            self.gain = np.array(s['gain'], dtype=float).reshape(shape)
        self.add_output('y', val=self.base.copy(), units=s['units'], **kw)
        LAST[self.pathname + '.y'] = self.base.copy()
        if s['disc']:
            obj = ('token', s['name'], 0)
            self.add_discrete_output('dout', val=obj)
            LASTD[self.pathname + '.dout'] = obj

    def compute(self, inputs, outputs, discrete_inputs=None, discrete_outputs=None):
        s = self.options['spec']
        fbi = CUR['fb']
        if fbi is not None:
            check_input('before compute of %s' % self.pathname, dict(fbi, abs=self.pathname + '.fb'), inputs['fb'],
                        ref_value(dict(fbi, abs=self.pathname + '.fb')))
        outputs['y'] = self.base + self.gain * inputs['fb'][0]
        LAST[self.pathname + '.y'] = np.array(outputs['y'], copy=True)
        if s['disc']:
            obj = ('token', s['name'], float(inputs['fb'][0]))
            discrete_outputs['dout'] = obj
            LASTD[self.pathname + '.dout'] = obj


class Sink(Tracked):
    def initialize(self):
        self.options.declare('spec', types=dict)

    def setup(self):
        s = self.options['spec']
        for inp in s['inputs']:
            self.add_input(inp['name'], val=np.zeros(inp['shape'] or [1]), units=inp['units'])
        if s['disc_from'] is not None:
            self.add_discrete_input('d', val=('token', '', 0))
        self.add_output('z', val=0.0)

    def compute(self, inputs, outputs, discrete_inputs=None, discrete_outputs=None):
        s = self.options['spec']
        for inp in s['inputs']:
            check_input('before compute of %s' % self.pathname, inp, inputs[inp['name']], ref_value(inp))
        if s['disc_from'] is not None:
            NCHECK[0] += 1
            want = LASTD['%s.dout' % s['disc_from']]
            if CUR.get('solver') == 'jac' and self.pathname in SNAPD:
                want = SNAPD[self.pathname]
            if discrete_inputs['d'] is not want and len(CHECKS) < 3:
                CHECKS.append('before compute of %s: discrete input d is %r, source object is %r' % (
                    self.pathname, discrete_inputs['d'], want))
        outputs['z'] = float(CUR['zc'])


def sink_path(s):
    return {0: '', 1: 'g1.', 2: 'g1.g2.'}[s['depth']] + s['name']


def build(case):
    LAST.clear()
    LASTD.clear()
    del CHECKS[:]
    NCHECK[0] = 0
    p = om.Problem()
    root = p.model
    groups = {0: root}
    for s in case['sources']:
        root.add_subsystem(s['name'], Src(spec=s))
    if any(s['depth'] >= 1 for s in case['sinks']):
        groups[1] = root.add_subsystem('g1', om.Group())
    if any(s['depth'] >= 2 for s in case['sinks']):
        groups[2] = groups[1].add_subsystem('g2', om.Group())
    srcs = {s['name']: s for s in case['sources']}
    autos = {a['name']: a for a in case['autos']}
    promoted_src = {i['src'] for t in case['sinks'] for i in t['inputs'] if i['style'] == 'implicit'}
    for a in case['autos']:
        LAST['_auto.' + a['name']] = np.array(a['vals'], dtype=float).reshape(a['shape'])
    inputs = []
    for s in case['sinks']:
        d = s['depth']
        path = sink_path(s)
        for inp in s['inputs']:
            inp['abs'] = path + '.' + inp['name']
            if inp['style'] == 'auto':
                inp['src_abs'] = '_auto.' + inp['src']
                inp['src_units'] = autos[inp['src']]['units']
                inp['src_shape'] = autos[inp['src']]['shape']
            else:
                inp['src_abs'] = inp['src'] + '.y'
                inp['src_scaled'] = srcs[inp['src']].get('ref') is not None or srcs[inp['src']].get('ref0') is not None
                inp['src_units'] = srcs[inp['src']]['units']
                inp['src_shape'] = srcs[inp['src']]['shape']
            inputs.append(inp)
        groups[d].add_subsystem(s['name'], Sink(spec=s))
    # promotions and connections
    for s in case['sinks']:
        d = s['depth']
        for inp in s['inputs']:
            uniq = '%s_%s' % (s['name'], inp['name'])
            levels = {lv['where']: lv for lv in inp['chain']}
            npro = inp['npro']
            child, cur = s['name'], inp['name']
            # promote through the innermost npro groups: level d first (the group holding the component)
            for k in range(npro):
                lvl = d - k
                gname = {0: 'root', 1: 'g1', 2: 'g2'}[lvl]
                last = (k == npro - 1)
                if lvl == 0 and inp['style'] in ('implicit', 'auto'):
                    new = (inp['src'] + '_y') if inp['style'] == 'implicit' else inp['src']
                else:
                    new = uniq
                kw = {}
                lv = levels.get(gname)
                if lv is not None:
                    kw['src_indices'] = om_idx(lv['ix'])
                    if lv['flat'] is not None:
                        kw['flat_src_indices'] = lv['flat']
                    if inp['style'] == 'auto':
                        kw['src_shape'] = tuple(lv['in_shape'])
                groups[lvl].promotes(child, inputs=[(cur, new) if cur != new else cur], **kw)
                child, cur = {1: 'g1', 2: 'g2'}.get(lvl, None), new
            if inp['style'] == 'connect':
                if npro > 0:             # promoted name lives in the group at level d - npro + 1
                    tgt = {1: 'g1.', 2: 'g1.g2.'}[d - npro + 1] + cur
                else:
                    tgt = sink_path(s) + '.' + inp['name']
                kw = {}
                lv = levels.get('connect')
                if lv is not None:
                    kw['src_indices'] = om_idx(lv['ix'])
                    if lv['flat'] is not None:
                        kw['flat_src_indices'] = lv['flat']
                root.connect(inp['src'] + ('_y' if inp['src'] in promoted_src else '.y'), tgt, **kw)
        if s['disc_from'] is not None:
            root.connect(s['disc_from'] + '.dout', sink_path(s) + '.d')
    for s in case['sources']:
        if any(i['style'] == 'implicit' and i['src'] == s['name'] for i in inputs):
            root.promotes(s['name'], outputs=[('y', s['name'] + '_y')])
    for a in case['autos']:
        if a['defaults']:
            root.set_input_defaults(a['name'], val=np.array(a['vals'], dtype=float).reshape(a['shape']),
                                    units=a['units'])
    # feedback: the first sink's z drives every source
    fb = None
    if case['sinks']:
        z = sink_path(case['sinks'][0]) + '.z'
        for s in case['sources']:
            root.connect(z, s['name'] + '.fb')
        LAST[z] = np.array([0.0])
        fb = {'abs': 'S.fb', 'src_abs': z, 'chain': [], 'units': None, 'src_units': None}
    CUR['fb'] = fb
    CUR['zc'] = case['zc']
    if case['solver'] == 'nlbgs':
        root.nonlinear_solver = om.NonlinearBlockGS(maxiter=3, iprint=-1, err_on_non_converge=False,
                                                    atol=1e-300, rtol=1e-300)
    elif case['solver'] == 'jac':
        root.nonlinear_solver = om.NonlinearBlockJac(maxiter=4, iprint=-1, err_on_non_converge=False,
                                                     atol=1e-300, rtol=1e-300)
    return p, inputs


def classify_reject(case):
    """known class (FINDINGS.md, finding 2): a FLAT FULL slice (start None, stop None, step None/1:
    Indexer.is_full_slice) given on a promotes level over an N-D source is treated as "no indices", so
    the promoted node takes the flattened shape; setup then fails either for a sibling promoted to the
    same name or in the shape check of the connection that feeds the promoted node"""
    for t in case['sinks']:
        for i in t['inputs']:
            for lv in i['chain']:
                if lv['where'] != 'connect' and lv['flat'] is True and lv['ix']['t'] == 'slice' \
                        and len(lv['in_shape']) > 1:
                    a, b, c = lv['ix']['v']
                    if a is None and b is None and c in (None, 1):
                        return 'flat-full-slice-on-shared-promoted-name'
    return 'setup-rejected'


def install(p, case, inputs):
    """record, at every transfer of the root group, what each transferred input must now hold"""
    root = p.model
    orig = root._transfer
    fbs = []
    if case['sinks']:
        z = sink_path(case['sinks'][0]) + '.z'
        fbs = [{'abs': s['name'] + '.fb', 'src_abs': z} for s in case['sources']]
    discs = [(sink_path(t), t['disc_from'] + '.dout') for t in case['sinks'] if t['disc_from'] is not None]

    def wrapped(vec_name, mode, sub=None):
        orig(vec_name, mode, sub)
        if vec_name == 'nonlinear' and mode == 'fwd':
            for inp in list(inputs) + fbs:
                if sub is None or inp['abs'].split('.')[0] == sub:
                    SNAP[inp['abs']] = np.array(LAST[inp['src_abs']], copy=True)
            for path, src in discs:
                if sub is None or path.split('.')[0] == sub:
                    SNAPD[path] = LASTD[src]
    root._transfer = wrapped
    if case['sinks']:
        zname = sink_path(case['sinks'][0]) + '.z'
        sink0 = p.model._get_subsystem(sink_path(case['sinks'][0]))
        orig_c = sink0.compute

        def wrapped_c(inputs_, outputs_, *a, **k):
            orig_c(inputs_, outputs_, *a, **k)
            LAST[zname] = np.array(outputs_['z'], copy=True)
        sink0.compute = wrapped_c


def handle(case):
    kind = case['kind']
    SNAP.clear()
    SNAPD.clear()
    CUR['solver'] = case['solver']
    CUR['round'] = 0 if case.get('resize') else 1

    def set_autos(p):
        for a in case['autos']:
            if not a['defaults']:
                p.set_val(a['name'], np.array(a['vals'], dtype=float).reshape(a['shape']), units=a['units'])
    try:
        p, inputs = build(case)
        p.setup()
        set_autos(p)
        p.final_setup()
    except Exception as e:   # every generated chain is valid: a refusal is a failure of the property
        return {'res': {'e': 1}, 'ok': False, 'sig': classify_reject(case), 'kind': kind,
                'msg': 'setup/final_setup raised %s: %s' % (type(e).__name__, str(e)[:600])}
    install(p, case, inputs)
    try:
        if case.get('resize'):
            # a complete first round with another source size, then setup() again
            p.run_model()
            CUR['round'] = 1
            SNAP.clear()
            SNAPD.clear()
            if case['sinks']:
                LAST[sink_path(case['sinks'][0]) + '.z'] = np.array([0.0])
            p.setup()
            set_autos(p)
            p.final_setup()
        p.run_model()
    except Exception as e:
        return {'res': {'e': 2}, 'ok': False, 'sig': 'run-raised', 'kind': kind,
                'msg': 'run_model raised %s: %s' % (type(e).__name__, str(e)[:600])}
    cg = p.model.get_conn_graph()
    res, srcvals = [], []
    invec = p.model._vectors['input']['nonlinear']
    for inp in inputs:
        a = inp['abs']
        if inp['style'] == 'auto':
            srcval = LAST[inp['src_abs']]
            real_src = p.get_val(inp['src'], units=inp['src_units']) if inp['src_units'] else p.get_val(inp['src'])
            if not np.array_equal(np.asarray(real_src).ravel(), srcval.ravel()) and len(CHECKS) < 3:
                CHECKS.append('auto-IVC value of %s is %s, set %s' % (inp['src'], real_src.tolist(), srcval.tolist()))
        else:
            srcval = np.asarray(p.get_val(inp['src_abs']))
            same = (np.allclose(srcval, LAST[inp['src_abs']], rtol=1e-13, atol=1e-13) if inp.get('src_scaled')
                    else np.array_equal(srcval, LAST[inp['src_abs']]))   # scaling round trips are not exact
            if not same and len(CHECKS) < 3:
                CHECKS.append('source %s changed outside its compute' % inp['src_abs'])
        v1 = np.asarray(p.model._inputs[a])
        v2 = np.asarray(p.get_val(a, from_src=False))
        check_input('after run_model (System._inputs)', inp, v1, srcval)
        check_input('after run_model (get_val from_src=False)', inp, v2, srcval)
        sia = cg.get_src_index_array(a)
        n = prod(inp['src_shape'])
        if sia is None:
            pos = list(range(n))
        else:
            pos = [int(x) for x in np.asarray(sia).ravel()]
            if np.ndim(sia) != 1 and len(CHECKS) < 3:
                CHECKS.append('get_src_index_array(%s) has shape %s' % (a, np.shape(sia)))
        # input scaling of the root nonlinear input vector
        sc = getattr(invec, '_scaling', None)
        start, end = invec._views[a].range
        s0 = [0.0] * (end - start)
        s1 = [1.0] * (end - start)
        if sc is not None:
            if sc[0] is not None:
                s1 = [float(x) for x in np.asarray(sc[0])[start:end]]
            if sc[1] is not None:
                s0 = [float(x) for x in np.asarray(sc[1])[start:end]]
        res.append([pos, [q(x) for x in v1.ravel()], [q(x) for x in v1.ravel()], [[q(x) for x in s0], [q(x) for x in s1]]])
        srcvals.append([q(x) for x in np.asarray(srcval).ravel()])
    ok = not CHECKS
    return {'res': res, 'src': srcvals, 'ok': ok, 'msg': '; '.join(CHECKS), 'kind': kind,
            'sig': 'input-differs-from-source' if not ok else '', 'nchecks': NCHECK[0]}


if __name__ == '__main__':
    main(handle)
