"""Shared by check.py (generator / emitter) and impl.py: index grammar helpers, a small pure-Python
evaluator of NumPy basic + one-array indexing (used only to choose valid chains and input shapes;
the truth is NumPy in impl.py and the Coq model), unit table."""
from fractions import Fraction as F

# unit -> (factor to the SI base combination, offset), exact rationals, written down independently of
# openmdao.utils.units from the definitions in unit_library.ini (ft = 0.3048 m, inch = 0.0254 m,
# min = 60 s, h = 3600 s, degC = K + 273.15, degF = degR + 459.67 with degR = 5/9 K)
_FT = F(381, 1250)
_IN = F(127, 5000)
UNITS = {
    'm': (F(1), F(0)), 'km': (F(1000), F(0)), 'cm': (F(1, 100), F(0)), 'ft': (_FT, F(0)), 'inch': (_IN, F(0)),
    's': (F(1), F(0)), 'min': (F(60), F(0)), 'h': (F(3600), F(0)),
    'degK': (F(1), F(0)), 'degC': (F(1), F(27315, 100)), 'degF': (F(5, 9), F(45967, 100)),
    # reciprocal forms
    '1/s': (F(1), F(0)), '1/min': (F(1, 60), F(0)), '1/h': (F(1, 3600), F(0)),
    '1/m': (F(1), F(0)), '1/km': (F(1, 1000), F(0)), '1/ft': (1 / _FT, F(0)),
    # quotients
    'm/s': (F(1), F(0)), 'm/min': (F(1, 60), F(0)), 'km/h': (F(1000, 3600), F(0)), 'ft/s': (_FT, F(0)),
    'km/min': (F(1000, 60), F(0)),
    # powers and products
    'm**2': (F(1), F(0)), 'ft**2': (_FT ** 2, F(0)), 'cm**2': (F(1, 10000), F(0)), 'inch**2': (_IN ** 2, F(0)),
    'm*s': (F(1), F(0)), 'km*min': (F(60000), F(0)), 'ft*h': (_FT * 3600, F(0)),
    'm/s**2': (F(1), F(0)), 'km/min**2': (F(1000, 3600), F(0)), 'ft/s**2': (_FT, F(0)),
}
FAMILIES = [['m', 'km', 'cm', 'ft', 'inch'], ['s', 'min', 'h'], ['degK', 'degC', 'degF'],
            ['1/s', '1/min', '1/h'], ['1/m', '1/km', '1/ft'], ['m/s', 'm/min', 'km/h', 'ft/s', 'km/min'],
            ['m**2', 'ft**2', 'cm**2', 'inch**2'], ['m*s', 'km*min', 'ft*h'],
            ['m/s**2', 'km/min**2', 'ft/s**2']]


def conversion(u_src, u_tgt):
    """(factor, offset) with x_tgt = (x_src + offset) * factor, exact."""
    if u_src is None or u_tgt is None or u_src == u_tgt:
        return F(1), F(0)
    fs, os_ = UNITS[u_src]
    ft, ot = UNITS[u_tgt]
    return fs / ft, os_ - ot * ft / fs


def prod(shape):
    r = 1
    for n in shape:
        r *= n
    return r


def slc(a, b, c):
    return {'t': 'slice', 'v': [a, b, c]}


FULL = slc(None, None, None)


def _axis(n, it):
    t = it['t']
    if t == 'int':
        k = it['v']
        if -n <= k < n:
            return [k % n]
        return None
    if t == 'slice':
        a, b, c = it['v']
        if c == 0:
            return None
        return list(range(n))[slice(a, b, c)]
    if t == 'arr':
        out = []
        for k in it['v']:
            if not (-n <= k < n):
                return None
            out.append(k % n)
        return out
    raise ValueError(t)


def items_of(ix, rank):
    t = ix['t']
    if t == 'tup':
        its = list(ix['v'])
        if len(its) > rank:
            return None
        return its + [FULL] * (rank - len(its))
    if t == 'ell':
        k = len(ix['pre']) + len(ix['post'])
        if k > rank:
            return None
        return list(ix['pre']) + [FULL] * (rank - k) + list(ix['post'])
    if rank < 1:
        return None
    return [ix] + [FULL] * (rank - 1)


def py_index(shape, flat, ix):
    """(flat positions, result shape) of arange(prod shape).reshape(shape)[ix] (ravel first if flat)."""
    shp = [prod(shape)] if flat else list(shape)
    its = items_of(ix, len(shp))
    if its is None:
        return None
    sels = []
    for n, it in zip(shp, its):
        s = _axis(n, it)
        if s is None:
            return None
        sels.append(s)
    pos = [0]
    for n, s in zip(shp, sels):
        pos = [p * n + i for p in pos for i in s]
    rshape = [len(s) for s, it in zip(sels, its) if it['t'] != 'int']
    return pos, rshape


def in_grammar(ix):
    """C05 model grammar: at most one array entry, no int separated from it by a slice."""
    items = ix['v'] if ix['t'] == 'tup' else (ix['pre'] + [FULL] + ix['post'] if ix['t'] == 'ell' else [ix])
    arrs = [k for k, i in enumerate(items) if i['t'] == 'arr']
    if len(arrs) > 1:
        return False
    if arrs:
        ints_ = [k for k, i in enumerate(items) if i['t'] == 'int']
        adv = sorted(arrs + ints_)
        if adv[-1] - adv[0] + 1 != len(adv):
            return False
        if ix['t'] == 'ell' and ints_:
            return False
    return True


def chain_eval(shape, chain):
    """positions and shape after every level; None when some level is invalid"""
    pos = list(range(prod(shape)))
    shp = list(shape)
    for lv in chain:
        r = py_index(shp, lv['rflat'], lv['ix'])
        if r is None:
            return None
        sel, shp = r
        pos = [pos[k] for k in sel]
    return pos, shp


def om_bounds_ok(shape, flat, ix):
    """OpenMDAO's own bounds rules (stricter than NumPy for slices): start in [-n, n-1], stop in [-n, n]"""
    shp = [prod(shape)] if flat else list(shape)
    its = items_of(ix, len(shp))
    if its is None:
        return False
    for n, it in zip(shp, its):
        if it['t'] == 'slice':
            a, b, c = it['v']
            if a is not None and b is not None and a == b:
                continue
            if a is not None and (a >= n or a < -n):
                return False
            if b is not None and (b > n or b < -n):
                return False
    return True
