"""C04 — connected inputs hold their source value with indices and units applied."""
from fractions import Fraction as F
import core
from core import Spec, standard_check, zlist, optlit, boollit, qlit, qlist
from c04common import (FAMILIES, conversion, prod, slc, FULL, py_index, in_grammar, chain_eval, om_bounds_ok)


def item_term(it):
    t = it['t']
    if t == 'int':
        return '(IInt (%d))' % it['v']
    if t == 'slice':
        a, b, c = it['v']
        return '(ISlice (mkslice %s %s %s))' % (optlit(a), optlit(b), optlit(c))
    return '(IArr %s)' % zlist(it['v'])


def idx_term(ix):
    t = ix['t']
    if t == 'tup':
        return '(ITup [%s])' % '; '.join(item_term(i) for i in ix['v'])
    if t == 'ell':
        return '(IEll [%s] [%s])' % ('; '.join(item_term(i) for i in ix['pre']),
                                     '; '.join(item_term(i) for i in ix['post']))
    return '(I1 %s)' % item_term(ix)


def item_class(it):
    if it['t'] == 'slice':
        a, b, c = it['v']
        f = lambda v: 'N' if v is None else ('-' if v < 0 else '+')
        return 's' + f(a) + f(b) + f(c)
    if it['t'] == 'int':
        return 'i' + ('-' if it['v'] < 0 else '+')
    return 'a' + ('-' if any(v < 0 for v in it['v']) else '+')


def idx_class(ix):
    if ix['t'] == 'tup':
        return 'tup(' + ','.join(item_class(i) for i in ix['v']) + ')'
    if ix['t'] == 'ell':
        return 'ell'
    return item_class(ix)


class C04(Spec):
    pid = 'C04'
    imports = ['C05.Model', 'C04.Model']
    impl_script = 'props/C04/impl.py'
    tol = F(1, 10**12)
    exactness = ('E1 flat source positions (get_src_index_array); input values: exact when no unit conversion '
                 '(dyadic data and scalers), relative 1e-12 against exact rational unit factors otherwise (E4)')
    shard = 120
    impl_jobs = 8
    rule = ('generated hierarchies: 1-2 sources of rank 1-3 (extents <= 4, optional units and dyadic ref/ref0), '
            '1-3 sink components at depth 0-2, every input connected by connect(src_indices) + 0-2 promotes levels '
            'with src_indices, or implicitly by promotion, or left to an auto-IVC (with src_shape, shared names, '
            'set_input_defaults); index forms int/slice/array/tuple/ellipsis with negative entries, flat, non-flat '
            'and default flat_src_indices; run-once, NonlinearBlockGS and NonlinearBlockJac iterations with changing '
            'sources; a quarter of the cases first run with another source size and are then set up again; '
            'a case is non-trivial when it is a distinct model')
    assumptions = ['exact rational factors of the 33 unit strings used (prefix, reciprocal, quotient, product, power and offset forms) are written down independently of openmdao.utils.units (C06 covers the unit algebra)',
                   'single process, DefaultTransfer; index grammar of C05 (at most one index array per tuple)']

    def __init__(self):
        self._res = {}

    # ------------------------------------------------------------- generator
    def rnd_item(self, rng, n, allow_arr=True):
        k = rng.random()
        if k < 0.45:
            vals = [None, None] + list(range(-n, n + 1))
            a, b = rng.choice(vals), rng.choice(vals)
            if a is not None and a >= n:
                a = n - 1
            return slc(a, b, rng.choice([None, None, 1, -1, 2, -2]))
        if k < 0.75 or not allow_arr:
            return {'t': 'int', 'v': rng.randrange(-n, n)}
        return {'t': 'arr', 'v': [rng.randrange(-n, n) for _ in range(rng.randrange(1, 4))]}

    def rnd_level(self, rng, shape, where):
        """a random valid level on an array of the given shape, or None"""
        for _ in range(30):
            rank = len(shape)
            fl = rng.choice([None, None, True, False])
            rflat = (rank <= 1) if fl is None else fl
            shp = [prod(shape)] if rflat else shape
            form = rng.choice(['single', 'tup', 'tup', 'ell']) if not rflat else 'single'
            if form == 'single':
                ix = self.rnd_item(rng, shp[0])
            elif form == 'tup':
                L = rng.randrange(1, len(shp) + 1)
                ix = {'t': 'tup', 'v': [self.rnd_item(rng, shp[k]) for k in range(L)]}
            else:
                L = rng.randrange(0, len(shp) + 1)
                npre = rng.randrange(0, L + 1)
                its = [self.rnd_item(rng, shp[k] if k < npre else shp[len(shp) - (L - k)]) for k in range(L)]
                ix = {'t': 'ell', 'pre': its[:npre], 'post': its[npre:]}
            if not in_grammar(ix):
                continue
            r = py_index(shape, rflat, ix)
            if r is None or not r[0]:
                continue
            return {'where': where, 'flat': fl, 'rflat': rflat, 'ix': ix, 'in_shape': list(shape),
                    'out_shape': r[1]}
        return None

    def rnd_units(self, rng):
        if rng.random() < 0.45:
            return None, None
        fam = rng.choice(FAMILIES)
        return rng.choice(fam), rng.choice(fam)

    def gen_case(self, rng, kindhint, resize=False):
        nsrc = rng.choice([1, 1, 2])
        case = {'solver': rng.choice(['runonce', 'nlbgs', 'nlbgs', 'jac']), 'zc': rng.randrange(1, 4),
                'sources': [], 'sinks': [], 'autos': []}
        for k in range(nsrc):
            rank = rng.choice([1, 2, 2, 3])
            shape = [rng.randrange(1, 5) for _ in range(rank)]
            while prod(shape) > 24:
                shape[rng.randrange(rank)] -= 1
            n = prod(shape)
            ref = ref0 = res_ref = None
            if rng.random() < 0.45:
                # scalar / array mixes of ref0, ref, res_ref; positive and negative; a1 = ref - ref0 never 0
                A0 = [F(0), F(1, 2), F(-1), F(3), F(-1, 2)]
                A1 = [F(2), F(4), F(1, 2), F(-2), F(-1), F(1, 4), F(-4), F(3), F(-5)]
                m0 = rng.choice(['none', 'scalar', 'array'])
                m1 = rng.choice(['none', 'scalar', 'array', 'array'])
                if m0 == 'none' and m1 == 'none':
                    m1 = 'array'
                a0 = [F(0)] * n if m0 == 'none' else ([rng.choice(A0)] * n if m0 == 'scalar'
                                                       else [rng.choice(A0) for _ in range(n)])
                if m1 == 'none':
                    rr = [F(1)] * n
                elif m1 == 'scalar':
                    rr = [rng.choice([F(5), F(-5), F(8)])] * n
                else:
                    rr = [a + rng.choice(A1) for a in a0]
                fr = lambda v: [v.numerator, v.denominator]
                if m0 != 'none':
                    ref0 = {'s': fr(a0[0])} if m0 == 'scalar' else {'a': [fr(v) for v in a0]}
                if m1 != 'none':
                    ref = {'s': fr(rr[0])} if m1 == 'scalar' else {'a': [fr(v) for v in rr]}
                mr = rng.choice(['none', 'none', 'scalar', 'array'])
                if mr == 'scalar':
                    res_ref = {'s': fr(rng.choice([F(2), F(-4), F(1, 2)]))}
                elif mr == 'array':
                    res_ref = {'a': [fr(rng.choice([F(2), F(-4), F(1, 2), F(3)])) for _ in range(n)]}
            case['sources'].append({'name': 'S%d' % k, 'shape': shape, 'units': None, 'ref': ref, 'ref0': ref0,
                                    'res_ref': res_ref,
                                    'base': [rng.randrange(-8, 9) for _ in range(n)],
                                    'gain': [rng.randrange(-2, 3) for _ in range(n)],
                                    'disc': rng.random() < 0.25})
        nsink = rng.choice([1, 2, 2, 3])
        nauto = 0
        for j in range(nsink):
            d = rng.choice([0, 1, 1, 2, 2])
            sink = {'name': 'T%d' % j, 'depth': d, 'inputs': [], 'disc_from': None}
            for m in range(rng.choice([1, 1, 2])):
                style = rng.choice(['connect', 'connect', 'connect', 'implicit', 'auto'])
                if kindhint in ('connect', 'implicit', 'auto'):
                    style = kindhint
                inp = {'name': 'x%d' % m, 'style': style}
                if style == 'auto':
                    if case['autos'] and rng.random() < 0.4:
                        au = rng.choice(case['autos'])
                    else:
                        rank = rng.choice([1, 1, 2])
                        shape = [rng.randrange(1, 5) for _ in range(rank)]
                        au = {'name': 'A%d' % nauto, 'shape': shape, 'units': None,
                              'vals': [rng.randrange(-8, 9) for _ in range(prod(shape))],
                              'defaults': rng.random() < 0.5, 'users': 0}
                        nauto += 1
                        case['autos'].append(au)
                    au['users'] += 1
                    inp['src'] = au['name']
                    sshape = au['shape']
                    wheres = ['root', 'g1', 'g2'][:d + 1]
                    inp['npro'] = d + 1
                elif style == 'implicit':
                    src = rng.choice(case['sources'])
                    inp['src'] = src['name']
                    sshape = src['shape']
                    wheres = ['root', 'g1', 'g2'][:d + 1]
                    inp['npro'] = d + 1
                else:
                    src = rng.choice(case['sources'])
                    inp['src'] = src['name']
                    sshape = src['shape']
                    npro = rng.randrange(0, d + 1)
                    inp['npro'] = npro
                    # promotes levels used: the innermost npro groups of [g1, g2][:d]
                    wheres = ['connect'] + ['g1', 'g2'][:d][d - npro:]
                chain, shp = [], list(sshape)
                for w in wheres:
                    if not shp:
                        break          # scalar result: nothing left to index
                    if rng.random() < (0.8 if w == 'connect' else 0.55):
                        lv = self.rnd_level(rng, shp, w)
                        if lv is not None:
                            chain.append(lv)
                            shp = lv['out_shape']
                inp['chain'] = chain
                inp['shape'] = list(shp) if shp else [1]
                inp['units'] = None
                sink['inputs'].append(inp)
            discs = [s['name'] for s in case['sources'] if s['disc']]
            if discs and rng.random() < 0.6:
                sink['disc_from'] = rng.choice(discs)
            case['sinks'].append(sink)
        # units: per source a family; inputs take units of the same family (or none)
        for s in case['sources'] + case['autos']:
            users = [i for t in case['sinks'] for i in t['inputs'] if i['src'] == s['name']]
            if rng.random() < 0.6:
                fam = rng.choice(FAMILIES)
                s['units'] = rng.choice(fam)
                for i in users:
                    i['units'] = rng.choice(fam) if rng.random() < 0.85 else None
            elif rng.random() < 0.3:
                fam = rng.choice(FAMILIES)      # source without units, some inputs with units
                for i in users:
                    i['units'] = rng.choice(fam) if rng.random() < 0.4 else None
        # an auto-IVC shared by inputs with different units needs set_input_defaults
        for a in case['autos']:
            users = [i for t in case['sinks'] for i in t['inputs'] if i['src'] == a['name']]
            if len(users) > 1 or a['units'] is not None:
                a['defaults'] = True
            if a['units'] is None and any(i['units'] for i in users):
                a['units'] = users[0]['units'] or [i['units'] for i in users if i['units']][0]
                a['defaults'] = True
        # 'resize': a first complete round with another source size, then setup() again.  The other
        # size must admit the same chains with the same input shapes.
        case['resize'] = False
        if resize:
            for s in case['sources']:
                users = [i for t in case['sinks'] for i in t['inputs']
                         if i['style'] != 'auto' and i['src'] == s['name']]
                if not users or not any(i['chain'] for i in users):
                    continue
                for _ in range(12):
                    alt = list(s['shape'])
                    ax = rng.randrange(len(alt))
                    alt[ax] = max(1, alt[ax] + rng.choice([-2, -1, 1, 2, 3]))
                    if alt == s['shape']:
                        continue
                    okk = True
                    for i in users:
                        shp = alt
                        for lv in i['chain']:
                            r = py_index(shp, lv['rflat'], lv['ix'])
                            if r is None or r[1] != lv['out_shape'] or not om_bounds_ok(shp, lv['rflat'], lv['ix']):
                                okk = False
                                break
                            shp = r[1]
                        if okk and (list(shp) or [1]) != i['shape']:
                            okk = False
                        if not okk:
                            break
                    if okk:
                        s['shape0'] = alt
                        s['base0'] = [rng.randrange(-8, 9) for _ in range(prod(alt))]
                        case['resize'] = True
                        break
        styles = sorted({i['style'] for t in case['sinks'] for i in t['inputs']})
        nlev = max(len(i['chain']) for t in case['sinks'] for i in t['inputs'])
        case['kind'] = '%s:%s:levels%d%s' % ('+'.join(styles), case['solver'], nlev,
                                             ':resize' if case['resize'] else '')
        return case

    def gen(self, tier, rng):
        n = 550 if tier == "quick" else 8000
        cases = []
        for k in range(n):
            hint = [None, None, 'connect', 'implicit', 'auto'][k % 5]
            cases.append(self.gen_case(rng, hint, resize=(k % 4 == 1)))
        return cases

    def search_gen(self, tier, rng):
        return self.gen(tier, rng)

    # ------------------------------------------------------------- emitters
    def compare_case(self, case, res):
        self._res[id(case)] = res
        return isinstance(res.get('res'), list)

    def inputs_of(self, case):
        srcs = {s['name']: s for s in case['sources']}
        autos = {a['name']: a for a in case['autos']}
        out = []
        for t in case['sinks']:
            for i in t['inputs']:
                s = autos[i['src']] if i['style'] == 'auto' else srcs[i['src']]
                out.append((i, s))
        return out

    def got_term(self, case):
        res = self._res[id(case)]
        terms = []
        for k, (i, s) in enumerate(self.inputs_of(case)):
            chain = '[%s]' % '; '.join('(%s, %s)' % (boollit(lv['rflat']), idx_term(lv['ix'])) for lv in i['chain'])
            src = '[%s]' % '; '.join('((%d) # %d)' % tuple(v['q']) for v in res['src'][k])
            n = prod(s['shape'])

            def expand(spec, dflt):
                if spec is None:
                    return [dflt] * n
                if 's' in spec:
                    return [F(*spec['s'])] * n
                return [F(*v) for v in spec['a']]
            a0s = expand(s.get('ref0'), F(0))
            a1s = [r - a for r, a in zip(expand(s.get('ref'), F(1)), a0s)]
            fac, off = conversion(s['units'], i['units'])
            terms.append('(run_input %s %s %s %s %s %s %s)' % (zlist(s['shape']), chain, src, qlist(a0s), qlist(a1s),
                                                             qlit(fac), qlit(off)))
        return '(VL [%s])' % '; '.join(terms)

    def shrink(self, c):
        # drop a sink, then drop one level of one chain
        if len(c['sinks']) > 1:
            for k in range(1, len(c['sinks'])):
                yield dict(c, sinks=c['sinks'][:k] + c['sinks'][k + 1:])


def main(tier):
    return standard_check(C04(), tier)
