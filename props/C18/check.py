"""C18 -- case recordings survive a crash at any point as a consistent prefix."""
import json
import os
import random
import sys

sys.path.insert(0, os.path.dirname(os.path.abspath(__file__)))
import core  # noqa: E402
from core import Verdict, proof_gate, run_impl, coq_mismatches, coq_show, to_val, workdir, seed_from_env  # noqa: E402
import kmodels  # noqa: E402

PID = 'C18'
IMPL = 'props/C18/impl.py'

CT = {'driver': 'TDriver', 'system': 'TSystem', 'solver': 'TSolver', 'problem': 'TProblem'}
TN = {'global_iterations': 'NGlobal', 'driver_iterations': '(NCase TDriver)', 'system_iterations': '(NCase TSystem)',
      'solver_iterations': '(NCase TSolver)', 'problem_cases': '(NCase TProblem)', 'driver_derivatives': 'NDeriv',
      'metadata': 'NMeta', 'driver_metadata': 'NDrvMeta', 'system_metadata': 'NSysMeta',
      'solver_metadata': 'NSolMeta'}


def stmt_term(t):
    k = t[0]
    if k == 'B':
        return 'SBegin'
    if k == 'C':
        return 'SCommit'
    if k == 'R':
        return 'SRollback'
    if k == 'T':
        return '(SCreate %s)' % TN[t[1]] if t[1] in TN else 'SOther'
    if k == 'X':
        return 'SIndex'
    if k == 'IM':
        return 'SInsertMeta'
    if k == 'UM':
        return 'SUpdateMeta'
    if k == 'IC':
        return '(SInsertCase %s (%d))' % (CT[t[1]], t[2])
    if k == 'IG':
        return '(SInsertGlobal %s (%d))' % (CT[t[1]], t[2])
    if k == 'IA':
        return '(SInsertAux %s)' % TN[t[1]]
    return 'SOther'


def got_term(res):
    parts = []
    for tr, ks in zip(res['traces'], res['ks']):
        parts.append('(c18_run [%s] [%s])' % ('; '.join(stmt_term(t) for t in tr),
                                              '; '.join('%d%%nat' % k for k in ks)))
    return '(VL [%s])' % '; '.join(parts)


def gen_case(rng, tier, big=False):
    spec = kmodels.gen_spec(rng, ncomp=(1, 3), sizes=(1, 2), nl_iters=rng.choice([2, 3]))
    dvs = spec['dvs']
    dtype = rng.choice(['none', 'none', 'doe', 'doe', 'slsqp']) if dvs else 'none'
    n = spec['comps'][0]['n']
    driver = {'type': dtype}
    if dtype == 'doe':
        driver['points'] = [[[d['name'], [rng.choice([-1, 0.5, 2, 3])] * n] for d in dvs]
                            for _ in range(rng.randint(2, 4 if not big else 7))]
    if dtype == 'slsqp':
        driver['maxiter'] = rng.randint(2, 3)
    runs = []
    if dtype == 'none':
        for _ in range(rng.randint(1, 3)):
            runs.append('model')
            if rng.random() < 0.5:
                runs.append('record:p%d' % len(runs))
    else:
        if rng.random() < 0.3:
            runs.append('model')
        runs.append('driver')
        if rng.random() < 0.5:
            runs.append('record:final')
        if rng.random() < 0.2:
            runs.append('driver')
    nfiles = 2 if rng.random() < 0.2 else 1
    f = lambda: rng.randrange(nfiles)   # noqa: E731
    attach = {'problem': None, 'driver': None, 'systems': {}, 'solvers': {}}
    if any(r.startswith('record:') for r in runs):
        attach['problem'] = f()
    if dtype != 'none' or rng.random() < 0.5:
        attach['driver'] = f()
    if rng.random() < 0.6:
        attach['systems'][''] = f()
    for c in spec['comps']:
        if rng.random() < 0.3:
            attach['systems'][c['path']] = f()
        g = c['path'].rpartition('.')[0]
        if g and rng.random() < 0.2:
            attach['systems'][g] = f()
    if spec.get('coupled') and rng.random() < 0.7:
        attach['solvers'][''] = f()
    if attach['problem'] is None and attach['driver'] is None and not attach['systems'] and not attach['solvers']:
        attach['systems'][''] = f()
    # renumber the files that are really used
    used = sorted({attach[k] for k in ('problem', 'driver') if attach[k] is not None} |
                  set(attach['systems'].values()) | set(attach['solvers'].values()))
    ren = {u: i for i, u in enumerate(used)}
    for k in ('problem', 'driver'):
        if attach[k] is not None:
            attach[k] = ren[attach[k]]
    attach['systems'] = {p: ren[i] for p, i in attach['systems'].items()}
    attach['solvers'] = {p: ren[i] for p, i in attach['solvers'].items()}
    nfiles = len(used)
    return {'spec': spec, 'driver': driver, 'runs': runs, 'nfiles': nfiles, 'attach': attach,
            'record_derivatives': dtype == 'slsqp' and rng.random() < 0.7,
            'viewer': rng.random() < 0.8, 'real_kills': 1 if tier == 'quick' else 2,
            'sigkills': 1 if tier == 'quick' else 2,
            'seed': rng.randrange(10 ** 6)}


def gen_big(rng, tier):
    """one recorded case larger than SQLite's page cache (2 MB): its transaction spills to the database file
    before COMMIT, so a death between the INSERT and the COMMIT leaves a hot journal that the reader has to roll
    back; the process is really killed at each of those boundaries"""
    spec = kmodels.gen_spec(rng, ncomp=(1, 1), sizes=(1,), groups=False, implicit=False, promote=False)
    big = 100000
    for c in spec['comps']:
        c['n'] = big
    spec['init'] = {k: 2.3 for k in spec['init']}      # 17 significant digits per number in the JSON text
    return {'spec': spec, 'driver': {'type': 'none'}, 'runs': ['driver', 'driver'], 'nfiles': 1,
            'attach': {'problem': None, 'driver': 0, 'systems': {}, 'solvers': {}}, 'record_derivatives': False,
            'viewer': False, 'real_kills': 4, 'kill_inside_txn': 4, 'sigkills': 2 if tier == 'quick' else 3,
            'seed': rng.randrange(10 ** 6), 'big': True}


def gen(tier, rng):
    n = 11 if tier == 'quick' else 32
    out = [gen_case(rng, tier, big=(tier != 'quick')) for _ in range(n)]
    rb = random.Random(rng.randrange(10 ** 9))
    return [gen_big(rb, tier) for _ in range(1 if tier == 'quick' else 2)] + out


RULE = ('generated recorded runs (models of 1-3 components, optional groups/coupling; run_model / DOEDriver / '
        'ScipyOptimizeDriver sequences; recorders on problem, driver, systems, solvers, one or two files); every '
        'SQL statement boundary of every run is a crash point: the bytes of the database and its rollback journal '
        'as the operating system holds them at that boundary (copied from inside the sqlite trace callback) are '
        'what a process death there leaves; a sample of boundaries per run is re-run in a child process that '
        'really dies there (os._exit inside the trace callback; exit after the last statement without close) and '
        'children are SIGKILLed at random times; an evaluation is one (run, crash point, file) triple read back '
        'with the real CaseReader')

ASSUMPTIONS = [
    'SQLite atomic commit / rollback-journal recovery after a process death (not modelled: journal, fsync, torn '
    'pages, power loss); the crash enumeration exercises it with real process deaths but only at process level',
    '"after the recorder started" = after the first startup() has committed its UPDATE of the metadata row; crash '
    'points before that are outside the precondition (such files have no cases and may not open); they are still '
    'compared with the model',
    'Python sqlite3 default transaction control (implicit BEGIN before INSERT/UPDATE, none before DDL)',
]


def main(tier):
    seed = seed_from_env()
    rng = random.Random(seed * 1000003 + sum(map(ord, PID)))
    wd = workdir(PID, tier)
    v = Verdict(PID, tier, seed)
    v.cov['rule'] = RULE
    v.assumptions = list(ASSUMPTIONS)
    gate = proof_gate(PID, wd)
    v.add_proof(gate)

    cases = core.load_corpus(PID) + gen(tier, rng)
    ok = run_cases(v, wd, cases, 'impl')
    if ok and v.broken and not v.violations:
        # a proof or the correspondence broke: search for a failing input with the oracle
        rng2 = random.Random(seed + 77)
        run_cases(v, wd, gen('thorough' if tier == 'quick' else tier, rng2)[:40], 'search', compare=False)
    return v.finish()


def run_parallel(cases, wd, tag):
    """core.run_impl gives one process per 50 cases; here one case is a few hundred reader checks"""
    import concurrent.futures as cf
    jobs = max(1, min(core.NCPU, 8, len(cases)))
    chunks = [cases[j::jobs] for j in range(jobs)]
    with cf.ThreadPoolExecutor(max_workers=jobs) as ex:
        futs = [ex.submit(run_impl, IMPL, ch, wd, '%s%d' % (tag, j), 1100, 1) for j, ch in enumerate(chunks)]
        outs = [f.result() for f in futs]
    if any(o[0] is None for o in outs):
        return None, '\n'.join(o[1] for o in outs)
    res = [None] * len(cases)
    for j, o in enumerate(outs):
        res[j::jobs] = o[0]
    return res, ''


def run_cases(v, wd, cases, tag, compare=True):
    results, log = run_parallel(cases, wd, tag)
    if results is None:
        v.broke('correspondence:implementation-run-failed')
        v.cov['broken_detail'] = log[-3000:]
        return False
    got, want, idx = [], [], []
    tot = {'crash_points': 0, 'prestart': 0, 'sigkill': 0, 'real_kills': 0, 'nstmt': 0, 'distinct_file_states': 0,
           'hot_journals': 0, 'hot_journals_real_kill': 0,
           'cases_listed': 0}
    for i, (c, r) in enumerate(zip(cases, results)):
        st = r.get('stats', {})
        for k in tot:
            tot[k] += st.get(k, 0)
        tot['cases_listed'] += sum(r.get('ncases', []))
        nev = max(1, (st.get('crash_points', 0) + st.get('real_kills', 0) + st.get('sigkill', 0)) * c['nfiles'])
        for j in range(nev):
            v.count_case({'case': i, 'point': j, 'scenario': c} if j == 0 else {'case': i, 'point': j, 'tag': tag,
                                                                               'seed': c.get('seed')},
                         True, r.get('kind'))
        if not r.get('ok', True):
            v.failing(r.get('sig') or 'crash-prefix', c, r.get('msg', ''))
        if r.get('res', '__none__') != '__none__':
            idx.append(i)
            got.append(got_term(r))
            want.append(to_val(r['res']))
    v.cov.setdefault('stats', {})[tag] = tot
    if compare and idx:
        bad, errors, cmd = coq_mismatches(wd, ['C18.Model'], got, want, shard=2, tag='cases_' + tag)
        v.add_correspondence('wf_trace(real statement stream) = true, counters_ok, and reader_view(db_after_crash '
                             'trace k) = what the real CaseReader lists after a death at k, for every k',
                             tot['crash_points'] + tot['real_kills'] + tot['sigkill'], len(bad),
                             'E1 (integer-exact: table, row id, counter of every listed case)', cmd)
        if errors:
            v.broke('correspondence:model-evaluation-failed')
            v.cov['broken_detail'] = json.dumps(errors[:2])[-3000:]
        if bad:
            v.broke('correspondence:model-vs-implementation (%d of %d runs differ)' % (len(bad), len(idx)))
            b = idx[bad[0]]
            v.cov['broken_detail'] = json.dumps({
                'scenario': cases[b], 'implementation': results[b]['res'],
                'model': coq_show(wd, ['C18.Model'], [got_term(results[b])])[-3000:]})[-8000:]
    return True


def replay(rep):
    c = rep.get('case')
    if not c:
        print(json.dumps(rep, indent=1)[:3000])
        return 0
    wd = workdir(PID, 'replay')
    res, log = run_impl(IMPL, [c], wd, tag='replay', jobs=1)
    print(json.dumps({'ok': res[0].get('ok'), 'msg': res[0].get('msg')} if res else {'log': log[-2000:]}, indent=1))
    return 0 if res and res[0].get('ok') else 1
