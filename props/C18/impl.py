"""C18 implementation side: real SqliteRecorder runs, killed at every SQL statement boundary and at random
times, then read back with the real CaseReader.

For one case (a generated recorded scenario):
  1. full run in a child process with sqlite3.Connection.set_trace_callback installed on the recorder's
     connections (the recorder module's `sqlite3.connect` is wrapped from here; nothing in /repo changes);
     the expanded statement stream is logged;
  2. for every k, the scenario is re-run in a fresh child that os._exit()s inside the trace callback when
     statement k is about to execute (statements 0..k-1 have run) -- and a "k = n" child that exits right
     after the last statement without closing anything; a few children are SIGKILLed at random times;
  3. after each death the file is opened with the real CaseReader: the oracle (the property's text) is
     evaluated -- the file opens, lists exactly a prefix of the complete run's cases, each one readable
     and equal to the complete run's case -- and the listing is returned for the comparison with the
     Coq model's prediction reader_view (db_after_crash trace k).
"""
import json
import os
import random
import re
import shutil
import signal
import sqlite3
import sys
import time
import warnings

warnings.simplefilter('ignore')
sys.path.insert(0, os.path.dirname(os.path.abspath(__file__)))
import numpy as np  # noqa: E402
import openmdao.api as om  # noqa: E402
import openmdao.recorders.sqlite_recorder as sr  # noqa: E402
from implutil import main  # noqa: E402
import kmodels  # noqa: E402

TABLES = {'driver_iterations': 'driver', 'system_iterations': 'system', 'solver_iterations': 'solver',
          'problem_cases': 'problem'}
TCODE = {'driver': 0, 'system': 1, 'solver': 2, 'problem': 3}
AUX = ('driver_metadata', 'system_metadata', 'solver_metadata', 'driver_derivatives')


# --------------------------------------------------------------------------- tracing (child side)

class _Tracer:
    def __init__(self, log_path, kill_at, snapdir=None):
        self.fd = os.open(log_path, os.O_WRONLY | os.O_CREAT | os.O_APPEND, 0o644)
        self.kill_at = kill_at
        self.n = 0
        self.files = {}
        self.snapdir = snapdir
        self.paths = []

    def snapshot(self, k):
        """copy the recorder files (database + rollback journal) exactly as the operating system holds them
        at this instant: the bytes a process death at this statement boundary leaves behind"""
        d = os.path.join(self.snapdir, 'k%d' % k)
        os.makedirs(d, exist_ok=True)
        for p in self.paths:
            dn, bn = os.path.split(p)
            for f in os.listdir(dn or '.'):
                if f.startswith(bn):
                    try:
                        shutil.copyfile(os.path.join(dn, f), os.path.join(d, f))
                    except OSError:
                        pass

    def connect(self, path, *a, **k):
        con = sqlite3.connect(path, *a, **k)
        m = re.search(r'rec(\d+)\.sql$', str(path))
        fidx = int(m.group(1)) if m else self.files.setdefault(os.path.basename(str(path)), 50 + len(self.files))
        if os.path.abspath(str(path)) not in self.paths:
            self.paths.append(os.path.abspath(str(path)))

        def cb(stmt, fidx=fidx):
            if self.kill_at is not None and self.n == self.kill_at:
                os._exit(17)           # dies before statement number kill_at executes
            if self.snapdir is not None:
                self.snapshot(self.n)
            os.write(self.fd, (json.dumps([fidx, stmt[:400]]) + '\n').encode())
            self.n += 1
        con.set_trace_callback(cb)
        return con


class _Sqlite3Proxy:
    """stands in for the `sqlite3` module inside openmdao.recorders.sqlite_recorder"""
    def __init__(self, tracer):
        self._t = tracer

    def __getattr__(self, name):
        return getattr(sqlite3, name)

    def connect(self, *a, **k):
        return self._t.connect(*a, **k)


def make_driver(d):
    if d['type'] == 'doe':
        return om.DOEDriver(om.ListGenerator([[(n, np.array(v, dtype=float)) for n, v in pt] for pt in d['points']]))
    if d['type'] == 'slsqp':
        return om.ScipyOptimizeDriver(optimizer='SLSQP', disp=False, maxiter=d.get('maxiter', 4))
    return None


def run_scenario(case):
    """build, attach recorders, run.  Returns the problem (caller decides how to end)."""
    spec = case['spec']
    p = kmodels.build(spec, make_driver(case['driver']))
    recs = [om.SqliteRecorder('./rec%d.sql' % i, record_viewer_data=case.get('viewer', True))
            for i in range(case['nfiles'])]
    at = case['attach']
    if at.get('problem') is not None:
        p.add_recorder(recs[at['problem']])
    if at.get('driver') is not None:
        p.driver.add_recorder(recs[at['driver']])
        if case.get('record_derivatives'):
            p.driver.recording_options['record_derivatives'] = True
    p.setup()
    for path, i in at.get('systems', {}).items():
        s = p.model if path == '' else p.model._get_subsystem(path)
        s.add_recorder(recs[i])
        s.recording_options['record_inputs'] = True
        s.recording_options['record_residuals'] = True
    for path, i in at.get('solvers', {}).items():
        s = p.model if path == '' else p.model._get_subsystem(path)
        s.nonlinear_solver.add_recorder(recs[i])
        s.nonlinear_solver.recording_options['record_solver_residuals'] = True
    kmodels.set_init(p, spec)
    for j, r in enumerate(case['runs']):
        if r == 'model':
            p.run_model(case_prefix='m%d' % j)
        elif r == 'driver':
            p.run_driver(case_prefix='d%d' % j)
        elif r.startswith('record:'):
            p.record(r[7:])
    return p


def child(case, outdir, kill_at, exit_at_end):
    """never returns"""
    try:
        import gc
        gc.freeze()
        os.chdir(outdir)
        dn = os.open(os.devnull, os.O_WRONLY)
        os.dup2(dn, 1)
        os.dup2(dn, 2)
        tracer = _Tracer('trace.log', kill_at)
        sr.sqlite3 = _Sqlite3Proxy(tracer)
        p = run_scenario(case)
        if exit_at_end:
            os._exit(18)       # dies after the last statement, nothing closed
        p.cleanup()
        os._exit(0)
    except BaseException as e:   # noqa
        try:
            with open('child_error.txt', 'w') as f:
                import traceback
                f.write(traceback.format_exc())
        finally:
            os._exit(3)


def spawn(case, outdir, kill_at=None, exit_at_end=False, sigkill_after=None):
    os.makedirs(outdir, exist_ok=True)
    pid = os.fork()
    if pid == 0:
        child(case, outdir, kill_at, exit_at_end)
    if sigkill_after is not None:
        time.sleep(sigkill_after)
        try:
            os.kill(pid, signal.SIGKILL)
        except ProcessLookupError:
            pass
    _, status = os.waitpid(pid, 0)
    if os.WIFSIGNALED(status):
        return -os.WTERMSIG(status)
    return os.WEXITSTATUS(status)


# --------------------------------------------------------------------------- trace parsing

def tokenize(stmt):
    s = stmt.strip()
    u = s.upper()
    if u.startswith('BEGIN'):
        return ['B']
    if u.startswith('COMMIT'):
        return ['C']
    if u.startswith('ROLLBACK'):
        return ['R']
    m = re.match(r'CREATE TABLE (\w+)\s*\(', s)
    if m:
        return ['T', m.group(1)]
    if u.startswith('CREATE INDEX'):
        return ['X']
    if s.startswith('INSERT INTO metadata('):
        return ['IM']
    if s.startswith('UPDATE metadata SET abs2prom=') and 'conns=' in stmt[:400] or \
            re.match(r'UPDATE metadata SET abs2prom=', s):
        return ['UM']
    m = re.match(r'INSERT INTO (\w+)\s*\(counter,.*?VALUES\((\d+),', s, re.S)
    if m and m.group(1) in TABLES:
        return ['IC', TABLES[m.group(1)], int(m.group(2))]
    m = re.match(r"INSERT INTO global_iterations\(record_type, rowid, source\) VALUES\('(\w+)',(\d+),", s)
    if m and m.group(1) in TCODE:
        return ['IG', m.group(1), int(m.group(2))]
    m = re.match(r'INSERT INTO (\w+)\s*\(', s)
    if m and m.group(1) in AUX:
        return ['IA', m.group(1)]
    return ['O', s[:80]]


def read_trace(outdir, nfiles):
    """-> list of (file index, token) in global order"""
    out = []
    p = os.path.join(outdir, 'trace.log')
    if not os.path.exists(p):
        return out
    for line in open(p):
        try:
            fidx, stmt = json.loads(line)
        except ValueError:
            break          # torn last line of a killed child
        out.append((fidx, tokenize(stmt)))
    return out


def started_index(tokens):
    """number of statements after which the recorder has started: the first committed UPDATE metadata"""
    seen = False
    for i, t in enumerate(tokens):
        if t[0] == 'UM':
            seen = True
        if seen and t[0] == 'C':
            return i + 1
    return None


def committed_cases(tokens):
    """python twin of the model's committed_globals (only used to place a SIGKILL on the k axis)"""
    n, pend, intx = 0, 0, False
    for t in tokens:
        if t[0] == 'B':
            intx, pend = True, 0
        elif t[0] == 'C':
            n += pend
            intx, pend = False, 0
        elif t[0] == 'IG':
            if intx:
                pend += 1
            else:
                n += 1
    return n


# --------------------------------------------------------------------------- reading back

def digest_case(c):
    def vec(d):
        if d is None:
            return None
        out = {}
        for k in d.keys():
            a = np.asarray(d[k])
            out[k] = [list(a.shape), a.astype(float).tobytes().hex()]
        return out
    dv = None
    try:
        if c.derivatives is not None:
            dv = {str(k): np.asarray(c.derivatives[k]).tobytes().hex() for k in c.derivatives.keys()}
    except Exception as e:   # noqa
        dv = 'derivatives unreadable: %r' % (e,)
    return {'name': c.name, 'source': c.source, 'counter': c.counter, 'success': c.success,
            'inputs': vec(c.inputs), 'outputs': vec(c.outputs), 'residuals': vec(c.residuals),
            'abs_err': c.abs_err, 'rel_err': c.rel_err, 'derivs': dv}


def observe(path):
    """what the real CaseReader sees.  -> dict(open, err, view=[[tcode,rowid,counter]], coords, digests)"""
    if not os.path.exists(path):
        return {'open': False, 'err': 'no file'}
    try:
        cr = om.CaseReader(path)
        coords = list(cr.list_cases(out_stream=None))
    except Exception as e:   # noqa
        return {'open': False, 'err': '%s: %s' % (type(e).__name__, str(e)[:200])}
    res = {'open': True, 'err': '', 'coords': coords, 'view': [], 'digests': [], 'bad': ''}
    try:
        con = sqlite3.connect(path)
        raw = con.execute('select record_type, rowid from global_iterations order by id').fetchall()
        con.close()
    except Exception as e:   # noqa
        raw = []
        res['bad'] = 'raw read failed: %r' % (e,)
    if len(raw) != len(coords):
        res['bad'] = 'list_cases has %d entries, global_iterations %d rows' % (len(coords), len(raw))
    for i, coord in enumerate(coords):
        try:
            c = cr.get_case(coord)
            if c is None:
                raise RuntimeError('get_case returned None')
            d = digest_case(c)
            res['digests'].append(d)
            t, r = raw[i] if i < len(raw) else ('driver', -1)
            res['view'].append([TCODE.get(t, 9), int(r), int(c.counter)])
        except Exception as e:   # noqa
            res['digests'].append({'unreadable': '%s: %s' % (type(e).__name__, str(e)[:200])})
            t, r = raw[i] if i < len(raw) else ('driver', -1)
            res['view'].append([TCODE.get(t, 9), int(r), None])
    try:
        cr.list_sources(out_stream=None)
    except Exception as e:   # noqa
        res['bad'] = res['bad'] or 'list_sources failed: %r' % (e,)
    return res


def same_digest(a, b):
    """case content equal (timestamps are not part of the digest)"""
    return a == b


def oracle(obs, full, label):
    """the property on one crashed file: opens, exactly a prefix, every case complete and readable"""
    if not obs['open']:
        return '%s: CaseReader cannot open the file (%s)' % (label, obs['err'])
    if obs.get('bad'):
        return '%s: %s' % (label, obs['bad'])
    n = len(obs['coords'])
    if obs['coords'] != full['coords'][:n]:
        return '%s: listed cases %r are not a prefix of the complete run %r' % (label, obs['coords'][-3:],
                                                                               full['coords'][:n][-3:])
    for i in range(n):
        d = obs['digests'][i]
        if 'unreadable' in d:
            return '%s: listed case %r is not readable (%s)' % (label, obs['coords'][i], d['unreadable'])
        if not same_digest(d, full['digests'][i]):
            keys = [k for k in d if d[k] != full['digests'][i].get(k)]
            return '%s: case %r differs from the complete run in %s' % (label, obs['coords'][i], keys)
    return ''


def encode_view(obs, fullview):
    if not obs['open']:
        return None
    v = obs['view']
    if v == fullview[:len(v)]:
        return len(v)
    return v


# --------------------------------------------------------------------------- one case

def handle(c):
    # the crash files live on tmpfs when there is one: every COMMIT fsyncs, and thousands of runs are made
    root = '/dev/shm' if os.access('/dev/shm', os.W_OK) else os.getcwd()
    base = os.path.join(root, 'verifc18-%d-%d' % (os.getpid(), random.randrange(10 ** 9)))
    os.makedirs(base)
    try:
        return handle_in(c, base)
    finally:
        shutil.rmtree(base, ignore_errors=True)


def full_run(c, base):
    """complete run in this process; the recorder files are snapshotted at every statement boundary"""
    d = os.path.join(base, 'full')
    os.makedirs(d)
    cwd = os.getcwd()
    os.chdir(d)
    saved = sr.sqlite3
    try:
        tracer = _Tracer('trace.log', None, snapdir=os.path.join(base, 'snap'))
        sr.sqlite3 = _Sqlite3Proxy(tracer)
        p = run_scenario(c)
        tracer.snapdir and tracer.snapshot(tracer.n)      # after the last statement, nothing closed yet
        tracer.snapdir = None
        p.cleanup()
        os.close(tracer.fd)
        return tracer.n, ''
    except Exception:   # noqa
        import traceback
        return -1, traceback.format_exc()[-800:]
    finally:
        sr.sqlite3 = saved
        os.chdir(cwd)


def file_state(d, i):
    """content hash of the recorder file i and its journal in directory d"""
    import hashlib
    h = hashlib.sha1()
    for f in sorted(os.listdir(d)) if os.path.isdir(d) else []:
        if f.startswith('rec%d.sql' % i):
            h.update(f.encode())
            h.update(open(os.path.join(d, f), 'rb').read())
    return h.hexdigest()


def pick_real_kills(gtrace, n, rnd, count, inside=0):
    """statement boundaries at which a real child process is killed: inside case transactions, just before
    and just after their COMMIT, during start-up, after the last statement, and random ones"""
    inter = []
    for k, (_, t) in enumerate(gtrace):
        if t[0] == 'IG':
            inter += [k, k + 1, k + 2]
        if t[0] == 'UM':
            inter += [k + 1, k + 2]
    ks = [n] if rnd.random() < 0.5 else []
    if inside:
        # every boundary that lies between a case INSERT and its COMMIT (a transaction larger than SQLite's
        # page cache has spilled to the file by then: the reader must roll back a hot journal)
        ks += [k + 1 for k, (_, t) in enumerate(gtrace) if t[0] in ('IC', 'IG')][:inside]
    while len(ks) < count and (inter or n):
        k = rnd.choice(inter) if inter and rnd.random() < 0.75 else rnd.randrange(n + 1)
        if 0 <= k <= n and k not in ks:
            ks.append(k)
    return sorted(set(ks))


def handle_in(c, base):
    nf = c['nfiles']
    t0 = time.time()
    n, err = full_run(c, base)
    tfull = time.time() - t0
    if n < 0:
        return {'res': '__none__', 'ok': True, 'msg': 'scenario does not run: ' + err, 'kind': 'skipped', 'sig': ''}
    gtrace = read_trace(os.path.join(base, 'full'), nf)
    assert len(gtrace) == n
    per_file = [[t for f, t in gtrace if f == i] for i in range(nf)]
    fulls = [observe(os.path.join(base, 'full', 'rec%d.sql' % i)) for i in range(nf)]
    msgs = []
    for i, fo in enumerate(fulls):
        m = oracle(fo, fo, 'complete run, file %d' % i)
        if m:
            msgs.append(m)
    if any(not fo['open'] for fo in fulls):
        return {'res': '__none__', 'ok': False, 'msg': '; '.join(msgs[:3]), 'sig': 'complete-run-unreadable',
                'kind': '%s/%dfile' % (c['driver']['type'], nf), 'stats': {'crash_points': 1}}
    starts = [started_index(t) for t in per_file]
    ks_file = [[] for _ in range(nf)]
    codes = [[] for _ in range(nf)]
    stats = {'crash_points': 0, 'prestart': 0, 'sigkill': 0, 'nstmt': n, 'real_kills': 0, 'distinct_file_states': 0}
    cache = {}

    def check_point(d, k, label, toks_of=None):
        for i in range(nf):
            kf = sum(1 for f, _ in gtrace[:k] if f == i)
            jp = os.path.join(d, 'rec%d.sql-journal' % i)
            if os.path.exists(jp) and os.path.getsize(jp) > 512:
                stats['hot_journals'] = stats.get('hot_journals', 0) + 1
                if label.startswith('process killed'):
                    stats['hot_journals_real_kill'] = stats.get('hot_journals_real_kill', 0) + 1
            key = (i, file_state(d, i))
            if key not in cache:
                cache[key] = observe(os.path.join(d, 'rec%d.sql' % i))
                stats['distinct_file_states'] += 1
            obs = cache[key]
            ks_file[i].append(kf)
            codes[i].append(encode_view(obs, fulls[i].get('view', [])))
            if starts[i] is not None and kf >= starts[i]:
                m = oracle(obs, fulls[i], '%s %d (file %d, its statement %d)' % (label, k, i, kf))
                if m and len(msgs) < 5:
                    msgs.append(m)
            else:
                stats['prestart'] += 1

    t1 = time.time()
    # every statement boundary: the on-disk bytes at that instant
    for k in range(n + 1):
        check_point(os.path.join(base, 'snap', 'k%d' % k), k, 'death before statement')
        stats['crash_points'] += 1
    t2 = time.time()
    # real deaths: os._exit inside the trace callback in a child process
    rnd = random.Random(c.get('seed', 0))
    for k in pick_real_kills(gtrace, n, rnd, c.get('real_kills', 4), c.get('kill_inside_txn', 0)):
        d = os.path.join(base, 'r%d' % k)
        rc = spawn(c, d, kill_at=k if k < n else None, exit_at_end=(k >= n))
        tr = read_trace(d, nf)
        if [t for _, t in tr] != [t for _, t in gtrace[:k]] or rc not in (17, 18):
            msgs.append('harness: the statement stream of the re-run killed at %d is not the prefix of the '
                        'complete run (rc=%d, %d statements)' % (k, rc, len(tr)))
            continue
        cache.clear()
        check_point(d, k, 'process killed (os._exit) before statement')
        stats['real_kills'] += 1
        shutil.rmtree(d, ignore_errors=True)
    # SIGKILL at random times
    for j in range(c.get('sigkills', 0)):
        d = os.path.join(base, 's%d' % j)
        rc = spawn(c, d, sigkill_after=rnd.random() * max(tfull, 0.05) * 1.5)
        tr = read_trace(d, nf)
        stats['sigkill'] += 1
        for i in range(nf):
            toks = [t for f, t in tr if f == i]
            obs = observe(os.path.join(d, 'rec%d.sql' % i))
            if toks != per_file[i][:len(toks)]:
                msgs.append('harness: statement stream of a SIGKILLed re-run is not a prefix')
                continue
            if rc == 0:
                kf = len(per_file[i])
            else:
                # the statement logged last was executing when the signal arrived: it completed or it did not
                kf = len(toks)
                if not toks or toks[-1][0] != 'C' or \
                        (obs['open'] and len(obs['view']) != committed_cases(toks)):
                    kf = max(len(toks) - 1, 0)
                if toks and toks[-1][0] != 'C' and not obs['open'] and starts[i] is None:
                    kf = max(len(toks) - 1, 0)
            ks_file[i].append(kf)
            codes[i].append(encode_view(obs, fulls[i].get('view', [])))
            if starts[i] is not None and len(toks) > starts[i]:
                m = oracle(obs, fulls[i], 'SIGKILL during statement %d of file %d' % (len(toks) - 1, i))
                if m and len(msgs) < 5:
                    msgs.append(m)
        shutil.rmtree(d, ignore_errors=True)
    stats['t_full'] = round(t1 - t0, 2)
    stats['t_snap'] = round(t2 - t1, 2)
    stats['t_kill'] = round(time.time() - t2, 2)
    res = [[True, True, fulls[i].get('view') if fulls[i]['open'] else None, codes[i], True] for i in range(nf)]
    ok = not msgs
    return {'res': res, 'ok': ok, 'msg': '; '.join(msgs[:3]), 'sig': 'crash-prefix' if not ok else '',
            'kind': '%s/%dfile' % (c['driver']['type'], nf), 'traces': per_file, 'ks': ks_file, 'stats': stats,
            'ncases': [len(f.get('coords', [])) for f in fulls]}


if __name__ == '__main__':
    main(handle)
