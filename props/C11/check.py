"""C11 — assembled jacobian formats (dense / CSC / CSR / COO-backed dense) and the matrix-free dictionary
application represent the same linear operator, across repeated updates and complex-step dtype switches."""
import copy
from fractions import Fraction
from math import gcd
import core
from core import Spec, standard_check, boollit

UNITS = {None: None, 'm': Fraction(1), 'dyA': Fraction(4), 'dyB': Fraction(1, 2)}


def unit_factor(u_out, u_in):
    """factor of unit_conversion(out_units, in_units) as the jacobian uses it (None when not applied)"""
    if not u_in or not u_out or u_in == u_out:
        return None
    f = UNITS[u_out] / UNITS[u_in]
    return None if f == 1 else f


# ----------------------------------------------------------------------------- generator

def gen_pattern(rng, nr, nc, kinds):
    kind = rng.choice(kinds)
    if kind == 'diag' and nr != nc:
        kind = 'dense'
    p = {'kind': kind}
    if kind in ('rc', 'coo', 'csr', 'csc'):
        cells = [(r, c) for r in range(nr) for c in range(nc)]
        k = rng.randrange(1, len(cells) + 1)
        sel = rng.sample(cells, k)
        if kind == 'csr':
            sel.sort()
        elif kind == 'csc':
            sel.sort(key=lambda t: (t[1], t[0]))
        elif kind == 'coo' and rng.random() < 0.5:
            sel += [rng.choice(sel) for _ in range(rng.randrange(1, 3))]     # duplicate entries in a scipy COO value
        p['rows'] = [r for r, _ in sel]
        p['cols'] = [c for _, c in sel]
    return p


def nvals(p, nr, nc):
    return nr * nc if p['kind'] == 'dense' else (nr if p['kind'] == 'diag' else len(p['rows']))


def gen_case(rng, structured=None):
    ncomp = rng.randrange(1, 4)
    ext = [{'name': 'e%d' % j, 'size': rng.randrange(1, 4), 'units': rng.choice([None, 'm', 'dyA', 'dyB'])}
           for j in range(rng.randrange(1, 3))]
    comps = []
    for ci in range(ncomp):
        comps.append({'name': 'c%d' % ci, 'implicit': rng.random() < 0.5,
                      'outputs': [{'name': 'o%d' % j, 'size': rng.randrange(1, 4),
                                   'units': rng.choice([None, None, 'm', 'dyA', 'dyB'])}
                                  for j in range(rng.randrange(1, 3))],
                      'inputs': [], 'partials': []})
    for ci, c in enumerate(comps):
        srcs = [('c%d' % cj, o) for cj, d in enumerate(comps) if cj != ci for o in d['outputs']]
        for j in range(rng.randrange(1, 4)):
            r = rng.random()
            inp = {'name': 'i%d' % j, 'src': None, 'src_indices': None, 'units': None}
            if r < 0.6 and srcs:
                # several inputs of one component connected to the SAME source is the interesting layout:
                # their sub-jacobians land in the same (row block, column block) of dr/do
                prev = [i for i in c['inputs'] if i['src'] and not i['src'].startswith('ext.')]
                if prev and rng.random() < 0.5:
                    sname = rng.choice(prev)['src']
                    so = [o for cn, o in srcs if cn + '.' + o['name'] == sname][0]
                else:
                    cn, so = rng.choice(srcs)
                    sname = cn + '.' + so['name']
            elif r < 0.85:
                so = rng.choice(ext)
                sname = 'ext.' + so['name']
            else:
                so, sname = None, None
            if so is None:
                inp['size'] = rng.randrange(1, 4)
                inp['units'] = rng.choice([None, 'm'])
            else:
                inp['src'] = sname
                if rng.random() < 0.35:
                    inp['size'] = so['size']
                else:
                    inp['size'] = rng.randrange(1, 4)
                    mode = rng.random()
                    if mode < 0.4 and inp['size'] <= so['size']:
                        inp['src_indices'] = rng.sample(range(so['size']), inp['size'])      # distinct
                    else:
                        inp['src_indices'] = [rng.randrange(so['size']) for _ in range(inp['size'])]   # may repeat
                if so['units'] is not None and rng.random() < 0.7:
                    inp['units'] = rng.choice(['m', 'dyA', 'dyB'])
            c['inputs'].append(inp)
        for o in c['outputs']:
            wrts = [(i['name'], i['size']) for i in c['inputs']]
            if c['implicit']:
                wrts += [(o2['name'], o2['size']) for o2 in c['outputs']]
            for wn, wsz in wrts:
                if rng.random() < 0.75:
                    p = gen_pattern(rng, o['size'], wsz, ['dense', 'dense', 'rc', 'rc', 'diag', 'coo', 'csr', 'csc'])
                    p.update(of=o['name'], wrt=wn)
                    c['partials'].append(p)
    case = {'kind': 'asm', 'ext': ext, 'comps': comps}
    return finish_case(case, rng)


def finish_case(case, rng):
    """values: update sequence (real, complex-step on with complex values, real again ...), vectors, mask"""
    comps = case['comps']
    ups = []
    cs_now = False
    for u in range(rng.randrange(1, 4)):
        if u > 0 and rng.random() < 0.5:
            cs_now = not cs_now
        vals = {}
        for c in comps:
            sz = {v['name']: v['size'] for v in c['inputs'] + c['outputs']}
            for p in c['partials']:
                n = nvals(p, sz[p['of']], sz[p['wrt']])
                vals['%s:%s:%s' % (c['name'], p['of'], p['wrt'])] = [
                    [rng.randrange(-4, 5), rng.randrange(-3, 4) if cs_now else 0] for _ in range(n)]
        ups.append({'cs': cs_now, 'vals': vals})
    case['updates'] = ups
    nout = sum(o['size'] for c in comps for o in c['outputs'])
    nin = sum(i['size'] for c in comps for i in c['inputs'])
    case['v_out'] = [rng.randrange(-3, 4) for _ in range(nout)]
    case['v_in'] = [rng.randrange(-3, 4) for _ in range(nin)]
    case['w'] = [rng.randrange(-3, 4) for _ in range(nout)]
    case['r0'] = [0] * nout      # _matvec_context zeroes the result vectors before the product
    k = rng.random()
    if k < 0.3:
        case['mask'] = {'t': 'none', 'pos': []}
    elif k < 0.6 and nin > 0:
        a = rng.randrange(0, nin)
        b = rng.randrange(a, nin + 1)
        case['mask'] = {'t': 'slice', 'v': [a, b], 'pos': list(range(a, b))}
    else:
        pos = sorted(rng.sample(range(nin), rng.randrange(0, nin + 1))) if nin else []
        case['mask'] = {'t': 'arr', 'pos': pos}
    return case


def gen_shared_case(rng):
    """Structured stream: several inputs of one component read DISJOINT parts of one source, with different unit
    factors — their sub-jacobians share one (row block, column block) of dr/do without any repeated index."""
    case = gen_case(rng)
    n_src = rng.randrange(2, 5)
    src = {'name': 'c8', 'implicit': rng.random() < 0.3, 'inputs': [], 'partials': [],
           'outputs': [{'name': 'o0', 'size': n_src, 'units': rng.choice(['m', 'dyA', 'dyB'])}]}
    idx = list(range(n_src))
    rng.shuffle(idx)
    cut = rng.randrange(1, n_src)
    parts = [idx[:cut], idx[cut:]]
    if len(parts[1]) > 1 and rng.random() < 0.4:
        c2 = rng.randrange(1, len(parts[1]))
        parts = [parts[0], parts[1][:c2], parts[1][c2:]]
    tgt = {'name': 'c9', 'implicit': rng.random() < 0.5, 'inputs': [], 'partials': [],
           'outputs': [{'name': 'o0', 'size': rng.randrange(1, 4), 'units': None}]}
    for j, part in enumerate(parts):
        tgt['inputs'].append({'name': 'i%d' % j, 'src': 'c8.o0', 'src_indices': part, 'size': len(part),
                              'units': rng.choice([None, 'm', 'dyA', 'dyB'])})
        p = gen_pattern(rng, tgt['outputs'][0]['size'], len(part), ['dense', 'dense', 'dense', 'rc', 'diag', 'coo'])
        p.update(of='o0', wrt='i%d' % j)
        tgt['partials'].append(p)
    if tgt['implicit']:
        p = gen_pattern(rng, tgt['outputs'][0]['size'], tgt['outputs'][0]['size'], ['dense', 'diag'])
        p.update(of='o0', wrt='o0')
        tgt['partials'].append(p)
    if src['implicit']:
        p = {'kind': 'diag', 'of': 'o0', 'wrt': 'o0'}
        src['partials'].append(p)
    case['comps'] = case['comps'][:1] + [src, tgt]
    # inputs of the kept random component may only refer to components that still exist
    for i in case['comps'][0]['inputs']:
        if i['src'] and not i['src'].startswith('ext.') :
            i['src'], i['src_indices'] = 'c8.o0', [rng.randrange(n_src) for _ in range(i['size'])]
            i['units'] = rng.choice([None, 'm', 'dyB'])
    return finish_case(case, rng)


# ----------------------------------------------------------------------------- intent: layout and sub-jacobians

class Layout:
    """Variable order of the group (components sorted by name, variables in declaration order)."""

    def __init__(self, case):
        self.case = case
        self.out_off, self.in_off, self.size, self.units = {}, {}, {}, {}
        o = i = 0
        for c in sorted(case['comps'], key=lambda c: c['name']):
            for v in c['outputs']:
                nm = c['name'] + '.' + v['name']
                self.out_off[nm], self.size[nm], self.units[nm] = o, v['size'], v['units']
                o += v['size']
            for v in c['inputs']:
                nm = c['name'] + '.' + v['name']
                self.in_off[nm], self.size[nm], self.units[nm] = i, v['size'], v['units']
                i += v['size']
        self.nout, self.nin = o, i
        for e in case['ext']:
            self.units['ext.' + e['name']] = e['units']
        self.inputs = {c['name'] + '.' + v['name']: v for c in case['comps'] for v in c['inputs']}
        self.partials = {}
        self.explicit_out = []
        for c in case['comps']:
            for p in c['partials']:
                self.partials[(c['name'] + '.' + p['of'], c['name'] + '.' + p['wrt'])] = (c, p)
            if not c['implicit']:
                for v in c['outputs']:
                    self.explicit_out.append(c['name'] + '.' + v['name'])

    def internal(self, inp):
        s = self.inputs[inp]['src']
        return s is not None and not s.startswith('ext.')

    def pattern(self, key):
        """(Gallina pattern, nvals) of sub-jacobian key=(of, wrt) (names relative to the group)."""
        of, wrt = key
        if key not in self.partials:
            # dr/do = -I entry that an ExplicitComponent declares for each of its outputs
            n = self.size[of]
            return '(PRC (nl %s) (nl %s))' % (zl(range(n)), zl(range(n))), n
        c, p = self.partials[key]
        nr, nc = self.size[of], self.size[wrt]
        if p['kind'] == 'dense':
            return '(PDense %d %d)' % (nr, nc), nr * nc
        if p['kind'] == 'diag':
            return '(PDiag %d)' % nr, nr
        return '(PRC (nl %s) (nl %s))' % (zl(p['rows']), zl(p['cols'])), len(p['rows'])

    def subjac(self, key, which):
        """Gallina subjac for matrix `which` ('drdo' | 'drdi' | 'raw')."""
        of, wrt = key
        pat, _ = self.pattern(key)
        ro = self.out_off[of]
        src, fac = 'None', 'None'
        if which == 'raw':
            co = self.out_off[wrt] if wrt in self.out_off else self.nout + self.in_off[wrt]
        elif wrt in self.out_off:
            co = self.out_off[wrt]
        elif which == 'drdo':
            inp = self.inputs[wrt]
            co = self.out_off[inp['src']]
            if inp['src_indices'] is not None:
                src = '(Some %s)' % zl(inp['src_indices'])
            f = unit_factor(self.units[inp['src']], inp['units'])
            if f is not None:
                fac = '(Some %s)' % core.qlit(f)
        else:
            co = self.in_off[wrt]
        return '(zSJ %s %d %d %s %s)' % (pat, ro, co, src, fac)

    def vals(self, key, up, part):
        if key not in self.partials:
            return [-1 if part == 0 else 0] * self.size[key[0]]
        c, p = self.partials[key]
        return [v[part] for v in up['vals']['%s:%s:%s' % (c['name'], p['of'], p['wrt'])]]

    def v_in_full(self):
        """input vector seen by the matrix-free application in fwd mode: internally connected inputs hold the
        transferred source values (src_indices, unit factor), the others the given values"""
        case = self.case
        v = [Fraction(x) for x in case['v_in']]
        for nm, inp in self.inputs.items():
            if self.internal(nm):
                so = self.out_off[inp['src']]
                idx = inp['src_indices'] if inp['src_indices'] is not None else list(range(inp['size']))
                f = unit_factor(self.units[inp['src']], inp['units']) or 1
                for k in range(inp['size']):
                    v[self.in_off[nm] + k] = f * case['v_out'][so + idx[k]]
        return v


def zl(xs):
    return '[%s]' % '; '.join(('(%d)' % v) if v < 0 else '%d' % v for v in xs)


def qd(xs):
    xs = [Fraction(x) for x in xs]
    if not xs:
        return '[]'
    d = 1
    for x in xs:
        d = d * x.denominator // gcd(d, x.denominator)
    return '(qd %d %s)' % (d, zl([(x * d).numerator for x in xs]))


def fr(x):
    return Fraction(x['q'][0], x['q'][1]) if isinstance(x, dict) else Fraction(x)


def want_val(x):
    if isinstance(x, list):
        if x and all(isinstance(e, dict) and 'q' in e for e in x):
            vs = [fr(e) for e in x]
            d = 1
            for a in vs:
                d = d * a.denominator // gcd(d, a.denominator)
            return '(vqd %d %s)' % (d, zl([(a * d).numerator for a in vs]))
        return '(VL [%s])' % '; '.join(want_val(e) for e in x)
    return core.to_val(x)


class C11(Spec):
    pid = 'C11'
    imports = ['C11.Model']
    impl_script = 'props/C11/impl.py'
    exactness = ('E1 for the COO->CSC/CSR index maps, E3 (small integers, unit factors 2^j: all float arithmetic '
                 'exact) for matrices and products; complex-step values as separate real and imaginary parts')
    shard = 40
    impl_jobs = 4
    rule = ('random groups of 1-3 components (explicit and implicit), 1-3 inputs and 1-2 outputs each of size 1-3, '
            'partials dense / rows-cols / diagonal / scipy coo (with duplicate entries) / csr / csc, inputs connected '
            'inside the group (several inputs to one source; src_indices with repeats; unit factors) or outside it; '
            'assembled as dense, csc and csr and applied matrix-free; 1-3 updates with complex-step switches; '
            'products fwd/rev with and without masks, run_apply_linear fwd/rev; a case is non-trivial when distinct')
    assumptions = ['scipy.sparse (construction of csc/csr structure from COO, products, toarray) is trusted as the '
                   'executor; its structure is modelled as the sorted distinct (row, col) keys',
                   'the order of the sub-jacobians inside each matrix is taken from the real matrix object']

    def __init__(self):
        self.aux = {}

    def gen(self, tier, rng):
        n = 120 if tier == 'quick' else 2400
        return [gen_shared_case(rng) for _ in range(n // 3)] + [gen_case(rng) for _ in range(n)]

    def search_gen(self, tier, rng):
        return [gen_shared_case(rng) for _ in range(150)] + [gen_case(rng) for _ in range(300)]

    def compare_case(self, case, res):
        if res.get('res', '__none__') == '__none__':
            return False
        self.aux[id(case)] = res['aux']
        return True

    def want_term(self, case, res):
        return want_val(res['res'])

    def got_term(self, case):
        aux = self.aux[id(case)]
        L = Layout(case)
        parts = []
        binds = []
        cs = '[%s]' % '; '.join(boollit(up['cs']) for up in case['updates'])
        keysof = {}
        for which, nc in (('drdo', L.nout), ('drdi', L.nin)):
            keys = keysof[which] = [tuple(k) for k in aux[which]]
            binds.append(('sj_' + which, '[%s]' % '; '.join(L.subjac(k, which) for k in keys)))
            if not aux['has_' + which]:
                parts.append('VN')
                continue
            vec = case['v_out'] if which == 'drdo' else case['v_in']
            mask = case['mask']['pos'] if which == 'drdi' else []
            ups = []
            for part in (0, 1):
                ups.append('[%s]' % '; '.join(
                    '[%s]' % '; '.join(qd(L.vals(k, up, part)) for k in keys) for up in case['updates']))
            parts.append('(obs_matrix %s sj_%s %s %s %s %d %d %s %s (nl %s))' % (
                boollit(which == 'drdo'), which, cs, ups[0], ups[1], L.nout, nc, qd(vec), qd(case['w']), zl(mask)))
        # run_apply_linear on the assembled jacobians (every real-valued update)
        din0 = [0] * L.nin
        dout0 = [0] * L.nout
        app = []
        for up in case['updates']:
            if up['cs']:
                app.append('VN')
                continue
            app.append('(obs_apply sj_drdo sj_drdi [%s] [%s] %d %d %s %s %s %s %s %s)' % (
                '; '.join(qd(L.vals(k, up, 0)) for k in keysof['drdo']),
                '; '.join(qd(L.vals(k, up, 0)) for k in keysof['drdi']),
                L.nout, L.nin, qd(case['v_out']), qd(case['v_in']), qd(case['w']), qd(case['r0']), qd(dout0), qd(din0)))
        parts.append('(VL [%s])' % '; '.join(app))
        # matrix-free application of the raw sub-jacobians on (outputs ++ inputs after the internal transfer)
        rawkeys = [tuple(k) for k in aux['raw']]
        binds.append(('sj_raw', '[%s]' % '; '.join(L.subjac(k, 'raw') for k in rawkeys)))
        v_all = [Fraction(x) for x in case['v_out']] + L.v_in_full()
        dict_terms = []
        for up in case['updates']:
            if up['cs']:
                dict_terms.append('VN')
            else:
                dict_terms.append('(vqs (dict_fwd sj_raw [%s] %s %s))' % (
                    '; '.join(qd(L.vals(k, up, 0)) for k in rawkeys), qd(v_all), qd(case['r0'])))
        parts.append('(VL [%s])' % '; '.join(dict_terms))
        body = '(VL [%s])' % ';\n  '.join(parts)
        for nm, t in reversed(binds):
            body = '(let %s := %s in\n %s)' % (nm, t, body)
        return body

    def shrink(self, case):
        if len(case['updates']) > 1:
            c = copy.deepcopy(case)
            c['updates'] = c['updates'][:-1]
            yield c
            c = copy.deepcopy(case)
            c['updates'] = c['updates'][1:]
            if not c['updates'][0]['cs']:
                yield c
        for ci, comp in enumerate(case['comps']):
            for pi in range(len(comp['partials'])):
                c = copy.deepcopy(case)
                p = c['comps'][ci]['partials'].pop(pi)
                for up in c['updates']:
                    up['vals'].pop('%s:%s:%s' % (comp['name'], p['of'], p['wrt']), None)
                yield c


def main(tier):
    return standard_check(C11(), tier)
