"""C11 implementation side: the same group assembled as DenseJacobian / CSCJacobian / CSRJacobian through real
components (assemble_jac=True) and applied matrix-free, over a sequence of updates with complex-step switches.

Oracle (the property's text): the assembled formats hold the same matrix, compute the same forward product and
the transpose product in reverse, agree with the matrix-free dictionary application (run_apply_linear fwd/rev),
and a repeated update does not change anything."""
import warnings
from fractions import Fraction
import numpy as np
import scipy.sparse as sp
from implutil import main, q

warnings.simplefilter('ignore')
import openmdao.api as om  # noqa: E402
from openmdao.utils.units import add_unit  # noqa: E402

warnings.filterwarnings('ignore')
add_unit('dyA', '4*m')
add_unit('dyB', '0.5*m')


def mk_val(p, nr, nc, vals, cplx):
    a = np.array([complex(v[0], v[1]) for v in vals]) if cplx else np.array([float(v[0]) for v in vals])
    k = p['kind']
    if k == 'dense':
        return a.reshape((nr, nc))
    if k in ('diag', 'rc'):
        return a
    rows, cols = np.array(p['rows'], dtype=int), np.array(p['cols'], dtype=int)
    m = sp.coo_matrix((a, (rows, cols)), shape=(nr, nc))
    if k == 'coo':
        return m
    if k == 'csr':
        m2 = sp.csr_matrix((a, (rows, cols)), shape=(nr, nc))
    else:
        m2 = sp.csc_matrix((a, (rows, cols)), shape=(nr, nc))
    c = m2.tocoo()
    if c.row.tolist() != p['rows'] or c.col.tolist() != p['cols'] or not np.all(c.data == a):
        raise RuntimeError('scipy stored order differs from the generator\'s')
    return m2


class CompMixin:
    def _c11_init(self, node):
        self.node = node
        self.cur = None          # {'of:wrt': value object}

    def _c11_setup(self):
        n = self.node
        sz = {v['name']: v['size'] for v in n['inputs'] + n['outputs']}
        for v in n['inputs']:
            self.add_input(v['name'], np.ones(v['size']), units=v['units'])
        for v in n['outputs']:
            scal = {}
            for k in ('ref', 'ref0', 'res_ref'):       # only the C02 solve cases scale the outputs
                if v.get(k) is not None:
                    x = v[k]
                    scal[k] = np.array([float(Fraction(*e['q'])) if isinstance(e, dict) else float(e) for e in x]) \
                        if isinstance(x, list) else (float(Fraction(*x['q'])) if isinstance(x, dict) else float(x))
            self.add_output(v['name'], np.ones(v['size']), units=v['units'], **scal)
        for p in n['partials']:
            nr, nc = sz[p['of']], sz[p['wrt']]
            k = p['kind']
            if k == 'dense':
                self.declare_partials(p['of'], p['wrt'])
            elif k == 'diag':
                self.declare_partials(p['of'], p['wrt'], diagonal=True)
            elif k == 'rc':
                self.declare_partials(p['of'], p['wrt'], rows=p['rows'], cols=p['cols'])
            else:
                zero = [[0, 0]] * len(p['rows'])
                self.declare_partials(p['of'], p['wrt'], val=mk_val(p, nr, nc, zero, False))

    def _c11_fill(self, J):
        if self.cur:
            for (of, wrt), val in self.cur.items():
                J[of, wrt] = val


class EComp(om.ExplicitComponent, CompMixin):
    def __init__(self, node):
        super().__init__()
        self._c11_init(node)

    def setup(self):
        self._c11_setup()

    def compute(self, inputs, outputs):
        pass

    def compute_partials(self, inputs, J):
        self._c11_fill(J)


class IComp(om.ImplicitComponent, CompMixin):
    def __init__(self, node):
        super().__init__()
        self._c11_init(node)

    def setup(self):
        self._c11_setup()

    def apply_nonlinear(self, inputs, outputs, residuals):
        pass

    def linearize(self, inputs, outputs, J):
        self._c11_fill(J)


class Ext(om.ExplicitComponent):
    def __init__(self, ext):
        super().__init__()
        self.ext = ext

    def setup(self):
        for e in self.ext:
            self.add_output(e['name'], np.ones(e['size']), units=e['units'])

    def compute(self, inputs, outputs):
        pass


def build(case, jt, mode, solver=None):
    p = om.Problem()
    p.model.add_subsystem('ext', Ext(case['ext']))
    g = p.model.add_subsystem('g', om.Group())
    comps = {}
    for n in case['comps']:
        comps[n['name']] = g.add_subsystem(n['name'], (IComp if n['implicit'] else EComp)(n))
    for n in case['comps']:
        for i in n['inputs']:
            if i['src'] is None:
                continue
            tgt = 'g.%s.%s' % (n['name'], i['name'])
            src = i['src'] if i['src'].startswith('ext.') else 'g.' + i['src']
            p.model.connect(src, tgt, src_indices=i['src_indices'])
    if solver is not None:
        g.linear_solver = solver()
        if jt:
            g.options['assembled_jac_type'] = jt
    elif jt:
        g.linear_solver = om.ScipyKrylov(assemble_jac=True)
        g.options['assembled_jac_type'] = jt
    p.setup(mode=mode, force_alloc_complex=True)
    p.final_setup()
    return p, g, comps


def cmat(M, cs):
    M = np.asarray(M)
    re = [[q(float(np.real(x))) for x in row] for row in M]
    if not cs:
        return re, []
    return re, [[q(float(np.imag(x))) for x in row] for row in M]


class Fail(Exception):
    def __init__(self, sig, msg):
        self.sig, self.msg = sig, msg


def same(a, b):
    a, b = np.asarray(a), np.asarray(b)
    return a.shape == b.shape and bool(np.all(a == b))


def qv(a):
    return [q(float(x)) for x in np.asarray(a).ravel()]


def handle(case):
    fmts = ['dense', 'csc', 'csr']
    probs = {jt: build(case, jt, 'fwd') for jt in fmts}
    free = {m: build(case, None, m) for m in ('fwd', 'rev')}
    allp = list(probs.values()) + list(free.values())
    g0 = probs['dense'][1]
    nout, nin = len(g0._outputs), len(g0._inputs)
    # group-relative variable ranges, internal inputs
    in_rng = {nm[2:]: (s, e) for nm, s, e in g0._dinputs.ranges()}
    internal = np.zeros(nin, dtype=bool)
    for n in case['comps']:
        for i in n['inputs']:
            if i['src'] is not None and not i['src'].startswith('ext.'):
                s, e = in_rng['%s.%s' % (n['name'], i['name'])]
                internal[s:e] = True
    v_out, v_in = np.array(case['v_out'], dtype=float), np.array(case['v_in'], dtype=float)
    w, r0 = np.array(case['w'], dtype=float), np.array(case['r0'], dtype=float)
    if len(v_out) != nout or len(v_in) != nin:
        raise RuntimeError('layout size differs from the generator\'s')
    mk = case['mask']
    mask = None if mk['t'] == 'none' else (slice(*mk['v']) if mk['t'] == 'slice' else np.array(mk['pos'], dtype=int))
    if mk['t'] == 'arr' and len(mk['pos']) == 0:
        mask = np.array([], dtype=int)

    aux = {}
    res_do, res_di, res_app, res_dict = [], [], [], []
    cs_now = False
    ok, msg, sig = True, '', ''
    try:
        for ui, up in enumerate(case['updates']):
            cs = bool(up['cs'])
            desc = 'update %d (complex step %s)' % (ui, 'on' if cs else 'off')
            for p, g, comps in allp:
                if cs != cs_now:
                    p.set_complex_step_mode(cs)
                for n in case['comps']:
                    sz = {v['name']: v['size'] for v in n['inputs'] + n['outputs']}
                    comps[n['name']].cur = {
                        (pp['of'], pp['wrt']): mk_val(pp, sz[pp['of']], sz[pp['wrt']],
                                                      up['vals']['%s:%s:%s' % (n['name'], pp['of'], pp['wrt'])], cs)
                        for pp in n['partials']}
            cs_now = cs
            snap = {}
            for rep in range(2):          # the same update twice: nothing may change
                for p, g, comps in allp:
                    try:
                        p.model.run_linearize()
                    except Exception as e:
                        raise Fail('linearize-raises', '%s: run_linearize raised %s: %s' % (
                            desc, type(e).__name__, str(e)[:300]))
                for jt in fmts:
                    jac = probs[jt][1]._get_jacobian()
                    cur = [None if m is None else np.array(m.todense()) for m in (jac._dr_do_mtx, jac._dr_di_mtx)]
                    if rep == 0:
                        snap[jt] = cur
                    else:
                        for a, b, nm in zip(snap[jt], cur, ('dr/do', 'dr/di')):
                            if a is not None and not same(a, b):
                                raise Fail('update-not-idempotent', '%s: %s %s matrix changed when the same values were '
                                           'set again: %r -> %r' % (desc, jt, nm, a.tolist(), b.tolist()))
            jacs = {jt: probs[jt][1]._get_jacobian() for jt in fmts}
            if ui == 0:
                j0 = jacs['dense']
                aux['has_drdo'] = j0._dr_do_mtx is not None
                aux['has_drdi'] = j0._dr_di_mtx is not None
                aux['drdo'] = [[k[0][2:], k[1][2:]] for k in j0._dr_do_subjacs]
                aux['drdi'] = [[k[0][2:], k[1][2:]] for k in j0._dr_di_subjacs]
                for jt in fmts:
                    if [list(k) for k in jacs[jt]._dr_do_subjacs] != [list(k) for k in j0._dr_do_subjacs]:
                        raise RuntimeError('sub-jacobian order differs between formats')
            # ---- matrices: all formats hold the same array
            o_do, o_di = [], []
            dense_ref = {}
            for which, attr in (('drdo', '_dr_do_mtx'), ('drdi', '_dr_di_mtx')):
                if not aux['has_' + which]:
                    continue
                mats = {jt: getattr(jacs[jt], attr) for jt in fmts}
                arrs = {jt: np.array(mats[jt].todense()) for jt in fmts}
                for jt in fmts[1:]:
                    if not same(arrs[jt], arrs['dense']):
                        raise Fail('todense-differs', '%s: %s assembled as dense is %r but as %s it is %r' % (
                            desc, which, arrs['dense'].tolist(), jt, arrs[jt].tolist()))
                dense_ref[which] = arrs['dense']
                vec = v_out if which == 'drdo' else v_in
                mm = mask if which == 'drdi' else None
                out = o_do if which == 'drdo' else o_di
                for jt in (['csc', 'csr', 'dense'] if which == 'drdo' else ['csr']):
                    m = mats[jt]
                    re, im = cmat(arrs[jt], cs)
                    if jt == 'dense':
                        out.append([bool(m._coo is not None), re, im])
                        continue
                    cmap = m._coo_to_csc_map if hasattr(m, '_coo_to_csc_map') and m._coo_to_csc_map is not None \
                        else m._coo_to_csr_map
                    ob = [[int(x) for x in cmap], re, im, None]
                    if not cs:
                        pf, pr = m._prod(vec, 'fwd'), m._prod(w, 'rev')
                        pm = m._prod(vec, 'fwd', mm)
                        ob[3] = [qv(pf), qv(pr), qv(pm)]
                    out.append(ob)
                if not cs:
                    # products: every format, fwd = M v, rev = M^T w (NumPy on the dense array as reference)
                    for jt in fmts:
                        m = mats[jt]
                        A = arrs[jt]
                        vm = vec.copy()
                        if mm is not None:
                            vm[mm] = 0.0
                        for nm, got, ref in (('fwd', m._prod(vec, 'fwd'), A @ vec), ('rev', m._prod(w, 'rev'), A.T @ w),
                                             ('fwd-masked', m._prod(vec, 'fwd', mm), A @ vm)):
                            if not same(got, ref):
                                raise Fail('prod-' + nm, '%s: %s %s _prod %s gives %r, the matrix gives %r' % (
                                    desc, jt, which, nm, np.asarray(got).tolist(), ref.tolist()))
            res_do.append(o_do)
            res_di.append(o_di)
            # ---- run_apply_linear: assembled formats and the matrix-free application agree
            if cs:
                res_app.append(None)
                res_dict.append(None)
                continue
            outs = {}
            for name, (p, g, comps), mode in [(jt, probs[jt], m) for jt in fmts for m in ('fwd', 'rev')] + \
                                             [('free', free['fwd'], 'fwd'), ('free', free['rev'], 'rev')]:
                g._doutputs.set_val(v_out)
                if mode == 'fwd':
                    g._dinputs.set_val(v_in)
                    g._dresiduals.set_val(r0)
                else:
                    g._dinputs.set_val(np.where(internal, 0.0, v_in))
                    g._dresiduals.set_val(w)
                try:
                    g.run_apply_linear(mode)
                except Exception as e:
                    raise Fail('apply-raises-' + mode, '%s: run_apply_linear(%s) with %s jacobian raised %s: %s' % (
                        desc, mode, name, type(e).__name__, str(e)[:300]))
                if mode == 'fwd':
                    outs[(name, mode)] = [g._dresiduals.asarray().copy()]
                else:
                    outs[(name, mode)] = [g._doutputs.asarray().copy(), np.where(internal, 0.0, g._dinputs.asarray())]
            for mode in ('fwd', 'rev'):
                ref = outs[('free', mode)]
                for jt in fmts:
                    for a, b in zip(outs[(jt, mode)], ref):
                        if not same(a, b):
                            raise Fail('apply-' + mode, '%s: run_apply_linear(%s) with the %s assembled jacobian gives %r, '
                                       'matrix-free gives %r' % (desc, mode, jt, [x.tolist() for x in outs[(jt, mode)]],
                                                                 [x.tolist() for x in ref]))
            res_app.append([qv(outs[('csc', 'fwd')][0]), qv(outs[('csc', 'rev')][0]), qv(outs[('csc', 'rev')][1])])
            res_dict.append(qv(outs[('free', 'fwd')][0]))
    except Fail as f:
        ok, msg, sig = False, f.msg, f.sig
    if not ok:
        return {'res': '__none__', 'ok': False, 'msg': msg, 'sig': 'C11:' + sig, 'kind': 'asm'}
    # order of the raw sub-jacobians for the matrix-free model: every declared one plus the -I of explicit outputs
    raw = [[k[0][2:], k[1][2:]] for k in g0._subjacs_info]
    aux['raw'] = raw
    res = [res_do if aux['has_drdo'] else None, res_di if aux['has_drdi'] else None, res_app, res_dict]
    kinds = sorted({p['kind'] for n in case['comps'] for p in n['partials']})
    return {'res': res, 'ok': True, 'msg': '', 'sig': '', 'kind': 'asm:' + '+'.join(kinds), 'aux': aux}


if __name__ == '__main__':
    main(handle)
